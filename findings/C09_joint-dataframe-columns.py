"""C09 finding  estimate/joint-dataframe-columns

For a `JointModel`, `compute_individual_trajectory` returns `dimension + nb_events` columns (longitudinal block followed by the
event block) but `BaseModel.estimate` labels the DataFrame layout with `self.features` only.  Every DataFrame-layout request on
a joint model therefore crashes -- including *every* `pandas.MultiIndex` request, whose documented default layout is a DataFrame:
    ValueError: Shape of passed values is (2, 2), indices imply (2, 1)
The dict layout works (and is the only form covered by tests/functional_tests/api/test_api_estimate.py).

Exit status: 1 when the defect is present, 0 when absent.
Run:  /venv/bin/python findings/C09_joint-dataframe-columns.py     (LEASPY_SRC overrides /repo/src)
"""
import os
import sys
import warnings

sys.path.insert(0, os.environ.get("LEASPY_SRC", "/repo/src"))
warnings.filterwarnings("ignore")

import numpy as np
import pandas as pd

import leaspy.models  # noqa: F401
from leaspy.io.outputs import IndividualParameters
from leaspy.models import JointModel

model = JointModel("joint", dimension=1, features=["a"], source_dimension=0)
model.load_parameters({"log_g_mean": [0.5], "log_v0_mean": [-2.0], "tau_mean": 70.0, "tau_std": 5.0, "xi_std": 0.5,
                       "noise_std": 0.1, "n_log_nu_mean": [-4.3], "log_rho_mean": [1.0]})
model._is_initialized = True
ip = IndividualParameters()
ip.add_individual_parameters("s1", {"xi": 0.1, "tau": 72.0})

as_dict = model.estimate({"s1": [70.0, 75.0]}, ip)
assert as_dict["s1"].shape == (2, 2)  # 1 feature + 1 event
ix = pd.MultiIndex.from_tuples([("s1", 70.0), ("s1", 75.0)], names=["ID", "TIME"])
for what, call in (("MultiIndex request", lambda: model.estimate(ix, ip)),
                   ("dict request with to_dataframe=True", lambda: model.estimate({"s1": [70.0, 75.0]}, ip, to_dataframe=True))):
    try:
        df = call()
    except ValueError as e:
        print(f"DEFECT PRESENT: joint model, {what}: {e}")
        sys.exit(1)
    assert isinstance(df, pd.DataFrame) and df.shape == (2, 2), df
    assert list(df.columns)[:1] == ["a"], df.columns
    assert np.array_equal(df.to_numpy(), as_dict["s1"])
print("ok: the joint model answers DataFrame-layout requests (longitudinal + event columns)")
sys.exit(0)
