"""C18 finding  simulate/single-patient-with-sources

``patient_number = 1`` is admissible ("positive integer"), and so is a visit table with one ID.  With a model that
has sources, the sampled sources are standardised by their sample std, which is NaN for a single value; the NaN
propagates through ``estimate`` into the beta parameters and ``scipy.stats.beta.rvs`` raises
``ValueError: Domain error in arguments`` after everything was sampled.

Exit status: 1 when the defect is present, 0 when absent.
Run:  /venv/bin/python findings/C18_single-patient-with-sources.py     (LEASPY_SRC overrides /repo/src)
"""
import contextlib
import io
import os
import sys
import warnings

sys.path.insert(0, os.environ.get("LEASPY_SRC", "/repo/src"))
warnings.filterwarnings("ignore")

import numpy as np
import pandas as pd
import torch

import leaspy.models  # noqa: F401
from leaspy.exceptions import LeaspyAlgoInputError
from leaspy.models import LogisticModel


def make_model(dim=3, src=1, noise="gaussian-diagonal"):
    """Hand-written admissible logistic model, made usable exactly as BaseModel.load does."""
    m = LogisticModel("logistic", dimension=dim, features=[f"Y{k}" for k in range(dim)], source_dimension=src, obs_models=noise)
    p = dict(tau_mean=70.0, tau_std=5.0, xi_std=0.5, log_g_mean=[0.5] * dim, log_v0_mean=[-3.0] * dim,
             noise_std=[0.05] * dim if noise == "gaussian-diagonal" else 0.05)
    if src:
        p["betas_mean"] = [[0.1] * src for _ in range(dim - 1)]
    m.load_parameters(p)
    m._is_initialized = True
    return m


RANDOM = {"visit_type": "random", "patient_number": 5, "first_visit_mean": 0.0, "first_visit_std": 0.4,
          "time_follow_up_mean": 5, "time_follow_up_std": 0.5, "distance_visit_mean": 0.5, "distance_visit_std": 0.1,
          "min_spacing_between_visits": 0.01}


def simulate(model, features, visit_parameters, seed=0):
    with contextlib.redirect_stdout(io.StringIO()):
        return model.simulate(algorithm="simulate", features=features, visit_parameters=visit_parameters, seed=seed)


def check_basic(res, n, feats):
    df = res.data.to_dataframe()
    assert df["ID"].nunique() == n, (df["ID"].nunique(), n)
    v = df[feats].to_numpy(float)
    assert np.isfinite(v).all() and v.min() >= 0 and v.max() <= 1
    assert len(res.individual_parameters) == n
    for _, g in df.groupby("ID"):
        assert (np.diff(g["TIME"].to_numpy()) > 0).all()
    return df


model, feats = make_model(src=2), ["Y0", "Y1", "Y2"]
designs = {"random patient_number=1": (dict(RANDOM, patient_number=1), 1),
           "table with one ID": ({"visit_type": "dataframe", "df_visits": pd.DataFrame({"ID": ["a", "a"], "TIME": [70.0, 71.0]})}, 1)}
bad = []
for label, (vp, n) in designs.items():
    try:
        res = simulate(model, feats, vp)
        check_basic(res, n, feats)
        assert np.isfinite(res.individual_parameters[["sources_0", "sources_1"]].to_numpy(float)).all()
    except ValueError as e:
        bad.append((label, str(e)[:60]))
if bad:
    print("DEFECT PRESENT: a single individual cannot be simulated with a model that has sources:", bad)
    sys.exit(1)
print("ok: one individual simulated with sources")
sys.exit(0)
