"""C16 / ip.load-csv/float-parse-not-exact

save('x.csv') writes shortest round-trip decimal strings, but load() reads them with pandas' default fast float parser,
which is not correctly rounded: ~25% of ordinary values come back 1 ulp off and values in [1e-4, 1e-3) (written in
positional notation with leading zeros) lose up to 4 decimal digits (relative error ~1e-12).  The csv round trip
therefore does not preserve values, although no tensor (single precision) is involved.
Exit 1 (defect present) / 0 (absent).
"""
import os, sys, tempfile, shutil, warnings
sys.path.insert(0, os.environ.get("LEASPY_SRC", "/repo/src"))
warnings.filterwarnings("ignore")
import numpy as np
from leaspy.io.outputs.individual_parameters import IndividualParameters

rng = np.random.default_rng(0)
vals = np.concatenate([rng.standard_normal(2000), rng.standard_normal(2000) * 1e-4, [0.00010119833935439998, 1e-30]])
ip = IndividualParameters()
for k, v in enumerate(vals):
    ip.add_individual_parameters(f"s{k}", {"xi": [float(v)]})
tmp = tempfile.mkdtemp()
try:
    ip.save(os.path.join(tmp, "ip.csv"))
    back = IndividualParameters.load(os.path.join(tmp, "ip.csv"))
finally:
    shutil.rmtree(tmp, ignore_errors=True)
got = np.array([back[f"s{k}"]["xi"][0] for k in range(len(vals))])
n_bad = int((got != vals).sum())
if n_bad:
    rel = np.abs(got - vals) / np.abs(vals)
    k = int(np.argmax(rel))
    print(f"DEFECT: {n_bad}/{len(vals)} values changed by a csv save/load; worst {vals[k]!r} -> {got[k]!r} (rel. {rel[k]:.2e})")
    sys.exit(1)
print("ok: csv save/load returns every value exactly")
