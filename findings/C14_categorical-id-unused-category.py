"""C14 finding  reader/categorical-id-unused-category

Categorical identifiers are documented as valid (`_check_ID`: "string, integer or categories").  The readers group by the
`ID` level with pandas' default `observed=False`, so every *unused* category yields an empty group:
  * visit layout: `read()` creates an `IndividualData` without observations -> `Dataset(data)` crashes with
    `TypeError: object of type 'NoneType' has no len()`;
  * joint / event / covariate layouts: `groupby("ID").nunique()` is 0 for the unused category -> the valid table is refused with
    the misleading "There must be only an unique event_time and an unique event_bool per patient" / "... unique covariate value".
An unused category does not need to be declared by the caller: it also appears when all rows of one subject are full of NaN
and are dropped by the reader (`drop_full_nan=True`, the default), or after the caller filtered a categorical frame.

Exit status: 1 when the defect is present, 0 when absent.
Run:  /venv/bin/python findings/C14_categorical-id-unused-category.py     (LEASPY_SRC overrides /repo/src)
"""
import os
import sys
import warnings

sys.path.insert(0, os.environ.get("LEASPY_SRC", "/repo/src"))
warnings.filterwarnings("ignore")

import numpy as np
import pandas as pd

import leaspy.models  # noqa: F401
from leaspy.io.data.data import Data
from leaspy.io.data.dataset import Dataset

plain = pd.DataFrame({"ID": ["b", "b", "a", "a", "c"], "TIME": [70.0, 71.0, 60.0, 61.0, 50.0], "Y0": [0.1, 0.2, 0.3, 0.4, np.nan],
                      "EVENT_TIME": [75.0, 75.0, 65.0, 65.0, 55.0], "EVENT_BOOL": [0, 0, 1, 1, 1], "SEX": [0, 0, 1, 1, 1]})
cat = plain.assign(ID=plain["ID"].astype("category"))                       # all categories used ... until 'c' (all-NaN) is dropped
cat_filtered = cat[cat["ID"] != "c"]                                        # category 'c' declared but unused
plain_filtered = plain[plain["ID"] != "c"]

cases = [
    ("visit, subject 'c' only has all-NaN rows", "visit", {}, cat[["ID", "TIME", "Y0"]], plain[["ID", "TIME", "Y0"]]),
    ("visit, filtered categorical frame", "visit", {}, cat_filtered[["ID", "TIME", "Y0"]], plain_filtered[["ID", "TIME", "Y0"]]),
    ("joint, filtered categorical frame", "joint", {}, cat_filtered.drop(columns="SEX"), plain_filtered.drop(columns="SEX")),
    ("event, filtered categorical frame", "event", {}, cat_filtered[["ID", "EVENT_TIME", "EVENT_BOOL"]].drop_duplicates(),
     plain_filtered[["ID", "EVENT_TIME", "EVENT_BOOL"]].drop_duplicates()),
    ("covariate, filtered categorical frame", "covariate", {"covariate_names": ["SEX"]},
     cat_filtered.drop(columns=["EVENT_TIME", "EVENT_BOOL"]), plain_filtered.drop(columns=["EVENT_TIME", "EVENT_BOOL"])),
]
bad = False
for label, layout, fk, frame_cat, frame_plain in cases:
    ref = Dataset(Data.from_dataframe(frame_plain, layout, factory_kws=dict(fk)))
    try:
        ds = Dataset(Data.from_dataframe(frame_cat, layout, factory_kws=dict(fk)))
        assert sorted(ds.indices) == sorted(ref.indices) == ["a", "b"], (ds.indices, ref.indices)
        print(f"ok      {label}: {ds.indices}")
    except Exception as e:
        print(f"DEFECT  {label}: plain identifiers accepted {ref.indices}, categorical identifiers -> {type(e).__name__}: {str(e)[:90]}")
        bad = True
sys.exit(1 if bad else 0)
