"""C14 finding  order-not-first-appearance/event

With the default `sort_index=False` every reader keeps the individuals in order of first appearance in the table
(`read()` groups with `sort=False`), except the event reader: `EventDataframeDataReader._clean_dataframe` ends with
`df_event.groupby("ID").first()`, which sorts by identifier.  For the event-only layout `Data` / `Dataset` rows are therefore in
*sorted* order, not in order of first appearance (statement: "one row per individual in order of first appearance ...
independently of the row order of the input", quantified over the visit, event, joint and covariate layouts).
The joint layout is not affected (its left join follows the visit table).

Exit status: 1 when the defect is present, 0 when absent.
Run:  /venv/bin/python findings/C14_event-order-sorted-by-id.py     (LEASPY_SRC overrides /repo/src)
"""
import os
import sys
import warnings

sys.path.insert(0, os.environ.get("LEASPY_SRC", "/repo/src"))
warnings.filterwarnings("ignore")

import pandas as pd

import leaspy.models  # noqa: F401
from leaspy.io.data.data import Data
from leaspy.io.data.dataset import Dataset

ids = ["s3", "s1", "s2"]
ev = pd.DataFrame({"ID": ids, "EVENT_TIME": [75.0, 65.0, 55.0], "EVENT_BOOL": [0, 1, 1]})
visits = pd.DataFrame({"ID": ids, "TIME": [70.0, 60.0, 50.0], "Y0": [0.1, 0.2, 0.3]})
order_visit = Dataset(Data.from_dataframe(visits, "visit")).indices
order_joint = Dataset(Data.from_dataframe(visits.merge(ev, on="ID"), "joint")).indices
ds = Dataset(Data.from_dataframe(ev, "event"))
print("first appearance:", ids, "| visit layout:", order_visit, "| joint layout:", order_joint, "| event layout:", ds.indices)
assert order_visit == ids and order_joint == ids
if ds.indices != ids:
    print("DEFECT: event layout orders the individuals by sorted identifier, not by first appearance")
    sys.exit(1)
assert ds.event_time[:, 0].tolist() == [75.0, 65.0, 55.0]
sys.exit(0)
