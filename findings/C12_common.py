"""Shared by the C12 repro scripts: import leaspy from $LEASPY_SRC (default /repo/src) and build a tiny cohort."""
import os
import sys
import warnings

SRC = os.environ.get("LEASPY_SRC", "/repo/src")
sys.path.insert(0, SRC)
warnings.filterwarnings("ignore")
os.environ.setdefault("MPLBACKEND", "Agg")

import numpy as np  # noqa: E402
import pandas as pd  # noqa: E402

import leaspy.models  # noqa: E402,F401  (import order, DESIGN §8)

assert os.path.realpath(leaspy.__file__).startswith(os.path.realpath(SRC)), leaspy.__file__


def cohort(n_feat=1, n_ind=8, seed=0):
    """Noisy logistic progression, 4-6 visits per subject, no missing value."""
    rng = np.random.default_rng(seed)
    rows = []
    g = np.exp(rng.normal(0, 0.5, n_feat))
    v0 = np.exp(rng.normal(-3, 0.3, n_feat))
    for i in range(n_ind):
        tau, xi = 70 + rng.normal(0, 5), rng.normal(0, 0.4)
        ages = np.round(tau - 6 + np.cumsum(rng.uniform(0.5, 2.0, size=int(rng.integers(4, 7)))), 3)
        for t in ages:
            y = 1 / (1 + g * np.exp(-(v0 * (g + 1) ** 2 / g * np.exp(xi) * (t - tau))))
            rows.append([f"S{i:02d}", t] + list(np.clip(y + rng.normal(0, 0.04, n_feat), 0.01, 0.99)))
    return pd.DataFrame(rows, columns=["ID", "TIME"] + [f"Y{k}" for k in range(n_feat)]).set_index(["ID", "TIME"])
