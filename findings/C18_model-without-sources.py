"""C18 finding  simulate/model-without-sources

Any logistic model with ``source_dimension == 0`` (every univariate model, and e.g. the repository's own
``tests/_data/model_parameters/hardcoded/logistic_diag_noise_no_source.json``) cannot be simulated:
``torch.stack([])`` in ``_sample_individual_parameters_from_model_parameters`` raises
``RuntimeError: stack expects a non-empty TensorList``.

Exit status: 1 when the defect is present, 0 when absent.
Run:  /venv/bin/python findings/C18_model-without-sources.py     (LEASPY_SRC overrides /repo/src)
"""
import contextlib
import io
import os
import sys
import warnings

sys.path.insert(0, os.environ.get("LEASPY_SRC", "/repo/src"))
warnings.filterwarnings("ignore")

import numpy as np
import pandas as pd
import torch

import leaspy.models  # noqa: F401
from leaspy.exceptions import LeaspyAlgoInputError
from leaspy.models import LogisticModel


def make_model(dim=3, src=1, noise="gaussian-diagonal"):
    """Hand-written admissible logistic model, made usable exactly as BaseModel.load does."""
    m = LogisticModel("logistic", dimension=dim, features=[f"Y{k}" for k in range(dim)], source_dimension=src, obs_models=noise)
    p = dict(tau_mean=70.0, tau_std=5.0, xi_std=0.5, log_g_mean=[0.5] * dim, log_v0_mean=[-3.0] * dim,
             noise_std=[0.05] * dim if noise == "gaussian-diagonal" else 0.05)
    if src:
        p["betas_mean"] = [[0.1] * src for _ in range(dim - 1)]
    m.load_parameters(p)
    m._is_initialized = True
    return m


RANDOM = {"visit_type": "random", "patient_number": 5, "first_visit_mean": 0.0, "first_visit_std": 0.4,
          "time_follow_up_mean": 5, "time_follow_up_std": 0.5, "distance_visit_mean": 0.5, "distance_visit_std": 0.1,
          "min_spacing_between_visits": 0.01}


def simulate(model, features, visit_parameters, seed=0):
    with contextlib.redirect_stdout(io.StringIO()):
        return model.simulate(algorithm="simulate", features=features, visit_parameters=visit_parameters, seed=seed)


def check_basic(res, n, feats):
    df = res.data.to_dataframe()
    assert df["ID"].nunique() == n, (df["ID"].nunique(), n)
    v = df[feats].to_numpy(float)
    assert np.isfinite(v).all() and v.min() >= 0 and v.max() <= 1
    assert len(res.individual_parameters) == n
    for _, g in df.groupby("ID"):
        assert (np.diff(g["TIME"].to_numpy()) > 0).all()
    return df


bad = []
for dim in (1, 3):
    model, feats = make_model(dim=dim, src=0), [f"Y{k}" for k in range(dim)]
    if dim == 1:  # keep this repro independent of finding scalar-noise-one-element-vector: use the fitted 0-d noise form
        model.state["noise_std"] = torch.tensor(0.05)
    try:
        res = simulate(model, feats, dict(RANDOM))
        check_basic(res, 5, feats)
    except RuntimeError as e:
        bad.append((f"dimension {dim}", str(e)))
if bad:
    print("DEFECT PRESENT: logistic models without sources cannot be simulated:", bad)
    sys.exit(1)
print("ok: models without sources simulate")
sys.exit(0)
