"""C18 finding  simulate/duplicate-feature-names

A feature list with a repeated name passes ``_check_features``; after sampling, ``df_long[feat]`` selects two columns
and ``_generate_dataset`` dies with a pandas ``ValueError`` instead of a ``LeaspyAlgoInputError`` up front.

Exit status: 1 when the defect is present, 0 when absent.
Run:  /venv/bin/python findings/C18_duplicate-feature-names.py     (LEASPY_SRC overrides /repo/src)
"""
import contextlib
import io
import os
import sys
import warnings

sys.path.insert(0, os.environ.get("LEASPY_SRC", "/repo/src"))
warnings.filterwarnings("ignore")

import numpy as np
import pandas as pd
import torch

import leaspy.models  # noqa: F401
from leaspy.exceptions import LeaspyAlgoInputError
from leaspy.models import LogisticModel


def make_model(dim=3, src=1, noise="gaussian-diagonal"):
    """Hand-written admissible logistic model, made usable exactly as BaseModel.load does."""
    m = LogisticModel("logistic", dimension=dim, features=[f"Y{k}" for k in range(dim)], source_dimension=src, obs_models=noise)
    p = dict(tau_mean=70.0, tau_std=5.0, xi_std=0.5, log_g_mean=[0.5] * dim, log_v0_mean=[-3.0] * dim,
             noise_std=[0.05] * dim if noise == "gaussian-diagonal" else 0.05)
    if src:
        p["betas_mean"] = [[0.1] * src for _ in range(dim - 1)]
    m.load_parameters(p)
    m._is_initialized = True
    return m


RANDOM = {"visit_type": "random", "patient_number": 5, "first_visit_mean": 0.0, "first_visit_std": 0.4,
          "time_follow_up_mean": 5, "time_follow_up_std": 0.5, "distance_visit_mean": 0.5, "distance_visit_std": 0.1,
          "min_spacing_between_visits": 0.01}


def simulate(model, features, visit_parameters, seed=0):
    with contextlib.redirect_stdout(io.StringIO()):
        return model.simulate(algorithm="simulate", features=features, visit_parameters=visit_parameters, seed=seed)


def check_basic(res, n, feats):
    df = res.data.to_dataframe()
    assert df["ID"].nunique() == n, (df["ID"].nunique(), n)
    v = df[feats].to_numpy(float)
    assert np.isfinite(v).all() and v.min() >= 0 and v.max() <= 1
    assert len(res.individual_parameters) == n
    for _, g in df.groupby("ID"):
        assert (np.diff(g["TIME"].to_numpy()) > 0).all()
    return df


model = make_model(dim=3)
np.random.seed(123)
before = np.random.get_state()[1].copy()
try:
    simulate(model, ["A", "B", "A"], dict(RANDOM), seed=None)
    print("DEFECT PRESENT: duplicated feature names accepted")
    sys.exit(1)
except LeaspyAlgoInputError as e:
    assert (np.random.get_state()[1] == before).all(), "refused only after random draws"
    print("ok: refused up front:", e)
    sys.exit(0)
except Exception as e:
    print(f"DEFECT PRESENT: duplicated feature names crash after sampling: {type(e).__name__}: {e}")
    sys.exit(1)
