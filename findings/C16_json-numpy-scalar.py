"""C16 / ip.save-json/numpy-scalar-not-serializable

add_individual_parameters explicitly accepts numpy scalars (np.float32, np.int32, np.int64 are in its list of valid
scalar types), but save('x.json') then dies with TypeError (json cannot serialise them) and leaves a truncated file.
Exit 1 (defect present) / 0 (absent).
"""
import os, sys, tempfile, shutil, warnings
sys.path.insert(0, os.environ.get("LEASPY_SRC", "/repo/src"))
warnings.filterwarnings("ignore")
import numpy as np
from leaspy.io.outputs.individual_parameters import IndividualParameters

bad = []
tmp = tempfile.mkdtemp()
try:
    for typ in (np.float32, np.int32, np.int64, np.float64):
        for as_list in (False, True):
            ip = IndividualParameters()
            ip.add_individual_parameters("a", {"tau": [typ(70)] if as_list else typ(70)})
            path = os.path.join(tmp, f"{typ.__name__}-{as_list}.json")
            try:
                ip.save(path)
                back = IndividualParameters.load(path)
                assert back._indices == ["a"] and np.ravel(back["a"]["tau"]).tolist() == [70.0]
            except TypeError as e:
                bad.append(f"{typ.__name__}{' in a list' if as_list else ''}: {e}")
finally:
    shutil.rmtree(tmp, ignore_errors=True)
if bad:
    print("DEFECT: accepted numpy scalars cannot be saved to json:")
    print("\n".join("  " + b for b in bad))
    sys.exit(1)
print("ok: containers holding numpy scalars save to json and load back")
