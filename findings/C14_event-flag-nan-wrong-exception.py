"""C14 finding  malformed-wrong-exception/ev_flag_nan

A missing event indicator (NaN in `EVENT_BOOL`) is a malformed event ("Events must be stored in type int, with 0 equal to
censored event"), but the check is written `np.array_equal(x, x.astype(int))` and `astype(int)` itself raises on NaN:
    pandas.errors.IntCastingNaNError: Cannot convert non-finite values (NA or inf) to integer
i.e. the table is refused with a pandas exception instead of `LeaspyDataInputError` (the covariate reader tests `isna()` first
for exactly this reason; the event reader does not).  Statement: "inconsistent events ... are rejected with a data-input error".

Exit status: 1 when the defect is present, 0 when absent.
Run:  /venv/bin/python findings/C14_event-flag-nan-wrong-exception.py     (LEASPY_SRC overrides /repo/src)
"""
import os
import sys
import warnings

sys.path.insert(0, os.environ.get("LEASPY_SRC", "/repo/src"))
warnings.filterwarnings("ignore")

import numpy as np
import pandas as pd

import leaspy.models  # noqa: F401
from leaspy.exceptions import LeaspyDataInputError
from leaspy.io.data.data import Data

df = pd.DataFrame({"ID": ["a", "a", "b"], "TIME": [60.0, 61.0, 70.0], "Y0": [0.1, 0.2, 0.3],
                   "EVENT_TIME": [65.0, 65.0, 75.0], "EVENT_BOOL": [1.0, 1.0, np.nan]})
bad = False
for layout, frame in (("joint", df), ("event", df[["ID", "EVENT_TIME", "EVENT_BOOL"]].drop_duplicates())):
    try:
        Data.from_dataframe(frame, layout)
        print(f"DEFECT ({layout}): NaN event indicator silently accepted")
        bad = True
    except LeaspyDataInputError as e:
        print(f"{layout}: refused with LeaspyDataInputError: {e}")
    except Exception as e:
        print(f"DEFECT ({layout}): refused with {type(e).__module__}.{type(e).__name__} instead of LeaspyDataInputError: {e}")
        bad = True
sys.exit(1 if bad else 0)
