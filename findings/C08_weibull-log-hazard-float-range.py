"""C08 finding — key: weibull/log-hazard-lost-when-hazard-leaves-float64-range

`AbstractWeibullRightCensoredFamily.compute_log_likelihood_hazard` forms the hazard
    h = (rho / nu_i) * ((t - tau) / nu_i) ** (rho - 1)
in linear space and only then takes its log, keeping `hazard` itself when `hazard > 0` is false.
When the power factor leaves the float64 range the log-hazard of an *observed* event is lost:

* underflow (peaked law, event in the left tail): hazard == 0.0  ->  "log-hazard" = 0.0, i.e. the event is scored as if
  h(t) = 1; the individual's attachment is -log S(t) ~ 0 instead of a large positive number (here 913.4 / 7e20);
* overflow: hazard == inf -> log-hazard = +inf, attachment = -(-inf + inf) = NaN.

Reached with leaspy's own data-driven start of the joint model on a small cohort (lifelines returned rho = 2.8e22 for the
cohort of replay case state/index 8: the event attachment of an observed individual was 0 instead of 7.06e20), and for any
rho >~ 30 with an event close after the reference time.

Exit status 1 when the defect is present, 0 when absent.  Usage: python C08_weibull-log-hazard-float-range.py  (LEASPY_SRC=... to test a copy)
"""
import math
import os
import sys

sys.path.insert(0, os.environ.get("LEASPY_SRC", "/repo/src"))
import torch

import leaspy.models  # noqa: F401  (import order)
from leaspy.utils.weighted_tensor import WeightedTensor
from leaspy.variables.distributions import WeibullRightCensoredFamily as W

bad = 0
for t, tau, xi, nu, rho in [
    (70.1, 70.0, 0.0, 10.0, 200.0),       # s/nu = 0.01, peaked law: log h = log(200/10) + 199*log(0.01) = -913.4
    (86.342, 74.57499694824219, 0.0, 12.067049026489258, 2.804365367085769e22),  # values produced by JointModel.initialize on a 5-subject cohort
    (67.244, 67.24399999640058, 0.10, 0.2777, 657.6),
]:
    x = WeightedTensor(torch.tensor([[t]], dtype=torch.float64), torch.tensor([[True]]))
    args = (torch.tensor([nu], dtype=torch.float64), torch.tensor([rho], dtype=torch.float64),
            torch.tensor([[xi]], dtype=torch.float64), torch.tensor([[tau]], dtype=torch.float64))
    got = float(W.nll(x, *args).value)
    s = math.exp(xi) * (t - tau)
    H = math.exp(rho * (math.log(s) - math.log(nu))) if rho * (math.log(s) - math.log(nu)) < 700 else math.inf
    log_h = math.log(rho) + xi - math.log(nu) + (rho - 1.0) * (math.log(s) - math.log(nu))
    want = H - log_h
    ok = math.isfinite(got) and abs(got - want) <= 1e-6 * max(1.0, abs(want))
    print(f"t-tau={t - tau:.3g} nu={nu:.4g} rho={rho:.4g}: nll={got!r}  textbook -log S - log h = {want!r}  {'ok' if ok else 'WRONG'}")
    bad += not ok
sys.exit(1 if bad else 0)
