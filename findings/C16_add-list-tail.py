"""C16 / ip.add/accepted-list-tail-unsupported

add_individual_parameters validates only the FIRST element of a list value: [0.1, 'a'], [0.1, None], [0.1, [2.0]] are accepted
(while ['a', 0.1] is refused), so a value of unsupported type enters the container and only explodes later (to_pytorch, means...).
Exit 1 (defect present) / 0 (absent).
"""
import os, sys, tempfile, shutil, warnings
sys.path.insert(0, os.environ.get("LEASPY_SRC", "/repo/src"))
warnings.filterwarnings("ignore")
import numpy as np
from leaspy.io.outputs.individual_parameters import IndividualParameters

from leaspy.exceptions import LeaspyIndividualParamsInputError
accepted = []
for tail in ("a", None, [2.0], 1j, {"x": 1}):
    ip = IndividualParameters()
    ip.add_individual_parameters("ok", {"sources": [0.1, 0.2]})
    try:
        ip.add_individual_parameters("bad", {"sources": [0.1, tail]})
        accepted.append(repr([0.1, tail]))
    except LeaspyIndividualParamsInputError:
        pass
    # mixed int / float lists stay valid
ip = IndividualParameters()
ip.add_individual_parameters("ok", {"sources": [0, 0.2, np.float32(1)]})
if accepted:
    print("DEFECT: lists with an unsupported element after the first one are accepted:", ", ".join(accepted))
    sys.exit(1)
print("ok: every element of a list value is validated")
