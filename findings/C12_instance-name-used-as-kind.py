"""C12 finding  save/instance-name-used-as-kind

`BaseModel.to_dict` writes the free-form *instance* name under "name"; `BaseModel.load` hands that string to
`model_factory` as the model *kind*.  Any model whose instance name differs from its kind (the documented example is
`LogisticModel(name="test-model-logistic")`) cannot be reloaded -- or is silently reloaded as another kind when the
instance name happens to be a kind (`LinearModel("constant")`).

exit 1: defect present, exit 0: absent.   LEASPY_SRC=<src dir> selects the tree (default /repo/src).
"""
import json
import os
import sys
import tempfile

sys.path.insert(0, os.path.dirname(os.path.abspath(__file__)))
from C12_common import cohort  # noqa: E402

from leaspy.models import BaseModel, LinearModel, LogisticModel  # noqa: E402

bad = []
d = tempfile.mkdtemp(prefix="c12-repro-")
try:
    # 1. the example of the `fit` docstring
    model = LogisticModel(name="test-model-logistic", dimension=2, source_dimension=1)
    model.fit(cohort(2), "mcmc_saem", n_iter=5, seed=0, progress_bar=False)
    path = os.path.join(d, "m.json")
    model.save(path)
    print('file "name" =', json.load(open(path))["name"])
    try:
        again = BaseModel.load(path)
        if type(again) is not LogisticModel or again.name != model.name:
            bad.append(f"reloaded as {type(again).__name__} named {again.name!r}")
    except Exception as e:
        bad.append(f"load(save(LogisticModel('test-model-logistic'))) raises {type(e).__name__}: {e}")
    # 2. an instance name that is another kind's name
    lin = LinearModel("constant", dimension=2, source_dimension=0)
    lin.fit(cohort(2), "mcmc_saem", n_iter=5, seed=0, progress_bar=False)
    lin.save(path)
    try:
        again = BaseModel.load(path)
        if type(again) is not LinearModel:
            bad.append(f"LinearModel('constant') reloaded as {type(again).__name__}")
    except Exception as e:
        bad.append(f"load(save(LinearModel('constant'))) raises {type(e).__name__}: {e}")
finally:
    import shutil

    shutil.rmtree(d, ignore_errors=True)
for b in bad:
    print("DEFECT:", b)
sys.exit(1 if bad else 0)
