"""C19 finding `annealing/zero-plateau-length`.

An annealing configuration accepted by AlgorithmSettings / _initialize_annealing with
annealing n_iter < n_plateau - 1 (e.g. the DEFAULT 10 plateaus with n_iter < 18, i.e. int(0.5*n_iter) < 9) gets a
plateau length of 0 and the first `_update_temperature()` raises ZeroDivisionError ("integer modulo by zero"):
the accepted configuration does not run to completion.

Exit 1 / prints DEFECT when present, exit 0 when absent.  Repair: findings/C19_annealing-envelope.patch
Run: /venv/bin/python findings/C19_zero-plateau-length.py   (LEASPY_SRC=<scratch>/src to test another tree)
"""
import os
import sys
import warnings

sys.path.insert(0, os.environ.get("LEASPY_SRC", "/repo/src"))
warnings.filterwarnings("ignore")
import leaspy.models  # noqa: E402,F401
from leaspy.algo import AlgorithmSettings, algorithm_factory  # noqa: E402

bad = 0
for n_iter, ann in [(10, dict(do_annealing=True)),                                   # defaults: 10 plateaus, 5 annealing iterations
                    (17, dict(do_annealing=True, initial_temperature=5)),
                    (100, dict(do_annealing=True, n_plateau=9, n_iter=7, n_iter_frac=None))]:
    algo = algorithm_factory(AlgorithmSettings("mcmc_saem", n_iter=n_iter, progress_bar=False, annealing=ann))
    algo._initialize_annealing()  # accepted
    try:
        for k in range(1, n_iter + 1):
            algo.current_iteration = k
            algo._update_temperature()
    except ZeroDivisionError as e:
        bad += 1
        print(f"DEFECT n_iter={n_iter} annealing={algo.algo_parameters['annealing']}: ZeroDivisionError({e}) at iteration {k}")
        continue
    T = algo.temperature
    print(f"ok n_iter={n_iter}: ran to completion, final temperature {T!r}")
    if T != 1:
        bad += 1
        print("DEFECT final temperature is not 1")
sys.exit(1 if bad else 0)
