"""C20 finding  lme.personalize/subject-without-observation/raises:ValueError

``lme_personalize`` removes missing values itself (``_remove_nans``), so univariate tables whose NaN visits were kept
(``Data.from_dataframe(df, drop_full_nan=False)``, accepted by ``lme_fit``) are an anticipated input.  When one subject has
no observed value at all, the whole personalisation aborts with numpy's
``ValueError: zero-size array to reduction operation maximum which has no identity`` (raised inside ``sm.add_constant``),
instead of returning the conditional mean given no data (= 0) for that subject and the usual values for the others.

Exit status: 1 when the defect is present, 0 when absent.   (LEASPY_SRC overrides /repo/src)
"""
import os
import sys
import warnings

sys.path.insert(0, os.environ.get("LEASPY_SRC", "/repo/src"))
warnings.filterwarnings("ignore")

import numpy as np
import pandas as pd

import leaspy.models  # noqa: F401
from leaspy.io.data import Data, Dataset
from leaspy.models import LMEModel

rng = np.random.default_rng(0)
rows = []
for i in range(12):
    b0, b1 = rng.normal(), 0.5 * rng.normal()
    for t in 60 + np.cumsum(rng.uniform(0.5, 2, 5)):
        rows.append((f"s{i}", round(float(t), 3), 1 + b0 + (0.5 + b1) * (t - 65) / 3 + 0.2 * rng.normal()))
train = pd.DataFrame(rows, columns=["ID", "TIME", "Y"])
new = pd.DataFrame({"ID": ["n0", "n1", "n1"], "TIME": [70.0, 71.0, 72.0], "Y": [np.nan, 0.5, np.nan]})
new_ds = lambda: Dataset(Data.from_dataframe(new, drop_full_nan=False))  # noqa: E731

bad = False
for slope in (False, True):
    model = LMEModel("lme", with_random_slope_age=slope)
    model.fit(train, "lme_fit")
    ref = model.personalize(new[new["ID"] == "n1"], "lme_personalize")["n1"]
    try:
        ip = model.personalize(new_ds(), "lme_personalize")
    except ValueError as e:
        print(f"DEFECT PRESENT (with_random_slope_age={slope}): {type(e).__name__}: {e}")
        bad = True
        continue
    assert all(float(v) == 0.0 for v in ip["n0"].values()), ip["n0"]
    assert all(float(ip["n1"][k]) == float(ref[k]) for k in ref), (ip["n1"], ref)
    print(f"ok (with_random_slope_age={slope}): subject without observation -> {dict(ip['n0'])}")
sys.exit(1 if bad else 0)
