"""C12 finding  load/pathlib-path-rejected

`BaseModel.load(path_to_model_settings: str | Path)` (signature + docstring) and `save` accepts a Path, but `ModelSettings`
only accepts `str` or `dict`: load(Path(...)) raises "Bad type for model settings".

exit 1: defect present, exit 0: absent.
"""
import os
import sys
import tempfile
from pathlib import Path

sys.path.insert(0, os.path.dirname(os.path.abspath(__file__)))
import C12_common  # noqa: E402,F401

from leaspy.models import BaseModel, ConstantModel  # noqa: E402

d = tempfile.mkdtemp(prefix="c12-repro-")
rc = 0
try:
    p = Path(d) / "m.json"
    ConstantModel("constant", features=["a", "b"]).save(p)
    BaseModel.load(str(p))
    try:
        BaseModel.load(p)
    except Exception as e:
        print(f"DEFECT: load(Path) raises {type(e).__name__}: {e}")
        rc = 1
finally:
    import shutil

    shutil.rmtree(d, ignore_errors=True)
sys.exit(rc)
