"""C09 finding  estimate/scalar-age-to-dataframe

`BaseModel.estimate` documents its `timepoints` argument as a dict "[that] contains, for each individual, the time-points to
estimate.  It can be a unique time-point or a list of time-points", and a `to_dataframe` flag.  A unique time-point given as a
scalar works for the default (dict) layout but `to_dataframe=True` crashes:
    TypeError: Index(...) must be called with a collection of some kind, 70.0 was passed
because the scalar is handed to `pd.DataFrame(index=...)` as is.

Exit status: 1 when the defect is present, 0 when absent.
Run:  /venv/bin/python findings/C09_scalar-age-to-dataframe.py     (LEASPY_SRC overrides /repo/src)
"""
import os
import sys
import warnings

sys.path.insert(0, os.environ.get("LEASPY_SRC", "/repo/src"))
warnings.filterwarnings("ignore")

import numpy as np
import pandas as pd

import leaspy.models  # noqa: F401
from leaspy.io.outputs import IndividualParameters
from leaspy.models import LogisticModel

model = LogisticModel("logistic", dimension=2, features=["a", "b"], source_dimension=0, obs_models="gaussian-diagonal")
model.load_parameters({"log_g_mean": [0.5, 1.0], "log_v0_mean": [-3.0, -2.0], "tau_mean": 70.0, "tau_std": 5.0, "xi_std": 0.5,
                       "noise_std": [0.1, 0.1]})
model._is_initialized = True
ip = IndividualParameters()
ip.add_individual_parameters("s1", {"xi": 0.1, "tau": 72.0})
ip.add_individual_parameters("s2", {"xi": -0.2, "tau": 68.0})

request = {"s1": 70.0, "s2": [68.0, 75.0]}
as_dict = model.estimate(request, ip)  # works: {"s1": (1, 2) array, "s2": (2, 2) array}
assert as_dict["s1"].shape == (1, 2) and as_dict["s2"].shape == (2, 2)
try:
    df = model.estimate(request, ip, to_dataframe=True)
except TypeError as e:
    print(f"DEFECT PRESENT: scalar time-point + to_dataframe=True raises TypeError: {e}")
    sys.exit(1)
assert isinstance(df, pd.DataFrame) and list(df.index.names) == ["ID", "TIME"], df
assert [(a, float(b)) for a, b in df.index] == [("s1", 70.0), ("s2", 68.0), ("s2", 75.0)], list(df.index)
assert np.array_equal(df.to_numpy(), np.vstack([as_dict["s1"], as_dict["s2"]]))
# an integer scalar as in the docstring example style
df2 = model.estimate({"s1": 70}, ip, to_dataframe=True)
assert df2.shape == (1, 2)
print("ok: a unique (scalar) time-point is accepted for the DataFrame layout as well")
sys.exit(0)
