"""C12 finding  scalar-noise/0-d-vs-(1,)

The scalar-noise observation model declares `noise_std` with shape (1,) (that is what initialisation and `load` produce) but its
update rule returns a 0-d tensor, so after a fit `model.parameters["noise_std"].shape == ()` and `save` writes a bare number;
the reloaded model holds shape (1,) and `save` writes a one-element list: save(load(f)) != f structurally.

exit 1: defect present, exit 0: absent.
"""
import json
import os
import sys
import tempfile

sys.path.insert(0, os.path.dirname(os.path.abspath(__file__)))
from C12_common import cohort  # noqa: E402

from leaspy.models import BaseModel, LogisticModel  # noqa: E402

bad = []
d = tempfile.mkdtemp(prefix="c12-repro-")
try:
    model = LogisticModel("logistic", dimension=3, source_dimension=1, obs_models="gaussian-scalar")
    model.initialize(__import__("leaspy").io.data.Dataset(__import__("leaspy").io.data.Data.from_dataframe(cohort(3))))
    declared = tuple(model.dag["noise_std"].shape)
    before = tuple(model.parameters["noise_std"].shape)
    model.fit(cohort(3), "mcmc_saem", n_iter=5, seed=0, progress_bar=False)
    after = tuple(model.parameters["noise_std"].shape)
    f1, f2 = os.path.join(d, "f1.json"), os.path.join(d, "f2.json")
    model.save(f1)
    reloaded = BaseModel.load(f1)
    reloaded.save(f2)
    a, b = json.load(open(f1))["parameters"]["noise_std"], json.load(open(f2))["parameters"]["noise_std"]
    print("declared shape", declared, "| initialised", before, "| after fit", after, "| after load", tuple(reloaded.parameters["noise_std"].shape))
    print("f:", a, " save(load(f)):", b)
    if after != declared:
        bad.append(f"noise_std has shape {after} after the fit, declared {declared}")
    if type(a) is not type(b):
        bad.append(f"save(load(f)) writes noise_std as {type(b).__name__}, f has {type(a).__name__}")
finally:
    import shutil

    shutil.rmtree(d, ignore_errors=True)
for x in bad:
    print("DEFECT:", x)
sys.exit(1 if bad else 0)
