"""C14 finding  event-reader/column-order-assert

`EventDataframeDataReader._clean_dataframe` checks that only the two event columns are present with
    assert (df_event.columns == [self.event_time_name, self.event_bool_name]).all()
which also depends on the *order* of the columns in the caller's DataFrame.  A valid joint (or event) table in which the
`EVENT_BOOL` column happens to precede `EVENT_TIME` is refused with a bare `AssertionError` (neither accepted nor a
`LeaspyDataInputError`; with `python -O` the assert vanishes and the two columns are silently read in whatever order).
docs/models.md only lists the required columns (`ID`, `TIME`, `EVENT_TIME`, `EVENT_BOOL`), not an order.

Exit status: 1 when the defect is present, 0 when absent.
Run:  /venv/bin/python findings/C14_event-column-order-assert.py     (LEASPY_SRC overrides /repo/src)
"""
import os
import sys
import warnings

sys.path.insert(0, os.environ.get("LEASPY_SRC", "/repo/src"))
warnings.filterwarnings("ignore")

import pandas as pd

import leaspy.models  # noqa: F401
from leaspy.io.data.data import Data
from leaspy.io.data.dataset import Dataset

df = pd.DataFrame({"ID": ["a", "a", "b"], "TIME": [60.0, 61.0, 70.0], "Y0": [0.1, 0.2, 0.3],
                   "EVENT_TIME": [65.0, 65.0, 75.0], "EVENT_BOOL": [1, 1, 0]})
ref = Dataset(Data.from_dataframe(df, "joint"))
bad = False
for layout, frame in (("joint", df[["ID", "TIME", "EVENT_BOOL", "Y0", "EVENT_TIME"]]),
                      ("event", df[["ID", "EVENT_BOOL", "EVENT_TIME"]].drop_duplicates())):
    try:
        ds = Dataset(Data.from_dataframe(frame, layout))
        assert ds.event_time.tolist() == ref.event_time.tolist() and ds.event_bool.tolist() == ref.event_bool.tolist()
        print(f"{layout}: same table with EVENT_BOOL before EVENT_TIME accepted, same events")
    except AssertionError as e:
        print(f"DEFECT ({layout}): valid table refused with AssertionError({e}) because of the column order")
        bad = True
sys.exit(1 if bad else 0)
