"""C18 finding  simulate/non-positive-drift

``distance_visit_mean <= 0`` is only refused when ``distance_visit_std <= 0`` as well (the message says both "need to be
positive", the test uses ``and``).  With a positive std the design passes validation and the visit loop
``while time < AGE_FOLLOW_UP: time += normal(mean, std)`` is a random walk drifting *away* from its stopping level:
it does not terminate (with positive probability never; in practice it hangs).
The repro counts ``numpy.random.normal`` draws and declares non-termination at 200000 draws for a design whose
follow-up is 5 years and mean step is -0.5 years (no wall clock involved).

Exit status: 1 when the defect is present, 0 when absent.
Run:  /venv/bin/python findings/C18_non-positive-drift.py     (LEASPY_SRC overrides /repo/src)
"""
import contextlib
import io
import os
import sys
import warnings

sys.path.insert(0, os.environ.get("LEASPY_SRC", "/repo/src"))
warnings.filterwarnings("ignore")

import numpy as np
import pandas as pd
import torch

import leaspy.models  # noqa: F401
from leaspy.exceptions import LeaspyAlgoInputError
from leaspy.models import LogisticModel


def make_model(dim=3, src=1, noise="gaussian-diagonal"):
    """Hand-written admissible logistic model, made usable exactly as BaseModel.load does."""
    m = LogisticModel("logistic", dimension=dim, features=[f"Y{k}" for k in range(dim)], source_dimension=src, obs_models=noise)
    p = dict(tau_mean=70.0, tau_std=5.0, xi_std=0.5, log_g_mean=[0.5] * dim, log_v0_mean=[-3.0] * dim,
             noise_std=[0.05] * dim if noise == "gaussian-diagonal" else 0.05)
    if src:
        p["betas_mean"] = [[0.1] * src for _ in range(dim - 1)]
    m.load_parameters(p)
    m._is_initialized = True
    return m


RANDOM = {"visit_type": "random", "patient_number": 5, "first_visit_mean": 0.0, "first_visit_std": 0.4,
          "time_follow_up_mean": 5, "time_follow_up_std": 0.5, "distance_visit_mean": 0.5, "distance_visit_std": 0.1,
          "min_spacing_between_visits": 0.01}


def simulate(model, features, visit_parameters, seed=0):
    with contextlib.redirect_stdout(io.StringIO()):
        return model.simulate(algorithm="simulate", features=features, visit_parameters=visit_parameters, seed=seed)


def check_basic(res, n, feats):
    df = res.data.to_dataframe()
    assert df["ID"].nunique() == n, (df["ID"].nunique(), n)
    v = df[feats].to_numpy(float)
    assert np.isfinite(v).all() and v.min() >= 0 and v.max() <= 1
    assert len(res.individual_parameters) == n
    for _, g in df.groupby("ID"):
        assert (np.diff(g["TIME"].to_numpy()) > 0).all()
    return df


class Budget(BaseException):
    pass


calls = {"n": 0}
_orig = np.random.normal


def tapped(*a, **k):
    calls["n"] += 1
    if calls["n"] > 200_000:
        raise Budget()
    return _orig(*a, **k)


np.random.normal = tapped
model, feats = make_model(), ["Y0", "Y1", "Y2"]
try:
    res = simulate(model, feats, dict(RANDOM, distance_visit_mean=-0.5, distance_visit_std=0.1))
except LeaspyAlgoInputError as e:
    print("ok: refused up front:", str(e).splitlines()[0])
    assert calls["n"] == 0, "refused only after random draws"
    sys.exit(0)
except Budget:
    print("DEFECT PRESENT: distance_visit_mean=-0.5, distance_visit_std=0.1 passes validation and visit generation "
          "made > 200000 draws without reaching the follow-up age (endless loop)")
    sys.exit(1)
check_basic(res, 5, feats)
print("ok: completed")
sys.exit(0)
