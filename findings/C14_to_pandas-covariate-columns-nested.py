"""C14 finding  to_pandas/covariate-columns-nested

`IndividualData._covariate_to_frame` builds the covariate block with `columns=[covariate_names]` (a nested list), so pandas
names the columns with 1-tuples `('SEX',)`.  `Dataset.to_pandas()` / `Data.to_dataframe()` of a covariate dataset therefore
return a table whose covariate columns are not the covariate names and that cannot be re-ingested:
    KeyError: "['SEX'] not found in axis"
(statement: "converting back to a table and re-ingesting changes nothing beyond single-precision rounding").

Exit status: 1 when the defect is present, 0 when absent.
Run:  /venv/bin/python findings/C14_to_pandas-covariate-columns-nested.py     (LEASPY_SRC overrides /repo/src)
"""
import os
import sys
import warnings

sys.path.insert(0, os.environ.get("LEASPY_SRC", "/repo/src"))
warnings.filterwarnings("ignore")

import pandas as pd

import leaspy.models  # noqa: F401
from leaspy.io.data.data import Data
from leaspy.io.data.dataset import Dataset

df = pd.DataFrame({"ID": ["b", "b", "a", "a"], "TIME": [70.0, 71.0, 60.0, 61.5], "Y0": [0.1, 0.2, 0.3, None], "SEX": [0, 0, 1, 1]})
kw = dict(data_type="covariate", factory_kws={"covariate_names": ["SEX"]})
ds = Dataset(Data.from_dataframe(df, **kw))
table = ds.to_pandas()
print("columns of to_pandas():", list(table.columns))
bad = False
if "SEX" not in table.columns:
    print("DEFECT: covariate column is named", [c for c in table.columns if c != "Y0"], "instead of 'SEX'")
    bad = True
try:
    ds2 = Dataset(Data.from_dataframe(table, **kw))
    assert ds2.covariates.tolist() == [[1], [0]] and ds2.indices == ["a", "b"] and ds2.n_observations == 3
    print("re-ingestion ok")
except Exception as e:
    print(f"DEFECT: re-ingestion of to_pandas() fails: {type(e).__name__}: {e}")
    bad = True
sys.exit(1 if bad else 0)
