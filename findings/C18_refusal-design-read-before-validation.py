"""C18 finding  simulate/refusal/design-read-before-validation

``SimulationAlgorithm.__init__`` calls ``_set_param_study`` (which indexes every key and groups the table by ID)
*before* ``_validate_algo_parameters``.  The validator's documented refusals "Missing parameters", "Expected type DataFrame"
and "Dataframe needs to have columns 'ID' and 'TIME'" (missing ID) are therefore unreachable: the caller gets
``KeyError`` / ``AttributeError`` instead of ``LeaspyAlgoInputError``.

Exit status: 1 when the defect is present, 0 when absent.
Run:  /venv/bin/python findings/C18_refusal-design-read-before-validation.py     (LEASPY_SRC overrides /repo/src)
"""
import contextlib
import io
import os
import sys
import warnings

sys.path.insert(0, os.environ.get("LEASPY_SRC", "/repo/src"))
warnings.filterwarnings("ignore")

import numpy as np
import pandas as pd
import torch

import leaspy.models  # noqa: F401
from leaspy.exceptions import LeaspyAlgoInputError
from leaspy.models import LogisticModel


def make_model(dim=3, src=1, noise="gaussian-diagonal"):
    """Hand-written admissible logistic model, made usable exactly as BaseModel.load does."""
    m = LogisticModel("logistic", dimension=dim, features=[f"Y{k}" for k in range(dim)], source_dimension=src, obs_models=noise)
    p = dict(tau_mean=70.0, tau_std=5.0, xi_std=0.5, log_g_mean=[0.5] * dim, log_v0_mean=[-3.0] * dim,
             noise_std=[0.05] * dim if noise == "gaussian-diagonal" else 0.05)
    if src:
        p["betas_mean"] = [[0.1] * src for _ in range(dim - 1)]
    m.load_parameters(p)
    m._is_initialized = True
    return m


RANDOM = {"visit_type": "random", "patient_number": 5, "first_visit_mean": 0.0, "first_visit_std": 0.4,
          "time_follow_up_mean": 5, "time_follow_up_std": 0.5, "distance_visit_mean": 0.5, "distance_visit_std": 0.1,
          "min_spacing_between_visits": 0.01}


def simulate(model, features, visit_parameters, seed=0):
    with contextlib.redirect_stdout(io.StringIO()):
        return model.simulate(algorithm="simulate", features=features, visit_parameters=visit_parameters, seed=seed)


def check_basic(res, n, feats):
    df = res.data.to_dataframe()
    assert df["ID"].nunique() == n, (df["ID"].nunique(), n)
    v = df[feats].to_numpy(float)
    assert np.isfinite(v).all() and v.min() >= 0 and v.max() <= 1
    assert len(res.individual_parameters) == n
    for _, g in df.groupby("ID"):
        assert (np.diff(g["TIME"].to_numpy()) > 0).all()
    return df


model, feats = make_model(), ["Y0", "Y1", "Y2"]
table = pd.DataFrame({"ID": ["a", "a", "b"], "TIME": [70.0, 71.0, 72.0]})
designs = {}
for k in RANDOM:
    if k != "min_spacing_between_visits":
        vp = dict(RANDOM)
        del vp[k]
        designs[f"missing {k}"] = vp
designs["missing df_visits"] = {"visit_type": "dataframe"}
designs["df_visits not a DataFrame"] = {"visit_type": "dataframe", "df_visits": table.to_dict("list")}
designs["df_visits without ID"] = {"visit_type": "dataframe", "df_visits": table.rename(columns={"ID": "SUBJECT"})}
bad = []
for label, vp in designs.items():
    try:
        simulate(model, feats, vp)
        bad.append((label, "accepted"))
    except LeaspyAlgoInputError:
        pass
    except Exception as e:
        bad.append((label, f"{type(e).__name__}: {str(e)[:50]}"))
if bad:
    print("DEFECT PRESENT: documented refusals come out as other exceptions:")
    for b in bad:
        print("   ", b)
    sys.exit(1)
print(f"ok: {len(designs)} incomplete designs all refused with LeaspyAlgoInputError")
sys.exit(0)
