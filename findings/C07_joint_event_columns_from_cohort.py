"""C07 finding: a competing-event joint model silently broadcasts event data that hold another number of event kinds than the model.

A table read without announcing the number of events gets as many event columns as the highest kind of event PRESENT in the cohort.  When another
individual's event of the last kind is censored, every individual's event data shrink to one column; the two-event model then broadcasts them against
its (2,) hazard parameters and adds the log-hazard of BOTH causes to every individual with an observed event: A's terms depend on B's data.
Run: PYTHONPATH=/repo/src /venv/bin/python findings/C07_joint_event_columns_from_cohort.py  -> exit 1 on the defective tree
(on the repaired tree the mismatching dataset is refused with LeaspyInputError: exit 0)."""
import sys
import warnings

import numpy as np
import pandas as pd
import torch

from leaspy.exceptions import LeaspyInputError
from leaspy.io.data import Data, Dataset
from leaspy.models import JointModel

warnings.simplefilter("ignore")
rng = np.random.default_rng(0)
rows = []
kinds = [1, 2, 0, 1, 2, 0, 1, 2]
for k, kind in enumerate(kinds):
    t0 = 60 + 2.0 * k
    for v in range(4):
        t = t0 + 1.5 * v
        rows.append((f"S{k}", t, float(np.clip(1 / (1 + np.exp(-(t - 70) / 5)) + rng.normal(0, 0.02), 0.01, 0.99)), t0 + 9.0, kind))
df = pd.DataFrame(rows, columns=["ID", "TIME", "Y0", "EVENT_TIME", "EVENT_BOOL"])
model = JointModel(name="j", nb_events=2, dimension=1)
torch.manual_seed(0)
model.initialize(Dataset(Data.from_dataframe(df, data_type="joint")))


def terms(table):
    ds = Dataset(Data.from_dataframe(table, data_type="joint"))
    st = model.state.clone()
    with st.auto_fork(None):
        model.put_data_variables(st, ds)
        st["log_rho"] = torch.tensor([0.3, 0.6])  # ordinary Weibull shapes and scales (the initialisation on this toy table gives a degenerate shape)
        st["n_log_nu"] = -torch.log(torch.tensor([20.0, 30.0]))
        for v in model.individual_variables_names:
            st[v] = torch.zeros((ds.n_individuals, 1)) + (55.0 if v == "tau" else 0.0)
    return ds, st["nll_attach_event_ind"].clone()


dsA, a = terms(df)
dfB = df.copy()
dfB.loc[dfB["EVENT_BOOL"] == 2, "EVENT_BOOL"] = 0  # the others' events of the second kind are censored; S0 (first kind) is untouched
try:
    dsB, b = terms(dfB)
except LeaspyInputError as e:
    print("refused:", str(e)[:120])
    sys.exit(0)
print("event columns:", tuple(dsA.event_bool.shape), "->", tuple(dsB.event_bool.shape))
print("S0 event term:", float(a[0]), "->", float(b[0]))
sys.exit(0 if torch.equal(a[0], b[0]) else 1)
