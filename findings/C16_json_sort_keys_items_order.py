"""C16 finding (fixed by /repo 03d8438): json saved with sort_keys=True reloads with items() in key-sorted order.
Run: PYTHONPATH=/repo/src /venv/bin/python findings/C16_json_sort_keys_items_order.py  -> exit 1 on the defective tree."""
import sys, tempfile, os
from leaspy.io.outputs.individual_parameters import IndividualParameters as IP
ip = IP()
for i, v in (("s2", 0.1), ("s10", 0.2), ("s1", 0.3)):
    ip.add_individual_parameters(i, {"xi": v})
p = os.path.join(tempfile.mkdtemp(), "x.json")
ip.save(p, sort_keys=True)
b = IP.load(p)
print(b._indices, [k for k, _ in b.items()])
sys.exit(0 if [k for k, _ in b.items()] == ip._indices == b._indices else 1)
