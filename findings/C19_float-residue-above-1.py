"""C19 finding `annealing/float-residue-above-1`.

The temperature is decreased by repeated float subtraction of (T0-1)/(n_plateau-1).  When the number of plateau
boundaries inside the annealing iterations is exactly n_plateau-1 the last subtraction leaves 1 + k*eps
(e.g. 1.0000000000000007) which `max(T, 1)` keeps: the temperature is NOT exactly 1 after the annealing iterations
(temperature_inv = 0.9999999999999993 for the rest of the run).

Exit 1 / prints DEFECT when present, exit 0 when absent.  Repair: findings/C19_annealing-envelope.patch
"""
import os
import sys
import warnings

sys.path.insert(0, os.environ.get("LEASPY_SRC", "/repo/src"))
warnings.filterwarnings("ignore")
import leaspy.models  # noqa: E402,F401
from leaspy.algo import AlgorithmSettings, algorithm_factory  # noqa: E402

bad = 0
for n_iter, ann in [(100, dict(do_annealing=True, initial_temperature=10.5, n_plateau=7, n_iter=30, n_iter_frac=None)),
                    (200, dict(do_annealing=True, initial_temperature=7, n_plateau=8)),
                    (60, dict(do_annealing=True, initial_temperature=3.3, n_plateau=4))]:
    algo = algorithm_factory(AlgorithmSettings("mcmc_saem", n_iter=n_iter, progress_bar=False, annealing=ann))
    algo._initialize_annealing()
    for k in range(1, n_iter + 1):
        algo.current_iteration = k
        algo._update_temperature()
    T, Ti = algo.temperature, algo.temperature_inv
    if T != 1 or Ti != 1:
        bad += 1
        print(f"DEFECT n_iter={n_iter} annealing={algo.algo_parameters['annealing']}: final temperature {T!r}, temperature_inv {Ti!r}")
    else:
        print(f"ok n_iter={n_iter}: final temperature exactly 1")
sys.exit(1 if bad else 0)
