"""C12 finding  lme/with_random_slope_age-not-saved

`LMEModel.hyperparameters` is empty and `to_dict` does not write `with_random_slope_age`; a random-intercept-only LME
(`with_random_slope_age=False`) reloads as a random-slope model although its stored covariance matrices are 1x1:
`estimate` with the individual parameters of the original model raises KeyError, `personalize` returns other parameters.

exit 1: defect present, exit 0: absent.
"""
import os
import sys
import tempfile

sys.path.insert(0, os.path.dirname(os.path.abspath(__file__)))
from C12_common import cohort  # noqa: E402

import numpy as np  # noqa: E402

from leaspy.models import BaseModel, LMEModel  # noqa: E402

bad = []
d = tempfile.mkdtemp(prefix="c12-repro-")
try:
    df = cohort(1)
    model = LMEModel("lme", with_random_slope_age=False)
    model.fit(df, "lme_fit")
    path = os.path.join(d, "lme.json")
    model.save(path)
    again = BaseModel.load(path)
    print("with_random_slope_age:", model.with_random_slope_age, "->", again.with_random_slope_age)
    if again.with_random_slope_age != model.with_random_slope_age:
        bad.append("with_random_slope_age=False reloads as True")
    ip = model.personalize(df, "lme_personalize")
    tp = {"S00": [70.0, 75.0]}
    want = model.estimate(tp, ip)["S00"]
    try:
        got = again.estimate(tp, ip)["S00"]
        if not np.allclose(got, want, atol=1e-5):
            bad.append("trajectories differ after reload")
    except Exception as e:
        bad.append(f"estimate on the reloaded model raises {type(e).__name__}: {e}")
finally:
    import shutil

    shutil.rmtree(d, ignore_errors=True)
for x in bad:
    print("DEFECT:", x)
sys.exit(1 if bad else 0)
