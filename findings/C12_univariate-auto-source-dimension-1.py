"""C12 finding  univariate/auto-source-dimension-1

Documented quick-start form: `LogisticModel(name=...)` fitted on one feature, no `dimension` given.  At initialisation the
model sets `source_dimension = int(1 ** 0.5) = 1` (the guard "univariate => 0 sources" only looks at a dimension that is not
known yet), is fitted with an empty `betas_mean` / a 1x1 mixing matrix, saved with `"dimension": 1, "source_dimension": 1`,
and the file cannot be loaded: the constructor forces 0 sources for dimension 1 and then rejects the saved source variables.

exit 1: defect present, exit 0: absent.
"""
import json
import os
import sys
import tempfile

sys.path.insert(0, os.path.dirname(os.path.abspath(__file__)))
from C12_common import cohort  # noqa: E402

from leaspy.models import BaseModel, LinearModel, LogisticModel  # noqa: E402

bad = []
d = tempfile.mkdtemp(prefix="c12-repro-")
try:
    for cls, kind in ((LogisticModel, "logistic"), (LinearModel, "linear")):
        model = cls(kind)  # instance name == kind: independent of the instance-name finding
        model.fit(cohort(1), "mcmc_saem", n_iter=5, seed=0, progress_bar=False)
        print(kind, "dimension", model.dimension, "source_dimension", model.source_dimension, "parameters", sorted(model.parameters))
        if model.source_dimension != 0:
            bad.append(f"{kind}: univariate model fitted with source_dimension={model.source_dimension}")
        path = os.path.join(d, f"{kind}.json")
        model.save(path)
        try:
            BaseModel.load(path)
        except Exception as e:
            bad.append(f"{kind}: load(save(m)) raises {type(e).__name__}: {e}")
finally:
    import shutil

    shutil.rmtree(d, ignore_errors=True)
for b in bad:
    print("DEFECT:", b)
sys.exit(1 if bad else 0)
