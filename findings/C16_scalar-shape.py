"""C16 / ip.to_dataframe/scalar-shape

IndividualParameters.to_dataframe() (hence save() to csv, the default format) raises
IndexError: tuple index out of range as soon as one parameter is scalar-valued -- the very form used
in the docstring examples of add_individual_parameters / subset / items.
Exit 1 (defect present) / 0 (absent).  LEASPY_SRC selects the tree (default /repo/src).
"""
import os, sys, tempfile, shutil, warnings
sys.path.insert(0, os.environ.get("LEASPY_SRC", "/repo/src"))
warnings.filterwarnings("ignore")
import numpy as np
from leaspy.io.outputs.individual_parameters import IndividualParameters

ip = IndividualParameters()
# literally the example of the add_individual_parameters docstring
ip.add_individual_parameters("index-1", {"xi": 0.1, "tau": 70, "sources": [0.1, -0.3]})
ip.add_individual_parameters("index-2", {"xi": 0.2, "tau": 73, "sources": [-0.4, -0.1]})
tmp = tempfile.mkdtemp()
try:
    try:
        df = ip.to_dataframe()
        ip.save(os.path.join(tmp, "ip.csv"))
        back = IndividualParameters.load(os.path.join(tmp, "ip.csv"))
    except IndexError as e:
        print("DEFECT: scalar-valued parameters cannot be converted to a table:", type(e).__name__, e)
        sys.exit(1)
finally:
    shutil.rmtree(tmp, ignore_errors=True)
assert list(df.index) == ["index-1", "index-2"] and df.shape == (2, 4), df
assert back._indices == ["index-1", "index-2"]
for i in back._indices:
    got = [float(x) for p in ("xi", "tau", "sources") for x in np.ravel(back[i][p])]
    want = [float(x) for p in ("xi", "tau", "sources") for x in np.ravel(ip[i][p])]
    assert np.allclose(got, want, rtol=1e-9), (got, want)
print("ok: scalar-valued parameters convert to a table and back")
