"""C20 finding  constant.last_known/documented-name-refused

Both docstrings (ConstantPredictionAlgorithm and ConstantModel) document the prediction types
``'last'``, ``'last_known'``, ``'max'``, ``'mean'``.  The implementation only accepts ``'last-known'``:
following the documentation raises ``ValueError: 'last_known' is not a valid PredictionType``.

Exit status: 1 when the defect is present, 0 when absent.
Run:  /venv/bin/python findings/C20_last_known-documented-name-refused.py     (LEASPY_SRC overrides /repo/src)
"""
import os
import sys
import warnings

sys.path.insert(0, os.environ.get("LEASPY_SRC", "/repo/src"))
warnings.filterwarnings("ignore")

import numpy as np
import pandas as pd

import leaspy.models  # noqa: F401
from leaspy.models import ConstantModel

df = pd.DataFrame({"ID": ["a"] * 3, "TIME": [70.0, 71.0, 72.0], "F0": [0.1, 0.2, np.nan], "F1": [0.5, 0.6, 0.7]})
try:
    ip = ConstantModel("constant").personalize(df, "constant_prediction", prediction_type="last_known")
except ValueError as e:
    print(f"DEFECT PRESENT: the documented prediction_type 'last_known' is refused: {e}")
    sys.exit(1)
got = {k: float(v) for k, v in ip["a"].items()}
assert got == {"F0": float(np.float32(0.2)), "F1": float(np.float32(0.7))}, got
# the historical spelling must keep working
ip2 = ConstantModel("constant").personalize(df, "constant_prediction", prediction_type="last-known")
assert {k: float(v) for k, v in ip2["a"].items()} == got
print("ok: 'last_known' accepted and returns the last observed value per feature")
sys.exit(0)
