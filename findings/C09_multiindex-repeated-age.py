"""C09 finding  estimate/multiindex-repeated-age

`BaseModel.estimate` documents that, for a `pandas.MultiIndex` request, the estimations are returned for the individuals and
time-points of the index ("reindex back to given index").  When the index contains the same (ID, TIME) pair twice (e.g. two
records of the same visit, or an index with extra levels whose (ID, TIME) projection repeats), the computed frame contains that
pair twice as well and the final `join` pairs every requested duplicate with every computed duplicate: m repeats -> m*m rows.
The result is no longer indexed on the given index (2 requested rows -> 4 returned rows).  The dict form is correct.

Exit status: 1 when the defect is present, 0 when absent.
Run:  /venv/bin/python findings/C09_multiindex-repeated-age.py     (LEASPY_SRC overrides /repo/src)
"""
import os
import sys
import warnings

sys.path.insert(0, os.environ.get("LEASPY_SRC", "/repo/src"))
warnings.filterwarnings("ignore")

import numpy as np
import pandas as pd

import leaspy.models  # noqa: F401
from leaspy.io.outputs import IndividualParameters
from leaspy.models import LogisticModel

model = LogisticModel("logistic", dimension=2, features=["a", "b"], source_dimension=0, obs_models="gaussian-diagonal")
model.load_parameters({"log_g_mean": [0.5, 1.0], "log_v0_mean": [-3.0, -2.0], "tau_mean": 70.0, "tau_std": 5.0, "xi_std": 0.5,
                       "noise_std": [0.1, 0.1]})
model._is_initialized = True
ip = IndividualParameters()
ip.add_individual_parameters("s1", {"xi": 0.1, "tau": 72.0})
ip.add_individual_parameters("s2", {"xi": -0.2, "tau": 68.0})

ix = pd.MultiIndex.from_tuples([("s2", 68.0), ("s1", 80.0), ("s1", 70.0), ("s1", 80.0)], names=["ID", "TIME"])
res = model.estimate(ix, ip)
ref = model.estimate({"s1": [80.0, 70.0, 80.0], "s2": [68.0]}, ip)  # dict form: correct
want = np.vstack([ref["s2"][0], ref["s1"][0], ref["s1"][1], ref["s1"][2]])
if len(res) != len(ix) or not res.index.equals(ix):
    print(f"DEFECT PRESENT: {len(ix)} rows requested, {len(res)} returned; index of the result:\n{list(res.index)}")
    sys.exit(1)
assert np.array_equal(res.to_numpy(), want), (res, want)

# same thing through extra levels (two records of one visit)
ix2 = pd.MultiIndex.from_tuples([("r1", "s1", 70.0), ("r2", "s1", 70.0), ("r1", "s2", 70.0)], names=["RATER", "ID", "TIME"])
res2 = model.estimate(ix2, ip)
if len(res2) != len(ix2) or not res2.index.equals(ix2):
    print(f"DEFECT PRESENT (extra levels): {len(ix2)} rows requested, {len(res2)} returned")
    sys.exit(1)
print("ok: a MultiIndex with a repeated (ID, TIME) pair is answered row for row")
sys.exit(0)
