"""C19 finding `annealing/zero-annealing-iterations`.

When the number of annealing iterations resolves to 0 (explicit `annealing.n_iter=0`, or int(n_iter_frac * n_iter) == 0,
e.g. n_iter=1 with the default fraction 0.5 and n_plateau=2) the temperature is never updated: the whole run is sampled at
the initial temperature instead of 1 ("exactly 1 once the annealing iterations are over" is broken for every iteration).

Exit 1 / prints DEFECT when present, exit 0 when absent.  Repair: findings/C19_annealing-envelope.patch
"""
import os
import sys
import warnings

sys.path.insert(0, os.environ.get("LEASPY_SRC", "/repo/src"))
warnings.filterwarnings("ignore")
import leaspy.models  # noqa: E402,F401
from leaspy.algo import AlgorithmSettings, algorithm_factory  # noqa: E402

bad = 0
for n_iter, ann in [(1, dict(do_annealing=True, n_plateau=2)),
                    (10, dict(do_annealing=True, initial_temperature=31, n_plateau=2, n_iter_frac=0.05)),
                    (50, dict(do_annealing=True, initial_temperature=7, n_plateau=4, n_iter=0, n_iter_frac=None))]:
    algo = algorithm_factory(AlgorithmSettings("mcmc_saem", n_iter=n_iter, progress_bar=False, annealing=ann))
    algo._initialize_annealing()
    temps = [algo.temperature]
    for k in range(1, n_iter + 1):
        algo.current_iteration = k
        algo._update_temperature()
        temps.append(algo.temperature)
    A = algo.algo_parameters["annealing"]["n_iter"]
    after = temps[max(A, 1):]
    if any(t != 1 for t in after):
        bad += 1
        print(f"DEFECT n_iter={n_iter}, annealing iterations={A}: temperatures after each iteration {sorted(set(temps))} (never 1)")
    else:
        print(f"ok n_iter={n_iter}, annealing iterations={A}: temperature 1 after the annealing iterations")
sys.exit(1 if bad else 0)
