"""C18 finding  simulate/min-spacing-below-1e-3

The validator documents ``min_spacing_between_visits`` as a non-negative number ("cannot be negative"; 0 accepted).
For any value below 0.001 (0 included) no rounding precision is selected (``rounding_precision = None``) and
``_generate_dataset`` raises ``TypeError: 'NoneType' object cannot be interpreted as an integer`` after everything was sampled.

Exit status: 1 when the defect is present, 0 when absent.
Run:  /venv/bin/python findings/C18_min-spacing-below-1e-3.py     (LEASPY_SRC overrides /repo/src)
"""
import contextlib
import io
import os
import sys
import warnings

sys.path.insert(0, os.environ.get("LEASPY_SRC", "/repo/src"))
warnings.filterwarnings("ignore")

import numpy as np
import pandas as pd
import torch

import leaspy.models  # noqa: F401
from leaspy.exceptions import LeaspyAlgoInputError
from leaspy.models import LogisticModel


def make_model(dim=3, src=1, noise="gaussian-diagonal"):
    """Hand-written admissible logistic model, made usable exactly as BaseModel.load does."""
    m = LogisticModel("logistic", dimension=dim, features=[f"Y{k}" for k in range(dim)], source_dimension=src, obs_models=noise)
    p = dict(tau_mean=70.0, tau_std=5.0, xi_std=0.5, log_g_mean=[0.5] * dim, log_v0_mean=[-3.0] * dim,
             noise_std=[0.05] * dim if noise == "gaussian-diagonal" else 0.05)
    if src:
        p["betas_mean"] = [[0.1] * src for _ in range(dim - 1)]
    m.load_parameters(p)
    m._is_initialized = True
    return m


RANDOM = {"visit_type": "random", "patient_number": 5, "first_visit_mean": 0.0, "first_visit_std": 0.4,
          "time_follow_up_mean": 5, "time_follow_up_std": 0.5, "distance_visit_mean": 0.5, "distance_visit_std": 0.1,
          "min_spacing_between_visits": 0.01}


def simulate(model, features, visit_parameters, seed=0):
    with contextlib.redirect_stdout(io.StringIO()):
        return model.simulate(algorithm="simulate", features=features, visit_parameters=visit_parameters, seed=seed)


def check_basic(res, n, feats):
    df = res.data.to_dataframe()
    assert df["ID"].nunique() == n, (df["ID"].nunique(), n)
    v = df[feats].to_numpy(float)
    assert np.isfinite(v).all() and v.min() >= 0 and v.max() <= 1
    assert len(res.individual_parameters) == n
    for _, g in df.groupby("ID"):
        assert (np.diff(g["TIME"].to_numpy()) > 0).all()
    return df


model, feats = make_model(), ["Y0", "Y1", "Y2"]
bad = []
for ms in (0, 0.0, 1e-4, 0.0009):
    try:
        res = simulate(model, feats, dict(RANDOM, min_spacing_between_visits=ms))
        check_basic(res, 5, feats)
    except TypeError as e:
        bad.append((ms, f"{type(e).__name__}: {e}"))
if bad:
    print("DEFECT PRESENT: admissible min_spacing_between_visits below 0.001 crashes:", bad)
    sys.exit(1)
print("ok: min_spacing_between_visits in [0, 0.001) simulates")
sys.exit(0)
