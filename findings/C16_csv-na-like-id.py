"""C16 / ip.load-csv/na-like-id

A container whose identifiers include a string that pandas treats as a missing-value token ('NA', 'null', 'nan', 'None',
'N/A', '' ...) saves to csv but cannot be loaded back: read_csv(dtype={'ID': str}) still converts those cells to float NaN
and add_individual_parameters then refuses the non-string identifier.  json / tensor / table forms keep such IDs.
Exit 1 (defect present) / 0 (absent).
"""
import os, sys, tempfile, shutil, warnings
sys.path.insert(0, os.environ.get("LEASPY_SRC", "/repo/src"))
warnings.filterwarnings("ignore")
import numpy as np
from leaspy.io.outputs.individual_parameters import IndividualParameters

from leaspy.exceptions import LeaspyIndividualParamsInputError
bad = []
tmp = tempfile.mkdtemp()
try:
    for tok in ("NA", "null", "nan", "None", "N/A", "NULL", ""):
        ids = ["007", tok, "last"]
        ip = IndividualParameters()
        for k, i in enumerate(ids):
            ip.add_individual_parameters(i, {"xi": [0.5 * k], "sources": [1.0, float("nan")]})
        path = os.path.join(tmp, "ip.csv")
        ip.save(path)
        try:
            back = IndividualParameters.load(path)
            if back._indices != ids:
                bad.append(f"{tok!r}: identifiers came back as {back._indices!r}")
            elif not np.isnan(back[tok]["sources"][1]) or back[tok]["xi"] != [0.5]:
                bad.append(f"{tok!r}: values changed: {back[tok]!r}")
        except LeaspyIndividualParamsInputError as e:
            bad.append(f"{tok!r}: load refused the file written by save: {e}")
finally:
    shutil.rmtree(tmp, ignore_errors=True)
if bad:
    print("DEFECT: csv round trip loses NA-like identifiers:")
    print("\n".join("  " + b for b in bad))
    sys.exit(1)
print("ok: NA-like identifiers survive the csv round trip")
