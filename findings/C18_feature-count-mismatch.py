"""C18 finding  simulate/feature-count-mismatch

A feature list whose length differs from the model dimension passes ``_check_features`` (list of non-blank strings);
the run then samples the individual parameters and dies with a pandas ``ValueError: Shape of passed values is (n, dim),
indices imply (n, len(features))`` instead of being refused with ``LeaspyAlgoInputError`` before anything is generated.

Exit status: 1 when the defect is present, 0 when absent.
Run:  /venv/bin/python findings/C18_feature-count-mismatch.py     (LEASPY_SRC overrides /repo/src)
"""
import contextlib
import io
import os
import sys
import warnings

sys.path.insert(0, os.environ.get("LEASPY_SRC", "/repo/src"))
warnings.filterwarnings("ignore")

import numpy as np
import pandas as pd
import torch

import leaspy.models  # noqa: F401
from leaspy.exceptions import LeaspyAlgoInputError
from leaspy.models import LogisticModel


def make_model(dim=3, src=1, noise="gaussian-diagonal"):
    """Hand-written admissible logistic model, made usable exactly as BaseModel.load does."""
    m = LogisticModel("logistic", dimension=dim, features=[f"Y{k}" for k in range(dim)], source_dimension=src, obs_models=noise)
    p = dict(tau_mean=70.0, tau_std=5.0, xi_std=0.5, log_g_mean=[0.5] * dim, log_v0_mean=[-3.0] * dim,
             noise_std=[0.05] * dim if noise == "gaussian-diagonal" else 0.05)
    if src:
        p["betas_mean"] = [[0.1] * src for _ in range(dim - 1)]
    m.load_parameters(p)
    m._is_initialized = True
    return m


RANDOM = {"visit_type": "random", "patient_number": 5, "first_visit_mean": 0.0, "first_visit_std": 0.4,
          "time_follow_up_mean": 5, "time_follow_up_std": 0.5, "distance_visit_mean": 0.5, "distance_visit_std": 0.1,
          "min_spacing_between_visits": 0.01}


def simulate(model, features, visit_parameters, seed=0):
    with contextlib.redirect_stdout(io.StringIO()):
        return model.simulate(algorithm="simulate", features=features, visit_parameters=visit_parameters, seed=seed)


def check_basic(res, n, feats):
    df = res.data.to_dataframe()
    assert df["ID"].nunique() == n, (df["ID"].nunique(), n)
    v = df[feats].to_numpy(float)
    assert np.isfinite(v).all() and v.min() >= 0 and v.max() <= 1
    assert len(res.individual_parameters) == n
    for _, g in df.groupby("ID"):
        assert (np.diff(g["TIME"].to_numpy()) > 0).all()
    return df


model = make_model(dim=3)
bad = []
for feats in (["Y0", "Y1"], ["Y0", "Y1", "Y2", "Y3"]):
    np.random.seed(123)
    before = np.random.get_state()[1].copy()
    try:
        simulate(model, feats, dict(RANDOM), seed=None)
        bad.append((feats, "ran to completion"))
    except LeaspyAlgoInputError:
        if not (np.random.get_state()[1] == before).all():
            bad.append((feats, "refused only after random draws"))
    except Exception as e:
        bad.append((feats, f"{type(e).__name__}: {str(e)[:70]}"))
if bad:
    print("DEFECT PRESENT: feature list of the wrong length is not refused up front:", bad)
    sys.exit(1)
print("ok: wrong number of features refused with LeaspyAlgoInputError before any draw")
sys.exit(0)
