"""Locate the working tree of leaspy, third-party deps of the harness, and pin determinism.

Imported first by every shard.  The checks always run the code under ``$LEASPY_SRC``
(default ``/repo/src``) -- i.e. /repo's *current working tree*, never an installed copy.
``LEASPY_SRC`` is overridden only by the self-validation driver (mutants in scratch copies).
"""
from __future__ import annotations

import fcntl
import os
import subprocess
import sys
from pathlib import Path

VERIF = Path(__file__).resolve().parent.parent
DEPS = VERIF / ".deps"
WHEELS = "/opt/veriftools/wheels"
GUARD = "LEASPY_VERIF"


def ensure_deps() -> None:
    """Install icontract (+deps) beside the repo's interpreter packages, offline, idempotent."""
    marker = DEPS / ".ok"
    if marker.exists():
        return
    DEPS.mkdir(exist_ok=True)
    with open(DEPS / ".lock", "w") as lk:
        fcntl.flock(lk, fcntl.LOCK_EX)
        if marker.exists():
            return
        subprocess.run(
            [sys.executable, "-m", "pip", "install", "--quiet", "--no-index", "--find-links", WHEELS,
             "--target", str(DEPS), "icontract", "deal"],
            check=True, stdout=subprocess.DEVNULL, stderr=subprocess.DEVNULL,
            env={**os.environ, "PIP_NO_INDEX": "1"},
        )
        marker.write_text("ok")


def env_for_shard() -> dict:
    e = dict(os.environ)
    e.setdefault("PYTHONHASHSEED", "0")
    e["OMP_NUM_THREADS"] = "1"
    e["MKL_NUM_THREADS"] = "1"
    e["OPENBLAS_NUM_THREADS"] = "1"
    e["MPLBACKEND"] = "Agg"
    e[GUARD] = "1"
    e["PYTHONDONTWRITEBYTECODE"] = "1"
    e["PIP_NO_INDEX"] = "1"
    return e


def leaspy_src() -> str:
    return os.environ.get("LEASPY_SRC", "/repo/src")


def activate() -> None:
    """Put the working tree first on sys.path and assert that is what gets imported."""
    src = leaspy_src()
    if src in sys.path:
        sys.path.remove(src)
    sys.path.insert(0, src)
    if str(DEPS) not in sys.path:
        sys.path.append(str(DEPS))
    if str(VERIF) not in sys.path:
        sys.path.insert(1, str(VERIF))
    os.environ.setdefault("MPLBACKEND", "Agg")
    import warnings

    warnings.filterwarnings("ignore")
    import torch

    torch.set_num_threads(1)
    import leaspy
    import leaspy.models  # noqa: F401  (import order: see DESIGN §8)

    got = str(Path(leaspy.__file__).resolve())
    if not got.startswith(str(Path(src).resolve())):
        raise RuntimeError(f"leaspy imported from {got}, expected under {src}")
