"""Writes the brief of an independent seeder sub-agent for one property:  python -m vf.seedprompt C05 [/tmp/wt-C05]  (prints the prompt).

Only the text of the property (title, statement, quantifier, anchors) from properties.jsonl goes in - nothing of the verification machinery."""
import json
import sys
from pathlib import Path

VERIF = Path(__file__).resolve().parent.parent


def prompt(pid: str, wt: str, n: int = 2, flavour: str = "") -> str:
    p = next(d for d in map(json.loads, (VERIF / "properties.jsonl").read_text().splitlines()) if d["id"] == pid)
    a = p["anchors"]
    mech = "; ".join(f"{m['name']} ({m['where']})" for m in a.get("mechanism", []))
    state = "; ".join(f"{m['name']} = {m['meaning']} ({m['where']})" for m in a.get("state", []))
    block = (f"PROPERTY {pid} — {p['title']}\n\nStatement: {p['statement']}\n\nQuantifier (what \"every\" ranges over): {p['quantifier']['text']}\n\n"
             f"Anchors in the code: files {', '.join(a['files'])}; mechanisms: {mech}" + (f"; state: {state}" if state else "") +
             f"; observable at: {', '.join(a.get('observe_at', []))}\n")
    t = (VERIF / "seeded" / "SEEDER_PROMPT.md").read_text()
    t = t[t.index("You are an independent"):]
    i, j = t.index("PROPERTY CNN"), t.index("YOUR TASK")
    t = t[:i] + block + "\n\n" + t[j:]
    t = t.replace("/tmp/wt-CNN", wt).replace("CNN", pid)
    if flavour:
        t = t.replace("Procedure and rules:", flavour + "\n\nProcedure and rules:")
    t = t.replace("`git stash` (or `git apply -R`)", "`git diff > /tmp/<your own file>.diff && git checkout -- src` (NEVER use `git stash`: the stash is shared between worktrees)")
    return t


if __name__ == "__main__":
    pid = sys.argv[1]
    print(prompt(pid, sys.argv[2] if len(sys.argv) > 2 else f"/tmp/wt-{pid}", flavour=sys.argv[3] if len(sys.argv) > 3 else ""))
