"""Regenerates the generated part of DESIGN.md §11 (which checks catch which changes):  python -m vf.report

Sources: selfval/<ID>.json (catalogue mutants), selfval/seeded.json (independent seeds), seeded/<id>/meta.json.
"""
import json
from pathlib import Path

VERIF = Path(__file__).resolve().parent.parent
BEGIN, END = "<!-- BEGIN GENERATED CATCH MATRIX -->", "<!-- END GENERATED CATCH MATRIX -->"


def table():
    out = []
    out.append("### 11.1 Catalogue mutants (written by the builders from the design's mutant lists; `python -m vf.selfval <ID>`)\n")
    out.append("| property | mutants | caught | missed (reason) |\n|---|---|---|---|")
    for f in sorted((VERIF / "selfval").glob("C*.json")):
        rs = json.loads(f.read_text())
        missed = [r["patch"].replace(".patch", "") for r in rs if r.get("applied") and not r.get("caught")]
        out.append(f"| {f.stem} | {len(rs)} | {sum(1 for r in rs if r.get('caught'))} | {', '.join(missed) or '-'} |")
    out.append("")
    sf = VERIF / "selfval" / "seeded.json"
    if sf.exists():
        rs = json.loads(sf.read_text())
        out.append("### 11.2 Independently seeded changes (sub-agents that saw only the property text; `python -m vf.selfval --seeded`)\n")
        out.append("| seeded change | check | caught | violation keys | needs to manifest (seeder's words, abridged) |\n|---|---|---|---|---|")
        for r in rs:
            meta = json.loads((VERIF / "seeded" / r["seeded"] / "meta.json").read_text())
            need = " ".join(meta.get("needs_to_manifest", "").split())
            i = need.lower().find("need")
            need = need[i:i + 230] if i >= 0 else need[:230]
            ok = meta.get("confirmed", {}).get("ok")
            if meta.get("neutralised_by_fix"):
                out.append(f"| `{r['seeded']}` | {r['property']} | n/a | harmless on the repaired tree: {meta['neutralised_by_fix']} | {need.replace('|', '/')} |")
                continue
            out.append(f"| `{r['seeded']}`{'' if ok else ' (unconfirmed)'} | {r['property']} | {'yes' if r.get('caught') else 'NO'} | "
                       f"{', '.join('`'+k+'`' for k in r.get('keys', [])[:3])} | {need.replace('|', '/')} |")
        neutral = {r["seeded"] for r in rs if json.loads((VERIF / "seeded" / r["seeded"] / "meta.json").read_text()).get("neutralised_by_fix")}
        n = len(rs) - len(neutral)
        c = sum(1 for r in rs if r.get("caught") and r["seeded"] not in neutral)
        out.append(f"\n{c} of {n} seeded changes are caught by the quick tier of their property's check"
                   + (f" ({len(neutral)} more no longer break their property on the repaired tree: a later `fix:` commit removed the condition they relied on)." if neutral else "."))
    return "\n".join(out)


def main():
    p = VERIF / "DESIGN.md"
    s = p.read_text()
    t = table()
    if BEGIN in s:
        s = s[: s.index(BEGIN) + len(BEGIN)] + "\n" + t + "\n" + s[s.index(END):]
    else:
        s += f"\n{BEGIN}\n{t}\n{END}\n"
    p.write_text(s)
    print(t[-600:])


if __name__ == "__main__":
    main()
