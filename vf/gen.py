"""Seeded workload generators shared by the checks: cohorts, datasets, models ready for sampling."""
from __future__ import annotations

import numpy as np
import pandas as pd
import torch

from leaspy.io.data.data import Data
from leaspy.io.data.dataset import Dataset


def cohort(rng, n_ind=None, n_feat=None, max_visits=8, missing="mcar", events=False, one_visit_ok=True,
           binary=False, id_style="str", subpops=1, subpop_gap=14.0, nb_events=1):
    """A synthetic cohort table following a noisy logistic progression.  IDs are zero-padded & sorted."""
    n_ind = int(n_ind if n_ind is not None else rng.integers(3, 13))
    n_feat = int(n_feat if n_feat is not None else rng.integers(1, 5))
    rows = []
    t0 = 70.0
    g = np.exp(rng.normal(0.0, 0.6, size=n_feat))
    v0 = np.exp(rng.normal(-3.0, 0.4, size=n_feat))
    for i in range(n_ind):
        nv = int(rng.integers(1 if (one_visit_ok and i >= 2) else 2, max_visits + 1))
        tau = t0 + rng.normal(0, 6) + (float(subpop_gap) * (i * subpops // n_ind) if subpops > 1 else 0.0)  # sub-populations by blocks of IDs
        xi = rng.normal(0, 0.5)
        start = tau + rng.normal(-4, 5)
        gaps = rng.uniform(0.3, 2.0, size=nv)
        ages = np.round(start + np.cumsum(gaps), 3)
        w = rng.normal(0, 0.3, size=n_feat)
        for t in ages:
            rt = np.exp(xi) * (t - tau)
            y = 1.0 / (1.0 + g * np.exp(-(v0 * (g + 1) ** 2 / g * rt + w * (g + 1) ** 2 / g)))
            y = np.clip(y + rng.normal(0, 0.05, size=n_feat), 0.01, 0.99)
            if binary:
                y = (rng.random(n_feat) < y).astype(float)
            rows.append([i, t] + list(y))
    df = pd.DataFrame(rows, columns=["ID", "TIME"] + [f"Y{k}" for k in range(n_feat)])
    feats = [f"Y{k}" for k in range(n_feat)]
    vals = df[feats].to_numpy(copy=True)
    if missing == "mcar" and n_feat >= 1:
        m = rng.random(vals.shape) < 0.25
        vals[m] = np.nan
    elif missing == "heavy":
        m = rng.random(vals.shape) < 0.55
        vals[m] = np.nan
    elif missing == "feature" and n_feat >= 2:
        sid = int(rng.integers(n_ind))
        vals[(df["ID"] == sid).to_numpy(), int(rng.integers(n_feat))] = np.nan
    # never leave a whole row empty (dropped by the reader) nor a subject without any observation
    for r in range(vals.shape[0]):
        if np.isnan(vals[r]).all():
            vals[r, int(rng.integers(n_feat))] = float(np.clip(rng.normal(0.5, 0.2), 0.01, 0.99)) if not binary else float(rng.integers(2))
    # the data-driven initialisation of the models needs, per feature, subjects with >= 2 observed visits:
    # the first two subjects' first two visits are always fully observed (outside every property; see DESIGN C14 note)
    for sid in (0, 1):
        rows_s = np.flatnonzero((df["ID"] == sid).to_numpy())[:2]
        for r in rows_s:
            for k in range(n_feat):
                if np.isnan(vals[r, k]):
                    vals[r, k] = float(df[feats].to_numpy()[r, k])
    # each feature must be observed at least once in the cohort
    for k in range(n_feat):
        if np.isnan(vals[:, k]).all():
            vals[0, k] = 0.5 if not binary else 1.0
    df[feats] = vals
    width = max(3, len(str(n_ind)))
    if id_style == "str":
        df["ID"] = df["ID"].map(lambda i: f"S{i:0{width}d}")
    elif id_style == "numstr":
        df["ID"] = df["ID"].map(lambda i: f"{i + 1:0{width}d}")
    elif id_style == "int":
        df["ID"] = df["ID"] + 1
    elif id_style == "shuffled":
        # order of first appearance differs from every sorted order ("S2" before "S10" before "S1"): not for the joint model, whose
        # data-driven initialisation mis-aligns events when IDs are not sorted (outside the properties, see DESIGN C14 note)
        lab = rng.permutation(n_ind * 3)[:n_ind] + 1
        if n_ind >= 2 and list(map(str, lab)) == sorted(map(str, lab)):
            lab = lab[::-1]
        df["ID"] = df["ID"].map(lambda i: f"S{int(lab[i])}")
    if events:
        last = df.groupby("ID")["TIME"].transform("max")
        ids = df["ID"].unique()
        ev_t, ev_b = {}, {}
        for j, s in enumerate(ids):
            lt = float(df.loc[df["ID"] == s, "TIME"].max())
            ev_t[s] = round(lt + float(rng.uniform(0.1, 5.0)), 3)
            ev_b[s] = bool(rng.random() < 0.6) if j >= 2 else bool(j)  # at least one observed and one censored
            if nb_events >= 2:  # competing events: 0 = censored, k = event of kind k observed (every kind observed at least once)
                ev_b[s] = int(rng.integers(0, nb_events + 1)) if j > nb_events else j
        df["EVENT_TIME"] = df["ID"].map(ev_t)
        df["EVENT_BOOL"] = df["ID"].map(ev_b)
        del last
    return df


def to_dataset(df, events=False, nb_events=1):
    if events:
        data = Data.from_dataframe(df, data_type="joint", **({"factory_kws": {"nb_events": nb_events}} if nb_events != 1 else {}))
    else:
        data = Data.from_dataframe(df)
    return Dataset(data)


def make_model(kind, dimension, source_dimension=0, noise="gaussian-diagonal", features=None, **kw):
    from leaspy.models import JointModel, LinearModel, LogisticModel, SharedSpeedLogisticModel

    features = features or [f"Y{k}" for k in range(dimension)]
    if kind == "logistic":
        return LogisticModel("logistic", dimension=dimension, features=features, source_dimension=source_dimension, obs_models=noise, **kw)
    if kind == "linear":
        return LinearModel("linear", dimension=dimension, features=features, source_dimension=source_dimension, obs_models=noise, **kw)
    if kind == "shared_speed_logistic":
        return SharedSpeedLogisticModel("shared_speed_logistic", dimension=dimension, features=features, source_dimension=source_dimension, **kw)
    if kind == "joint":
        return JointModel("joint", dimension=dimension, features=features, source_dimension=source_dimension, **kw)
    if kind == "mixture_logistic":
        from leaspy.models import LogisticMultivariateMixtureModel

        return LogisticMultivariateMixtureModel("mixture_logistic", dimension=dimension, features=features, source_dimension=source_dimension, **kw)
    raise ValueError(kind)


MODEL_GRID = [
    # (kind, dim, sources, noise)
    ("logistic", 1, 0, "gaussian-scalar"),
    ("logistic", 2, 0, "gaussian-diagonal"),
    ("logistic", 3, 1, "gaussian-scalar"),
    ("logistic", 3, 2, "gaussian-diagonal"),
    ("linear", 2, 1, "gaussian-diagonal"),
    ("linear", 3, 0, "gaussian-scalar"),
    ("shared_speed_logistic", 3, 1, None),
    ("joint", 1, 0, None),
    ("joint", 3, 1, None),
    ("logistic", 2, 1, "bernoulli"),
    ("mixture_logistic", 3, 2, None),
    # corner kinds: shared speed without sources, univariate linear, joint model with two competing events
    ("shared_speed_logistic", 2, 0, None),
    ("linear", 1, 0, "gaussian-scalar"),
    ("joint", 2, 1, "events2"),
]


def ready_state(rng, kind, dim, src, noise, n_ind=None, missing="mcar"):
    """(model, dataset, state) with data variables + individual latent values loaded, fork REF on (as in a fit)."""
    events = kind == "joint"
    nb_ev = 2 if noise == "events2" else 1  # joint model with two competing events
    df = cohort(rng, n_ind=n_ind if (n_ind is None or nb_ev == 1) else max(n_ind, 5), n_feat=dim, missing=missing, events=events, one_visit_ok=not events,
                binary=(noise == "bernoulli"), nb_events=nb_ev)
    ds = to_dataset(df, events=events, nb_events=nb_ev)
    kw = {}
    if nb_ev != 1:
        kw["nb_events"] = nb_ev
        noise = None
    if kind == "mixture_logistic":
        kw["n_clusters"] = 2
    model = make_model(kind, dim, src, noise, **kw) if noise else make_model(kind, dim, src, **kw)
    torch.manual_seed(int(rng.integers(1 << 30)))
    np.random.seed(int(rng.integers(1 << 30)))
    model.initialize(ds)
    state = model.state
    with state.auto_fork(None):
        model.put_data_variables(state, ds)
    model.put_individual_parameters(state, ds)
    return model, ds, state, df
