"""Confirm and archive changes written by the independent seeder sub-agents.

    python -m vf.seedproc collect            # copy /tmp/wt-CNN/SEED/<name>/{patch.diff,demo.py,notes.md} -> seeded/CNN-<name>/
    python -m vf.seedproc confirm [id ...]   # in a scratch worktree of /repo HEAD: demo passes without / fails with the patch, and the
                                             # repository's whole test suite still passes with the patch; writes seeded/<id>/meta.json
Scratch worktrees live under $TMPDIR and are removed (git worktree remove --force) as soon as a seed is done.
"""
from __future__ import annotations

import concurrent.futures as cf
import json
import os
import re
import shutil
import subprocess
import sys
import tempfile
from pathlib import Path

VERIF = Path(__file__).resolve().parent.parent
SEEDED = VERIF / "seeded"
PY = "/venv/bin/python"


def collect():
    for wt in sorted(Path("/tmp").glob("wt-C??")):
        prop = wt.name[3:]
        sd = wt / "SEED"
        if not sd.is_dir():
            continue
        for d in sorted(p for p in sd.iterdir() if p.is_dir() and (p / "patch.diff").exists() and (p / "demo.py").exists()):
            dest = SEEDED / f"{prop}-{d.name}"
            dest.mkdir(parents=True, exist_ok=True)
            for f in ("patch.diff", "demo.py", "notes.md"):
                if (d / f).exists():
                    shutil.copy(d / f, dest / f)
            print("collected", dest.name)


def run(cmd, cwd=None, env=None, timeout=3600):
    p = subprocess.run(cmd, cwd=cwd, env=env, capture_output=True, text=True, timeout=timeout)
    return p.returncode, (p.stdout + p.stderr)


def confirm_one(sid: str):
    d = SEEDED / sid
    prop = sid.split("-")[0]
    wt = Path(tempfile.mkdtemp(prefix=f"confirm-{sid}-"))
    shutil.rmtree(wt)
    meta = {"id": sid, "property": prop, "checks": [prop], "confirmed": {}, "ran": []}
    try:
        rc, out = run(["git", "-C", "/repo", "worktree", "add", "--detach", str(wt), "HEAD"])
        assert rc == 0, out
        head = subprocess.run(["git", "-C", "/repo", "rev-parse", "--short", "HEAD"], capture_output=True, text=True).stdout.strip()
        meta["repo_head"] = head
        env = dict(os.environ, PYTHONPATH=str(wt / "src"), OMP_NUM_THREADS="2", PYTHONHASHSEED="0", MPLBACKEND="Agg")
        demo = [PY, str(d / "demo.py")]
        rc0, out0 = run(demo, cwd=str(wt), env=env, timeout=900)
        meta["confirmed"]["demo_exit_without_change"] = rc0
        meta["ran"].append(f"PYTHONPATH=<worktree>/src {PY} demo.py  (clean worktree at {head}) -> exit {rc0}")
        rc, out = run(["git", "apply", str(d / "patch.diff")], cwd=str(wt))
        meta["confirmed"]["patch_applies"] = rc == 0
        if rc != 0:
            meta["confirmed"]["apply_error"] = out[-300:]
            return meta
        rc1, out1 = run(demo, cwd=str(wt), env=env, timeout=900)
        meta["confirmed"]["demo_exit_with_change"] = rc1
        meta["confirmed"]["demo_tail_with_change"] = out1.strip().splitlines()[-3:]
        meta["ran"].append(f"git apply patch.diff; PYTHONPATH=<worktree>/src {PY} demo.py -> exit {rc1}")
        rc, out = run([PY, "-c", "import leaspy, leaspy.models, leaspy.algo"], cwd=str(wt), env=env)
        meta["confirmed"]["imports"] = rc == 0
        junit = wt / "junit.xml"
        rc, out = run([PY, "-m", "pytest", "-q", "-p", "no:cacheprovider", "--timeout=1800", "--continue-on-collection-errors", f"--junitxml={junit}"],
                      cwd=str(wt), env=env, timeout=7200)
        tail = [l for l in out.strip().splitlines() if re.search(r"passed|failed|error", l)][-1:] or out.strip().splitlines()[-1:]
        meta["confirmed"]["suite_exit"] = rc
        meta["confirmed"]["suite_summary"] = tail[0] if tail else ""
        meta["ran"].append(f"cd <worktree> && PYTHONPATH=<worktree>/src {PY} -m pytest -q -p no:cacheprovider --timeout=1800 -> exit {rc}: {tail[0] if tail else ''}")
        meta["confirmed"]["ok"] = bool(rc0 == 0 and rc1 != 0 and rc == 0)
        return meta
    except Exception as e:  # keep going with the other seeds
        meta["confirmed"]["error"] = repr(e)[:300]
        return meta
    finally:
        subprocess.run(["git", "-C", "/repo", "worktree", "remove", "--force", str(wt)], capture_output=True)
        shutil.rmtree(wt, ignore_errors=True)
        notes = (d / "notes.md").read_text() if (d / "notes.md").exists() else ""
        meta["needs_to_manifest"] = notes[:1500]
        (d / "meta.json").write_text(json.dumps(meta, indent=1))
        print(sid, json.dumps(meta["confirmed"])[:300], flush=True)


def main():
    if sys.argv[1] == "collect":
        collect()
    elif sys.argv[1] == "confirm":
        ids = sys.argv[2:] or [d.name for d in sorted(SEEDED.iterdir()) if d.is_dir() and not (d / "meta.json").exists()]
        with cf.ThreadPoolExecutor(max_workers=int(os.environ.get("SEED_JOBS", "4"))) as ex:
            list(ex.map(confirm_one, ids))


if __name__ == "__main__":
    main()
