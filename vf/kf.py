"""Maintain known_findings.json:  python -m vf.kf add <property> <key> <known|fixed> <commit|-> "<what>" """
import json
import sys
from pathlib import Path

P = Path(__file__).resolve().parent.parent / "known_findings.json"


def add(prop, key, status, commit, what):
    d = json.loads(P.read_text())
    d["findings"] = [f for f in d["findings"] if not (f["property"] == prop and f["key"] == key)]
    e = {"property": prop, "key": key, "status": status, "what": what}
    if status == "fixed":
        e["commit"] = commit
        e["line"] = f"fixed: property={prop} {commit} {what}"
    d["findings"].append(e)
    d["findings"].sort(key=lambda f: (f["property"], f["key"]))
    P.write_text(json.dumps(d, indent=1) + "\n")


if __name__ == "__main__":
    if sys.argv[1] == "add":
        add(*sys.argv[2:7])
