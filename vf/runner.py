"""Shard fan-out, verdict folding, evidence / replay writers.  See DESIGN.md §1.

Parent mode :  python -m vf.runner C15 --tier quick            (what ./check calls)
Shard mode  :  python -m vf.runner C15 --shard-file f.json     (internal, one subprocess per shard)
Replay mode :  python -m vf.runner C15 --replay replay/C15/x.json
"""
from __future__ import annotations

import argparse
import concurrent.futures as cf
import hashlib
import importlib
import json
import os
import shutil
import subprocess
import sys
import tempfile
import time
import traceback
from pathlib import Path

from . import bootstrap

VERIF = bootstrap.VERIF
MAX_RECORDED_PER_KEY = 4
MAX_SAMPLES = 6


def jsonable(o):
    """Best-effort conversion of cases/observations to JSON (tensors -> lists, etc.)."""
    try:
        import numpy as np
        import torch
    except Exception:  # pragma: no cover
        np = torch = None
    if o is None or isinstance(o, (bool, int, str)):
        return o
    if isinstance(o, float):
        if o != o:
            return "NaN"
        if o in (float("inf"), float("-inf")):
            return "inf" if o > 0 else "-inf"
        return o
    if isinstance(o, dict):
        return {str(k): jsonable(v) for k, v in o.items()}
    if isinstance(o, (list, tuple, set, frozenset)):
        return [jsonable(v) for v in o]
    if torch is not None and isinstance(o, torch.Tensor):
        return jsonable(o.detach().cpu().tolist())
    if np is not None and isinstance(o, np.ndarray):
        return jsonable(o.tolist())
    if np is not None and isinstance(o, np.generic):
        return jsonable(o.item())
    return repr(o)[:300]


def h(*parts) -> str:
    return hashlib.md5(json.dumps(jsonable(parts), sort_keys=True).encode()).hexdigest()[:12]


class Ctx:
    """What a shard sees: seeded randomness, counters, the violation sink."""

    def __init__(self, prop: str, tier: str, seed: int, spec: dict):
        self.prop, self.tier, self.seed, self.spec = prop, tier, seed, spec
        self.counters: dict[str, int] = {}
        self.distinct_keys: set[str] = set()
        self.distinct_n = 0
        self.samples: list = []
        self.violations: list[dict] = []
        self.viol_counts: dict[str, int] = {}
        self.inconclusive: list[str] = []
        self.notes: dict = {}
        self.t0 = time.time()
        self.budget_s = float(spec.get("budget_s", 1e9))

    # ---- randomness -------------------------------------------------------------------
    def rng(self, *salt):
        import numpy as np

        s = int(hashlib.sha256(json.dumps([self.seed, self.spec.get("name"), salt], default=str).encode()).hexdigest()[:16], 16)
        return np.random.default_rng(s)

    def cases(self, n: int):
        """Indices of the cases this shard must run (honours replay's ``only`` and the time budget)."""
        only = self.spec.get("only")
        if only is not None:
            yield from only
            return
        for i in range(n):
            if time.time() - self.t0 > self.budget_s:
                self.count("cases_cut_by_budget", n - i)
                return
            yield i

    # ---- accounting -------------------------------------------------------------------
    def count(self, key: str, n: int = 1):
        self.counters[key] = self.counters.get(key, 0) + int(n)

    def evaluated(self, n: int = 1):
        self.count("evaluations", n)

    def distinct(self, *key):
        self.distinct_keys.add(h(*key))

    def distinct_add(self, n: int):
        """For shard-disjoint enumerations where keeping a set would be wasteful."""
        self.distinct_n += int(n)

    def sample(self, case, limit: int = 2):
        if len(self.samples) < limit:
            self.samples.append(jsonable(case))

    def note(self, key, value):
        self.notes[key] = jsonable(value)

    def violation(self, key: str, what: str, case=None, **obs):
        """Report a refutation. ``key`` = mechanism classifier (matched against known_findings.json)."""
        self.viol_counts[key] = self.viol_counts.get(key, 0) + 1
        if self.viol_counts[key] <= MAX_RECORDED_PER_KEY:
            self.violations.append(
                {"key": key, "what": what, "case": jsonable(case), "observed": jsonable(obs), "shard": self.spec}
            )

    def inconclusive_because(self, why: str):
        self.inconclusive.append(why)

    def result(self, error=None):
        return {
            "counters": self.counters,
            "distinct": sorted(self.distinct_keys),
            "distinct_n": self.distinct_n,
            "samples": self.samples,
            "violations": self.violations,
            "viol_counts": self.viol_counts,
            "inconclusive": self.inconclusive,
            "notes": self.notes,
            "error": error,
            "wall_s": time.time() - self.t0,
        }


def load_module(prop: str):
    return importlib.import_module(f"vf.checks.{prop.lower()}")


# --------------------------------------------------------------------------------------
def shard_main(prop: str, shard_file: str) -> int:
    job = json.loads(Path(shard_file).read_text())
    ctx = Ctx(prop, job["tier"], job["seed"], job["spec"])
    err = None
    try:
        bootstrap.activate()
        mod = load_module(prop)
        mod.run_shard(job["spec"], ctx)
    except BaseException:  # a crash of the harness is never a verdict on the property
        err = traceback.format_exc()
    Path(job["out"]).write_text(json.dumps(ctx.result(err)))
    return 0


def known_findings(prop: str):
    f = VERIF / "known_findings.json"
    if not f.exists():
        return []
    return [e for e in json.loads(f.read_text())["findings"] if e["property"] == prop]


def parent_main(prop: str, tier: str, seed: int, replay: str | None, jobs: int) -> int:
    t0 = time.time()
    bootstrap.ensure_deps()
    sys.path.insert(0, str(VERIF))
    mod = load_module_meta(prop)
    if replay:
        rp = json.loads(Path(replay).read_text())
        spec = dict(rp["shard"])
        if rp.get("case") is not None and isinstance(rp["case"], dict) and "index" in rp["case"]:
            spec["only"] = [rp["case"]["index"]]
        specs = [spec]
        tier, seed = rp.get("tier", tier), rp.get("seed", seed)
    else:
        specs = mod["shards"](tier, seed)
    work = Path(tempfile.mkdtemp(prefix=f"vf-{prop}-", dir=os.environ.get("VF_TMP") or None))
    env = bootstrap.env_for_shard()
    env["PYTHONPATH"] = str(VERIF)
    env["TMPDIR"] = str(work)
    results = []

    def run_one(i_spec):
        i, spec = i_spec
        jf, of = work / f"job{i}.json", work / f"out{i}.json"
        jf.write_text(json.dumps({"tier": tier, "seed": seed, "spec": spec, "out": str(of)}))
        timeout = spec.get("timeout", 1500 if tier == "quick" else 7200)
        try:
            p = subprocess.run(
                [sys.executable, "-m", "vf.runner", prop, "--shard-file", str(jf)],
                cwd=str(VERIF), env=env, timeout=timeout, capture_output=True, text=True,
            )
            if of.exists():
                r = json.loads(of.read_text())
            else:
                r = {"error": f"shard died rc={p.returncode}: {p.stderr[-2000:]}"}
        except subprocess.TimeoutExpired:
            r = {"error": None, "inconclusive": [f"watchdog fired after {timeout}s on shard {spec.get('name')}"]}
        r["spec"] = spec
        return r

    try:
        with cf.ThreadPoolExecutor(max_workers=jobs) as ex:
            results = list(ex.map(run_one, enumerate(specs)))
    finally:
        shutil.rmtree(work, ignore_errors=True)

    # ---- fold ------------------------------------------------------------------------
    counters: dict[str, int] = {}
    distinct: set[str] = set()
    distinct_n = 0
    samples, viols, inconc, notes = [], [], [], {}
    viol_counts: dict[str, int] = {}
    for r in results:
        for k, v in r.get("counters", {}).items():
            counters[k] = counters.get(k, 0) + v
        distinct.update(r.get("distinct", []))
        distinct_n += r.get("distinct_n", 0)
        for s in r.get("samples", []):
            if len(samples) < MAX_SAMPLES:
                samples.append(s)
        viols.extend(r.get("violations", []))
        for k, v in r.get("viol_counts", {}).items():
            viol_counts[k] = viol_counts.get(k, 0) + v
        inconc.extend(r.get("inconclusive", []))
        for k, v in r.get("notes", {}).items():
            notes.setdefault(k, v)
        if r.get("error"):
            inconc.append(f"harness error in shard {r['spec'].get('name')}: {r['error'][-1500:]}")

    # required counters (deciding monitors must have been reached)
    for cname, cmin in mod.get("required", {}).items():
        if not replay and counters.get(cname, 0) < cmin:
            inconc.append(f"deciding monitor '{cname}' reached {counters.get(cname, 0)} < {cmin} times")

    known = {e["key"]: e for e in known_findings(prop) if e.get("status") == "known"}
    new_viols = [v for v in viols if v["key"] not in known]
    for key, e in known.items():
        print(f"KNOWN-FINDING: property={prop} {key}: {e['what']} (observed {viol_counts.get(key, 0)}x in this run)")

    n_distinct = len(distinct) + distinct_n
    evidence = {
        "property_id": prop,
        "tier": tier,
        "seed": seed,
        "level": mod.get("level", "exploration"),
        "coverage": {
            "evaluations": counters.get("evaluations", 0),
            "distinct_nontrivial": n_distinct,
            "rule": mod["rule"] + " | input classes, call sequences and options added after the independent seeding rounds (DESIGN §11) are not all "
                    "spelled out in this sentence: each of them has its own named counter under `counters`",
            "samples": samples,
            "counters": counters,
            "shards": len(specs),
            "known_findings_observed": {k: viol_counts.get(k, 0) for k in known},
            "notes": notes,
            **({"exhaustive": True} if mod.get("exhaustive", {}).get(tier) else {}),
        },
        "assumptions": mod.get("assumptions", []),
        "wall_s": round(time.time() - t0, 2),
        "violations": sum(v for k, v in viol_counts.items() if k not in known),
        "verdict": "violated" if new_viols else ("inconclusive" if inconc else "held-on-observed"),
        "inconclusive_reasons": inconc[:10],
    }
    if not replay:
        # VF_EVIDENCE_DIR: exploratory sweeps (other seeds) keep the committed evidence of the registered command untouched
        edir = Path(os.environ.get("VF_EVIDENCE_DIR") or (VERIF / "evidence"))
        edir.mkdir(parents=True, exist_ok=True)
        (edir / f"{prop}.json").write_text(json.dumps(evidence, indent=1))

    if new_viols:
        rdir = Path(os.environ.get("VF_REPLAY_DIR") or (VERIF / "replay")) / prop
        rdir.mkdir(parents=True, exist_ok=True)
        seen = set()
        for v in new_viols:
            if v["key"] in seen:
                continue
            seen.add(v["key"])
            v = dict(v, tier=tier, seed=seed, property=prop)
            path = rdir / f"{h(v['key'], v['case'])}.json"
            path.write_text(json.dumps(v, indent=1))
            print(f"  what: {v['what']}")
            print(f"VIOLATION property={prop} replay={path}")
        return 1
    if inconc:
        for w in inconc[:10]:
            print(f"INCONCLUSIVE property={prop}: {w}")
        return 2
    print(
        f"HELD-ON-OBSERVED property={prop} tier={tier} seed={seed} evaluations={evidence['coverage']['evaluations']} "
        f"distinct_nontrivial={n_distinct} wall={evidence['wall_s']}s"
    )
    return 0


def load_module_meta(prop: str) -> dict:
    """Import only the light metadata of a check (no torch import in the parent)."""
    mod = load_module(prop)
    return {
        "shards": mod.shards,
        "rule": mod.RULE,
        "level": getattr(mod, "LEVEL", "exploration"),
        "assumptions": getattr(mod, "ASSUMPTIONS", []),
        "required": getattr(mod, "REQUIRED", {}),
        "exhaustive": getattr(mod, "EXHAUSTIVE", {}),
    }


def main(argv=None) -> int:
    ap = argparse.ArgumentParser()
    ap.add_argument("prop")
    ap.add_argument("--tier", default=os.environ.get("VERIF_TIER", "quick"), choices=["quick", "thorough"])
    ap.add_argument("--seed", type=int, default=int(os.environ.get("VERIF_SEED", "0")))
    ap.add_argument("--replay")
    ap.add_argument("--shard-file")
    ap.add_argument("--jobs", type=int, default=int(os.environ.get("VF_JOBS", "16")))
    a = ap.parse_args(argv)
    prop = a.prop.upper()
    if a.shard_file:
        return shard_main(prop, a.shard_file)
    return parent_main(prop, a.tier, a.seed, a.replay, a.jobs)


if __name__ == "__main__":
    sys.exit(main())
