"""C14 workload: seeded generators of *valid* tables (python structure understood by vf.refmodel.canon14) for the four
layouts, the DataFrame builder (dtype / index-form / column-order variants), row permutations and one-at-a-time
malformations.  Nothing here is an oracle: it only produces inputs for the real readers.
"""
from __future__ import annotations

import numpy as np
import pandas as pd

LAYOUTS = ("visit", "joint", "covariate", "event")
ID_STYLES = ("str", "wild", "numstr", "int", "Int64", "string", "cat_str", "cat_int")
ROW_ORDERS = ("grouped_sorted", "grouped_unsorted", "shuffled", "interleaved", "reversed")
MISSING = ("none", "mcar", "visit", "feature_subject", "all_but_one", "subject", "column")
WILD = "abXYZ_ -.é0123/"


# --------------------------------------------------------------------------------------------------------------
def _gen_ids(rng, n, style):
    if style in ("str", "string", "cat_str"):
        return [f"S{int(k):03d}" for k in rng.choice(600, n, replace=False)]
    if style == "wild":
        out = set()
        while len(out) < n:
            s = "".join(WILD[int(j)] for j in rng.integers(0, len(WILD), int(rng.integers(1, 7))))
            if s:
                out.add(s)
        out = sorted(out)
        rng.shuffle(out)
        return list(out)
    if style == "numstr":
        ks = rng.choice(3000, n, replace=False)
        return [(f"{int(k):04d}" if rng.random() < 0.4 else str(int(k))) for k in ks]
    # integers (plain / nullable / categorical)
    if rng.random() < 0.8:
        ks = rng.choice(60, n, replace=False)
    else:
        ks = rng.choice(2 ** 40, n, replace=False)
    return [int(k) for k in ks]


def _gen_ages(rng, layout):
    nv = int(rng.integers(1, 9))
    if layout in ("visit", "covariate") and rng.random() < 0.05:
        base = -float(rng.uniform(0, 50))
    else:
        base = float(rng.choice([0.0, 2.0, 40.0, 65.0, 90.0])) + float(rng.uniform(0.01, 10))
    mode = str(rng.choice(["raw", "r3", "r6", "int"], p=[0.4, 0.3, 0.15, 0.15]))
    if mode == "int":
        ages = (int(base) + 1 + np.cumsum(rng.integers(1, 4, nv))).astype(float)
        return [float(a) for a in ages], mode
    gaps = np.where(rng.random(nv) < 0.15, 0.0012, np.where(rng.random(nv) < 0.18, rng.uniform(0.0012, 0.01, nv), rng.uniform(0.1, 3.0, nv)))
    ages = base + np.cumsum(gaps)
    if mode == "r3":
        ages = np.round(ages, 3)
    elif mode == "r6":
        ages = np.round(ages, 6)
    return [float(a) for a in ages], mode


def _gen_feature(rng, n_rows):
    kind = str(rng.choice(["unit", "normal", "int", "binary", "extreme"], p=[0.4, 0.25, 0.15, 0.1, 0.1]))
    if kind == "unit":
        v = rng.uniform(0, 1, n_rows)
    elif kind == "normal":
        v = np.clip(rng.normal(0, float(rng.choice([1.0, 100.0, 1e4])), n_rows), -1e6, 1e6)
    elif kind == "int":
        v = rng.integers(-5, 30, n_rows)
    elif kind == "binary":
        v = rng.integers(0, 2, n_rows)
    else:
        v = rng.choice(np.array([0.0, -0.0, 1e6, -1e6, 1e-30, 1.0 / 3.0, 0.1 + 0.2, 123456.789]), n_rows)
    if kind in ("int", "binary"):
        dtype = str(rng.choice(["float64", "int64", "Int64", "float32"] + (["bool"] if kind == "binary" else [])))
        vals = [int(x) for x in v]
    else:
        dtype = str(rng.choice(["float64", "float32", "Float64"], p=[0.6, 0.25, 0.15]))
        vals = [float(x) for x in v]
    if dtype == "float32":
        vals = [float(np.float32(x)) for x in vals]
    return vals, dtype, kind


def gen_valid(rng, layout, simple=False):
    """A random table that is valid by the documentation, inside the judged domain (ages >= 1e-3 apart, |values| <= 1e6)."""
    t = {"layout": layout, "features": [], "covs": [], "drop_full_nan": True, "rows": []}
    n_ind = int(rng.integers(2 if layout == "covariate" else 1, 13))
    style = str(rng.choice(ID_STYLES[:4] if simple else ID_STYLES))
    ids = _gen_ids(rng, n_ind, style)
    t["id_style"] = style
    t["cat_extra"] = int(rng.integers(1, 3)) if (style.startswith("cat") and rng.random() < 0.25) else 0
    t["ev_names"] = ["EVENT_TIME", "EVENT_BOOL"]
    t["ev_swapped"] = False

    if layout == "event":
        competing = rng.random() < 0.3
        must = int(rng.integers(n_ind))
        for j, i in enumerate(ids):
            flag = int(rng.integers(0, 3 if competing else 2))
            if j == must and flag == 0:
                flag = 1
            et = float(rng.uniform(0.5, 100))
            if rng.random() < 0.4:
                et = round(et, 3)
            t["rows"].append({"id": i, "ev_time": et, "ev_flag": flag})
        rng.shuffle(t["rows"])
        t["form"] = "columns" if simple else str(rng.choice(["columns", "id_index", "labels"]))
        t["ev_dtypes"] = ["float64", str(rng.choice(["int64", "float64"]))]
        t["ev_swapped"] = (not simple) and rng.random() < 0.06
        if not simple and rng.random() < 0.15:
            t["ev_names"] = ["T_EVT", "EVT"]
        t["row_order"] = "shuffled"
        return t

    n_feat = int(rng.integers(1, 6))
    names = [f"Y{k}" for k in range(n_feat)] if rng.random() < 0.7 else [["ADAS 11", "x-y", "mmse", "Z_3", "é"][k] for k in range(n_feat)]
    t["features"] = names
    per_subject = []
    time_modes = set()
    for i in ids:
        ages, mode = _gen_ages(rng, layout)
        time_modes.add(mode)
        order = np.arange(len(ages))
        per_subject.append((i, ages, order))
    n_rows = sum(len(a) for _, a, _ in per_subject)
    feats = [_gen_feature(rng, n_rows) for _ in range(n_feat)]
    t["feat_dtypes"] = [f[1] for f in feats]
    t["time_dtype"] = "int64" if time_modes == {"int"} and rng.random() < 0.6 else ("float32" if rng.random() < 0.1 else "float64")

    # rows grouped by subject, ages ascending
    rows = []
    r = 0
    for i, ages, _ in per_subject:
        for a in ages:
            if t["time_dtype"] == "float32":
                a = float(np.float32(a))
            rows.append({"id": i, "time": a, "vals": [feats[k][0][r] for k in range(n_feat)]})
            r += 1
    if t["time_dtype"] == "float32":  # the float32 cast must not bring two visits closer than the stated bound
        for i in ids:
            a = sorted(round(x["time"], 6) for x in rows if x["id"] == i)
            if any(b - c < 1.05e-3 for b, c in zip(a[1:], a[:-1])):
                t["time_dtype"] = "float64"
                r = 0
                for _, ages, _ in per_subject:
                    for a_ in ages:
                        rows[r]["time"] = a_
                        r += 1
                break

    # missing-data pattern
    pat = str(rng.choice(MISSING, p=[0.2, 0.3, 0.15, 0.1, 0.07, 0.1, 0.08]))
    t["missing"] = pat
    miss = np.zeros((n_rows, n_feat), dtype=bool)
    if pat == "mcar":
        miss = rng.random((n_rows, n_feat)) < float(rng.choice([0.1, 0.3, 0.6]))
    elif pat == "visit":
        miss = rng.random((n_rows, n_feat)) < 0.1
        miss[rng.random(n_rows) < 0.3, :] = True
    elif pat == "feature_subject":
        s = ids[int(rng.integers(n_ind))]
        k = int(rng.integers(n_feat))
        for j, row in enumerate(rows):
            if row["id"] == s:
                miss[j, k] = True
    elif pat == "all_but_one":
        miss[:] = True
    elif pat == "subject":
        s = ids[int(rng.integers(n_ind))]
        for j, row in enumerate(rows):
            if row["id"] == s:
                miss[j, :] = True
        miss |= rng.random((n_rows, n_feat)) < 0.1
    elif pat == "column" and n_feat >= 2:
        miss[:, int(rng.integers(n_feat))] = True
    if miss.all():
        miss[int(rng.integers(n_rows)), int(rng.integers(n_feat))] = False
    for j, row in enumerate(rows):
        row["vals"] = [None if miss[j, k] else row["vals"][k] for k in range(n_feat)]
    # dtype fall-backs: plain int / bool columns cannot hold missing cells
    for k in range(n_feat):
        if miss[:, k].any() and t["feat_dtypes"][k] in ("int64", "bool"):
            t["feat_dtypes"][k] = "Int64"
        if t["feat_dtypes"][k] == "bool":
            for row in rows:
                row["vals"][k] = bool(row["vals"][k])

    if layout == "joint":
        competing = rng.random() < 0.3
        must = ids[int(rng.integers(n_ind))]
        ev = {}
        for i in ids:
            last = max(x["time"] for x in rows if x["id"] == i)
            flag = int(rng.integers(0, 3 if competing else 2))
            if i == must and flag == 0:
                flag = 1
            u = rng.random()
            if u < 0.15:
                et = last
            elif flag == 0 and u < 0.22 and last > 1.0:
                et = last - float(rng.uniform(0.01, 0.9))  # censored before the last visit: accepted with a warning
            else:
                et = last + float(rng.uniform(0.001, 5.0))
                if rng.random() < 0.4:
                    et = max(round(et, 3), last)
            ev[i] = (float(et), flag)
        for row in rows:
            row["ev_time"], row["ev_flag"] = ev[row["id"]]
        t["ev_dtypes"] = ["float64", str(rng.choice(["int64", "float64"]))]
        t["ev_swapped"] = (not simple) and rng.random() < 0.06
        if not simple and rng.random() < 0.15:
            t["ev_names"] = ["T_EVT", "EVT"]
    if layout == "covariate":
        n_cov = int(rng.integers(1, 3))
        t["covs"] = ["SEX", "GENO"][:n_cov]
        cv = {}
        for c in range(n_cov):
            while True:
                vals = rng.integers(0, 4, n_ind)
                if len(set(vals.tolist())) >= 2:
                    break
            for i, v in zip(ids, vals):
                cv.setdefault(i, []).append(int(v))
        for row in rows:
            row["covs"] = list(cv[row["id"]])
        t["cov_dtype"] = str(rng.choice(["int64", "float64"]))
        if pat == "subject":
            # a subject whose rows are all-NaN still carries covariates => its rows are NOT full of NaN: keep at least... (valid as is)
            pass

    order = "grouped_sorted" if simple and rng.random() < 0.3 else str(rng.choice(ROW_ORDERS, p=[0.1, 0.2, 0.35, 0.25, 0.1]))
    t["row_order"] = order
    t["rows"] = reorder(rows, order, rng)
    t["form"] = "columns" if simple else str(rng.choice(["columns", "index", "index_rev", "id_index", "labels"], p=[0.45, 0.25, 0.1, 0.1, 0.1]))
    t["col_shuffle"] = (not simple) and rng.random() < 0.3
    if layout == "visit" and not simple and rng.random() < 0.12:
        t["drop_full_nan"] = False
    return t


def reorder(rows, how, rng):
    rows = list(rows)
    if how == "grouped_sorted":
        return rows
    ids = list(dict.fromkeys(r["id"] for r in rows))
    groups = {i: [r for r in rows if r["id"] == i] for i in ids}
    if how == "grouped_unsorted":
        rng.shuffle(ids)
        out = []
        for i in ids:
            g = groups[i]
            rng.shuffle(g)
            out += g
        return out
    if how == "shuffled":
        rng.shuffle(rows)
        return rows
    if how == "reversed":
        return rows[::-1]
    if how == "interleaved":
        rng.shuffle(ids)
        for i in ids:
            if rng.random() < 0.5:
                rng.shuffle(groups[i])
        out, k = [], 0
        while any(groups.values()):
            for i in ids:
                if groups[i]:
                    out.append(groups[i].pop(0))
            k += 1
        return out
    raise ValueError(how)


def permuted(table, how, rng):
    t = dict(table)
    t["rows"] = reorder(table["rows"], how, rng)
    t["row_order"] = f"twin:{how}"
    return t


# --------------------------------------------------------------------------------------------------------------
def _id_column(table, ids):
    style = table.get("id_style", "str")
    if style in ("str", "wild", "numstr"):
        return pd.Series(ids, dtype=object)
    if style == "string":
        return pd.Series(ids, dtype="string")
    if style == "int":
        return pd.Series(ids, dtype="int64")
    if style == "Int64":
        return pd.Series(ids, dtype="Int64")
    cats = list(dict.fromkeys(ids))
    r = np.random.default_rng(len(ids) * 7919 + len(cats))
    r.shuffle(cats)
    if style == "cat_str":
        cats += [f"unused{k}" for k in range(table.get("cat_extra", 0))]
    else:
        cats += [10 ** 6 + k for k in range(table.get("cat_extra", 0))]
    return pd.Series(pd.Categorical(ids, categories=cats))


def build_frame(table):
    """(DataFrame, call) where call = how the table is handed to Data.from_dataframe."""
    layout, rows = table["layout"], table["rows"]
    tn, bn = table.get("ev_names", ["EVENT_TIME", "EVENT_BOOL"])
    cols = {"ID": _id_column(table, [r["id"] for r in rows])}
    if layout != "event":
        tdt = table.get("time_dtype", "float64")
        cols["TIME"] = pd.Series([r["time"] for r in rows], dtype=tdt)
        for k, f in enumerate(table["features"]):
            dt = table.get("feat_dtypes", ["float64"] * len(table["features"]))[k]
            raw = [r["vals"][k] for r in rows]
            if dt in ("Int64", "Float64"):
                cols[f] = pd.Series(pd.array([pd.NA if v is None else v for v in raw], dtype=dt))
            elif dt in ("int64", "bool"):
                cols[f] = pd.Series(raw, dtype=dt)
            else:
                cols[f] = pd.Series([np.nan if v is None else float(v) for v in raw], dtype=dt)
    if layout in ("event", "joint"):
        edt = table.get("ev_dtypes", ["float64", "int64"])
        cols[tn] = pd.Series([r["ev_time"] for r in rows], dtype=edt[0])
        cols[bn] = pd.Series([r["ev_flag"] for r in rows], dtype=edt[1])
    if layout == "covariate":
        for c, name in enumerate(table["covs"]):
            cols[name] = pd.Series([r["covs"][c] for r in rows], dtype=table.get("cov_dtype", "int64"))
    df = pd.DataFrame(cols)

    names = list(df.columns)
    if table.get("col_shuffle"):
        r = np.random.default_rng(len(rows) * 31 + len(names))
        feats_and_idx = [c for c in names if c not in (tn, bn) and c not in table["covs"]]
        r.shuffle(feats_and_idx)
        # features keep their relative order (it defines `headers`); ID / TIME / event / covariate columns move around
        keep = [c for c in names if c in table["features"]]
        it = iter(keep)
        feats_and_idx = [next(it) if c in table["features"] else c for c in feats_and_idx]
        rest = [c for c in names if c in (tn, bn) or c in table["covs"]]
        pos = int(r.integers(0, len(feats_and_idx) + 1))
        names = feats_and_idx[:pos] + rest + feats_and_idx[pos:]
    if table.get("ev_swapped") and layout in ("event", "joint"):
        a, b = names.index(tn), names.index(bn)
        names[a], names[b] = names[b], names[a]
    df = df[names]

    form = table.get("form", "columns")
    if form == "index" and layout != "event":
        df = df.set_index(["ID", "TIME"])
    elif form == "index_rev" and layout != "event":
        df = df.set_index(["TIME", "ID"])
    elif form == "id_index":
        df = df.set_index("ID")
    elif form == "labels":
        r = np.random.default_rng(len(rows) + 5)
        df.index = pd.Index(r.permutation(len(df)) * 3 + 1, name="row")

    factory_kws = {}
    if layout in ("event", "joint") and [tn, bn] != ["EVENT_TIME", "EVENT_BOOL"]:
        factory_kws = {"event_time_name": tn, "event_bool_name": bn}
    if layout == "covariate":
        factory_kws = {"covariate_names": list(table["covs"])}
    kws = {}
    if not table.get("drop_full_nan", True):
        kws["drop_full_nan"] = False
    return df, {"data_type": layout, "factory_kws": factory_kws, "kws": kws}


def summary(table):
    ids = list(dict.fromkeys(r["id"] for r in table["rows"]))
    return {k: table.get(k) for k in ("layout", "id_style", "cat_extra", "form", "row_order", "missing", "feat_dtypes", "time_dtype",
                                     "ev_swapped", "ev_names", "covs", "drop_full_nan", "col_shuffle")} | {
        "n_rows": len(table["rows"]), "n_ids": len(ids), "first_ids": ids[:6], "features": table["features"]}


# --------------------------------------------------------------------------------------------------------------
# malformations: each takes the column-form frame of a *valid, accepted* simple table and returns a malformed frame
# (or None when not applicable to this table).  One malformation at a time.
def _insert(df, new, rng):
    k = int(rng.integers(0, len(df) + 1))
    return pd.concat([df.iloc[:k], new, df.iloc[k:]], ignore_index=True)


def _obj_ids(df):
    return df["ID"].astype(object)


def _feat(table, rng):
    return table["features"][int(rng.integers(len(table["features"])))]


def _subject_rows(df, rng, min_rows=1):
    counts = df["ID"].value_counts()
    ok = counts[counts >= min_rows].index.tolist()
    if not ok:
        return None, None
    s = ok[int(rng.integers(len(ok)))]
    return s, np.flatnonzero((df["ID"] == s).to_numpy())


def m_dup_visit_exact(df, t, rng):
    new = df.iloc[[int(rng.integers(len(df)))]].copy()
    if rng.random() < 0.5:
        f = _feat(t, rng)
        df = df.astype({f: "float64"})
        new = new.astype({f: "float64"})
        new[f] = float(rng.uniform(0, 1))
    return _insert(df, new, rng)


def m_dup_visit_rounding(df, t, rng):
    df = df.astype({"TIME": "float64"})
    r = int(rng.integers(len(df)))
    t0 = round(float(df["TIME"].iloc[r]), 3)
    same = df[(df["ID"] == df["ID"].iloc[r])]
    others = same["TIME"].drop(same.index[same.index == df.index[r]])
    if ((others - t0).abs() < 1e-4).any():
        return None
    df.iloc[r, df.columns.get_loc("TIME")] = t0
    new = df.iloc[[r]].copy()
    new["TIME"] = t0 + float(rng.choice([1e-7, -1e-7, 4e-7, -4e-7, 1e-9]))
    return _insert(df, new, rng)


def _set_time(df, rng, v):
    df = df.astype({"TIME": "float64"})
    df.iloc[int(rng.integers(len(df))), df.columns.get_loc("TIME")] = v
    return df


def _set_value(df, t, rng, v):
    f = _feat(t, rng)
    df = df.astype({f: "float64"})
    df.iloc[int(rng.integers(len(df))), df.columns.get_loc(f)] = v
    return df


def m_value_str_column(df, t, rng):
    f = _feat(t, rng)
    return df.assign(**{f: df[f].astype("float64").map(lambda x: f"{x:.3f}")})


def m_value_str_cell(df, t, rng):
    f = _feat(t, rng)
    col = df[f].astype("float64").astype(object)
    col.iloc[int(rng.integers(len(df)))] = str(rng.choice(["x", "", "1,5", "n/a"]))
    return df.assign(**{f: col})


def m_value_complex(df, t, rng):
    f = _feat(t, rng)
    return df.assign(**{f: df[f].astype("float64").fillna(0.0).astype(complex)})


def _ids_as(df, kind):
    """Re-code identifiers as consecutive ints or simple strings (keeps first-appearance structure)."""
    codes = {i: k for k, i in enumerate(dict.fromkeys(df["ID"].tolist()))}
    if kind == "int":
        return df.assign(ID=df["ID"].map(codes).astype("int64")), codes
    return df.assign(ID=pd.Series([f"P{codes[i]:02d}" for i in df["ID"]], index=df.index, dtype=object)), codes


def m_id_nan_str(df, t, rng):
    df, _ = _ids_as(df, "str")
    col = df["ID"].copy()
    col.iloc[int(rng.integers(len(df)))] = np.nan
    return df.assign(ID=col)


def m_id_none_str(df, t, rng):
    df, _ = _ids_as(df, "str")
    col = df["ID"].copy()
    col.iloc[int(rng.integers(len(df)))] = None
    return df.assign(ID=col)


def m_id_na_string_dtype(df, t, rng):
    df, _ = _ids_as(df, "str")
    col = df["ID"].astype("string")
    col.iloc[int(rng.integers(len(df)))] = pd.NA
    return df.assign(ID=col)


def m_id_na_Int64(df, t, rng):
    df, _ = _ids_as(df, "int")
    col = df["ID"].astype("Int64")
    col.iloc[int(rng.integers(len(df)))] = pd.NA
    return df.assign(ID=col)


def m_id_nan_among_ints(df, t, rng):
    df, _ = _ids_as(df, "int")
    col = df["ID"].astype("float64")
    col.iloc[int(rng.integers(len(df)))] = np.nan
    return df.assign(ID=col)


def m_id_float(df, t, rng):
    df, _ = _ids_as(df, "int")
    return df.assign(ID=df["ID"].astype("float64") + (0.5 if rng.random() < 0.5 else 0.0))


def m_id_negative_int(df, t, rng):
    df, _ = _ids_as(df, "int")
    s, idx = _subject_rows(df, rng)
    col = df["ID"].copy()
    if rng.random() < 0.5:
        idx = idx[:1]
    col.iloc[idx] = -int(s) - 1
    return df.assign(ID=col)


def m_id_empty_string(df, t, rng):
    df, _ = _ids_as(df, "str")
    s, idx = _subject_rows(df, rng)
    col = df["ID"].copy()
    if rng.random() < 0.5:
        idx = idx[:1]
    col.iloc[idx] = ""
    return df.assign(ID=col)


def m_id_mixed(df, t, rng):
    df, codes = _ids_as(df, "str")
    if len(codes) < 2:
        return None
    s, idx = _subject_rows(df, rng)
    col = df["ID"].copy()
    col.iloc[idx] = 10_000 + int(rng.integers(100))
    return df.assign(ID=col)


def m_id_bool(df, t, rng):
    df, codes = _ids_as(df, "int")
    if len(codes) > 2:
        return None
    return df.assign(ID=df["ID"].astype(bool))


def m_no_feature(df, t, rng):
    return df.drop(columns=t["features"])


def m_no_rows(df, t, rng):
    return df.iloc[[]]


def m_all_features_nan(df, t, rng):
    return df.assign(**{f: np.nan for f in t["features"]})


def _ev_cols(t):
    return t["ev_names"]


def _ev_set(df, t, rng, col, v, whole_subject=True, min_rows=1):
    s, idx = _subject_rows(df, rng, min_rows)
    if s is None:
        return None
    df = df.astype({col: "float64"})
    if not whole_subject:
        idx = idx[[int(rng.integers(len(idx)))]]
    df.iloc[idx, df.columns.get_loc(col)] = v
    return df


def m_ev_two_times(df, t, rng):
    tn, _ = _ev_cols(t)
    if t["layout"] == "event":
        new = df.iloc[[int(rng.integers(len(df)))]].copy()
        new[tn] = new[tn] + float(rng.uniform(0.01, 3))
        return _insert(df, new, rng)
    s, idx = _subject_rows(df, rng, 2)
    if s is None:
        return None
    df = df.astype({tn: "float64"})
    j = idx[int(rng.integers(len(idx)))]
    df.iloc[j, df.columns.get_loc(tn)] += float(rng.uniform(0.01, 3))
    return df


def m_ev_two_flags(df, t, rng):
    _, bn = _ev_cols(t)
    if t["layout"] == "event":
        new = df.iloc[[int(rng.integers(len(df)))]].copy()
        new[bn] = 1 - (new[bn] > 0).astype(int)
        return _insert(df, new, rng)
    s, idx = _subject_rows(df, rng, 2)
    if s is None:
        return None
    j = idx[int(rng.integers(len(idx)))]
    old = int(df[bn].iloc[j])
    df = df.copy()
    df.iloc[j, df.columns.get_loc(bn)] = 0 if old else 1
    return df


def m_ev_observed_before_last_visit(df, t, rng):
    tn, bn = _ev_cols(t)
    obs = df[df[bn] > 0]
    last = obs.groupby("ID", observed=True)["TIME"].max()
    last = last[last > 0.05]
    if not len(last):
        return None
    s = last.index[int(rng.integers(len(last)))]
    new_t = float(last[s]) - float(rng.uniform(0.01, min(5.0, 0.5 * float(last[s]))))
    df = df.astype({tn: "float64"})
    df.loc[df["ID"] == s, tn] = new_t
    return df


def _cov_set(df, t, rng, v, whole_subject, min_rows=1, add=False):
    c = t["covs"][int(rng.integers(len(t["covs"])))]
    s, idx = _subject_rows(df, rng, min_rows)
    if s is None:
        return None
    df = df.astype({c: "float64"})
    if not whole_subject:
        idx = idx[[int(rng.integers(len(idx)))]]
    col = df.columns.get_loc(c)
    df.iloc[idx, col] = (df.iloc[idx, col] + v) if add else v
    return df


def m_cov_nan(df, t, rng):
    """NaN covariate on a row that is *kept* by the reader: a row whose features are all NaN and whose only covariate is NaN
    is 'full of nans' and is dropped by contract (drop_full_nan), which leaves a valid table."""
    c = t["covs"][int(rng.integers(len(t["covs"])))]
    kept = df[t["features"]].notna().any(axis=1).to_numpy() | (len(t["covs"]) >= 2)
    rows = np.flatnonzero(kept)
    if not len(rows):
        return None
    r = int(rows[int(rng.integers(len(rows)))])
    df = df.astype({c: "float64"})
    col = df.columns.get_loc(c)
    if rng.random() < 0.5:  # the whole subject
        df.iloc[np.flatnonzero((df["ID"] == df["ID"].iloc[r]).to_numpy()), col] = np.nan
    else:
        df.iloc[r, col] = np.nan
    return df


def _set_time_nullable(df, rng):
    """A missing age in a TIME column of pandas' nullable dtype (what ``DataFrame.convert_dtypes`` produces)."""
    out = _set_time(df, rng, np.nan)
    if out is None:
        return None
    if "TIME" in out.columns:
        out = out.assign(TIME=out["TIME"].astype("Float64"))
    else:
        return None
    return out


VISIT_FAMILY = {
    "dup_visit_exact": m_dup_visit_exact,
    "dup_visit_rounding": m_dup_visit_rounding,
    "age_nan": lambda df, t, rng: _set_time(df, rng, np.nan),
    "age_posinf": lambda df, t, rng: _set_time(df, rng, np.inf),
    "age_neginf": lambda df, t, rng: _set_time(df, rng, -np.inf),
    "age_na_nullable_dtype": lambda df, t, rng: _set_time_nullable(df, rng),
    "value_str_column": m_value_str_column,
    "value_str_cell": m_value_str_cell,
    "value_complex": m_value_complex,
    "value_posinf": lambda df, t, rng: _set_value(df, t, rng, np.inf),
    "value_neginf": lambda df, t, rng: _set_value(df, t, rng, -np.inf),
    "no_feature": m_no_feature,
}
ID_FAMILY = {
    "id_nan_str": m_id_nan_str,
    "id_none_str": m_id_none_str,
    "id_na_string_dtype": m_id_na_string_dtype,
    "id_na_Int64": m_id_na_Int64,
    "id_nan_among_ints": m_id_nan_among_ints,
    "id_float": m_id_float,
    "id_negative_int": m_id_negative_int,
    "id_empty_string": m_id_empty_string,
    "id_mixed": m_id_mixed,
    "id_bool": m_id_bool,
    "no_rows": m_no_rows,
}
EVENT_FAMILY = {
    "ev_time_zero": lambda df, t, rng: _ev_set(df, t, rng, t["ev_names"][0], 0.0),
    "ev_time_negative": lambda df, t, rng: _ev_set(df, t, rng, t["ev_names"][0], -float(rng.uniform(0.001, 50))),
    "ev_time_nan_subject": lambda df, t, rng: _ev_set(df, t, rng, t["ev_names"][0], np.nan),
    "ev_time_nan_row": lambda df, t, rng: _ev_set(df, t, rng, t["ev_names"][0], np.nan, whole_subject=False),
    "ev_time_posinf": lambda df, t, rng: _ev_set(df, t, rng, t["ev_names"][0], np.inf),
    "ev_flag_fraction": lambda df, t, rng: _ev_set(df, t, rng, t["ev_names"][1], float(rng.choice([0.5, 1.5, 0.001]))),
    "ev_flag_nan": lambda df, t, rng: _ev_set(df, t, rng, t["ev_names"][1], np.nan, whole_subject=bool(rng.random() < 0.5)),
    "ev_two_times": m_ev_two_times,
    "ev_two_flags": m_ev_two_flags,
}
JOINT_ONLY = {"ev_observed_before_last_visit": m_ev_observed_before_last_visit}
COV_FAMILY = {
    "cov_nan": lambda df, t, rng: m_cov_nan(df, t, rng),
    "cov_fraction": lambda df, t, rng: _cov_set(df, t, rng, 0.5, whole_subject=True, add=True),
    "cov_varying": lambda df, t, rng: _cov_set(df, t, rng, 1.0, whole_subject=False, min_rows=2, add=True),
    "cov_posinf": lambda df, t, rng: _cov_set(df, t, rng, np.inf, whole_subject=True),
}


# classes the statement does not clearly promise to reject: run for information only (counted, never judged)
def _i_ev_flag_negative(df, t, rng):
    return _ev_set(df, t, rng, t["ev_names"][1], -float(rng.integers(1, 3)))


def _i_ev_all_censored(df, t, rng):
    return df.assign(**{t["ev_names"][1]: 0})


def _i_cov_constant(df, t, rng):
    return df.assign(**{t["covs"][0]: 1})


def _i_cov_negative(df, t, rng):
    return _cov_set(df, t, rng, -2.0, whole_subject=True)


def _i_time_str(df, t, rng):
    return df.assign(TIME=df["TIME"].astype(str))


def _i_value_object_numeric(df, t, rng):
    f = _feat(t, rng)
    return df.assign(**{f: df[f].astype("float64").astype(object)})


def _i_dup_feature_name(df, t, rng):
    f = _feat(t, rng)
    return pd.concat([df, df[[f]]], axis=1)


INFO = {
    "visit": {"time_str": _i_time_str, "value_object_numeric": _i_value_object_numeric, "dup_feature_name": _i_dup_feature_name,
              "id_col_missing": lambda df, t, rng: df.drop(columns="ID"), "time_col_missing": lambda df, t, rng: df.drop(columns="TIME"),
              "not_a_dataframe": lambda df, t, rng: df.to_dict("list")},
    "joint": {"ev_flag_negative": _i_ev_flag_negative, "ev_all_censored": _i_ev_all_censored,
              "ev_cols_missing": lambda df, t, rng: df.drop(columns=t["ev_names"]),
              "all_features_nan": m_all_features_nan},
    "event": {"ev_flag_negative": _i_ev_flag_negative, "ev_all_censored": _i_ev_all_censored,
              "dup_row_identical": lambda df, t, rng: _insert(df, df.iloc[[int(rng.integers(len(df)))]].copy(), rng),
              "extra_column": lambda df, t, rng: df.assign(EXTRA=1.0)},
    "covariate": {"cov_constant": _i_cov_constant, "cov_negative": _i_cov_negative,
                  "cov_col_missing": lambda df, t, rng: df.drop(columns=t["covs"][:1]),
                  "all_features_nan": m_all_features_nan},
}


def judged_classes(layout):
    if layout == "visit":
        return {**VISIT_FAMILY, **ID_FAMILY, "all_features_nan": m_all_features_nan}
    if layout == "joint":
        return {**VISIT_FAMILY, **ID_FAMILY, **EVENT_FAMILY, **JOINT_ONLY}
    if layout == "covariate":
        return {**VISIT_FAMILY, **ID_FAMILY, **COV_FAMILY}
    return {**ID_FAMILY, **EVENT_FAMILY}
