"""C08 — icontract postconditions on leaspy's real density methods (installed from the harness, no repo edit).

``install()`` decorates, in place, the functions behind

* ``NormalFamily._nll`` / ``_nll_and_jacobian`` / ``_nll_jacobian``
* ``StatelessDistributionFamilyFromTorchDistribution._nll``   (the Bernoulli path; other torch families: counted, not judged)
* ``AbstractWeibullRightCensoredFamily._nll`` / ``compute_log_survival`` / ``compute_log_likelihood_hazard``
* ``WeibullRightCensoredFamily._extract_reparametrized_nu`` and the with-sources variant

with ``icontract.ensure(<named condition>)``.  Every condition recomputes the textbook value with
``vf.refmodel.dens08`` (numpy float64) from the call's own arguments and compares entry by entry.
A broken postcondition raises ``DensityPostBroken`` (carrying a mechanism key) out of the real call.

Reachability: the public entry points (``Family.nll``, ``Family.regularization``, the ``NamedInputFunction``
built by ``SymbolicDistribution.get_func_nll``) hold a *bound classmethod* of ``nll`` / ``regularization`` which
looks ``cls._nll`` up at call time — so re-assigning ``_nll`` on the class is reached.  This is not taken on
faith: ``STATS`` counts every condition evaluation and the check turns "0 evaluations" into *inconclusive*.

Other checks may ``from vf.probes import c08contracts; c08contracts.install()`` to have the density contracts
active during their own fits (DESIGN §3).
"""
from __future__ import annotations

import collections

import numpy as np
import torch

from vf.refmodel import dens08 as ref

STATS: collections.Counter = collections.Counter()
LAST: dict = {}
_INSTALLED = {"done": False}

TOL32 = (2e-4, 1e-5)  # (rtol, atol): float32 pipelines (eps 6e-8, <= ~100 ops, exp/log round trip), DESIGN §1.2
TOL64 = (1e-6, 1e-6)  # float64 inputs; atol covers leaspy's float32 constant 1/2 log(2 pi) (abs err 3e-8)
BIG32 = 1e30  # float32 results beyond this magnitude overflow legitimately: not judged
POW_UNDERFLOW = 705.0  # |log| of the smallest normal / largest float64 is 708.4 / 709.8
KEY_UNDERFLOW = "weibull/log-hazard-lost-when-hazard-leaves-float64-range"


class DensityPostBroken(Exception):
    def __init__(self, key, what, detail=None):
        super().__init__(f"{key}: {what}")
        self.key, self.what, self.detail = key, what, detail or {}


def _raise_last():
    return DensityPostBroken(LAST.get("key", "density/unknown"), LAST.get("what", "?"), LAST.get("detail"))


def _np(t):
    if isinstance(t, torch.Tensor):
        return t.detach().cpu().double().numpy()
    return np.asarray(t, dtype=np.float64)


def _val(x):
    return x.value if hasattr(x, "value") and hasattr(x, "weight") else x


def tol_of(*tensors):
    """float64 tolerance only if every floating tensor involved is float64."""
    for t in tensors:
        if isinstance(t, torch.Tensor) and t.is_floating_point() and t.dtype != torch.float64:
            return TOL32
    return TOL64


def bad_entries(got, want, rtol, atol, judged=None):
    """Boolean array: judged entries where got is non-finite or differs from want beyond the tolerance."""
    got, want = np.asarray(got, dtype=np.float64), np.asarray(want, dtype=np.float64)
    j = np.isfinite(want)
    if judged is not None:
        j = j & judged
    with np.errstate(all="ignore"):
        diff = np.abs(got - want) > atol + rtol * np.maximum(np.abs(got), np.abs(want))
    return j & (diff | ~np.isfinite(got)), j


def _fail(key, what, **detail):
    LAST.clear()
    LAST.update(key=key, what=what, detail=detail)
    STATS[f"broken::{key}"] += 1
    return False


def _first(bad, *arrays):
    idx = tuple(int(k) for k in np.argwhere(bad)[0])
    out = {"index": list(idx), "n_bad": int(bad.sum())}
    for name, a in arrays:
        a = np.broadcast_to(np.asarray(a), bad.shape)
        out[name] = float(a[idx])
    return out


def _check_entries(key, label, got_t, want, tol, judged=None, **inputs):
    got = _np(got_t)
    if got.shape != want.shape:
        return _fail(f"{key}/shape", f"{label}: result shape {got.shape} != broadcast shape of the inputs {want.shape}")
    rtol, atol = tol
    if tol is TOL32:
        judged_ = np.abs(want) < BIG32
        judged = judged_ if judged is None else (judged & judged_)
    bad, j = bad_entries(got, want, rtol, atol, judged)
    STATS[f"{label}::entries_judged"] += int(j.sum())
    STATS[f"{label}::entries_not_judged"] += int(j.size - j.sum())
    if bad.any():
        return _fail(key, f"{label}: entry differs from the textbook negative log-density",
                     **_first(bad, ("got", got), ("want", want), *[(k, v) for k, v in inputs.items()]))
    return True


# ----------------------------------------------------------------------------------------------------
# Normal
# ----------------------------------------------------------------------------------------------------
def normal_nll_is_textbook_density(cls, x, loc, scale, result):
    STATS["normal._nll::calls"] += 1
    xv = _val(x)
    want = ref.normal_nll(_np(xv), _np(loc), _np(scale))
    if getattr(result, "weight", None) is not getattr(x, "weight", None):
        rw, xw = getattr(result, "weight", None), getattr(x, "weight", None)
        if rw is None or xw is None or rw.shape != xw.shape or not torch.equal(rw, xw):
            return _fail("normal/nll-weights-changed", "NormalFamily._nll: weights of the result differ from the value's weights")
    return _check_entries("normal/nll-entry-mismatch", "normal._nll", result.value, want, tol_of(xv, loc, scale),
                          x=_np(xv), loc=_np(loc), scale=_np(scale))


def normal_nll_and_jacobian_is_textbook(cls, x, loc, scale, result):
    STATS["normal._nll_and_jacobian::calls"] += 1
    xv = _val(x)
    tol = tol_of(xv, loc, scale)
    ok = _check_entries("normal/nll-entry-mismatch", "normal._nll_and_jacobian[0]", result[0].value,
                        ref.normal_nll(_np(xv), _np(loc), _np(scale)), tol, x=_np(xv), loc=_np(loc), scale=_np(scale))
    return ok and _check_entries("normal/nll-jacobian-mismatch", "normal._nll_and_jacobian[1]", result[1].value,
                                 ref.normal_nll_dx(_np(xv), _np(loc), _np(scale)), tol, x=_np(xv), loc=_np(loc), scale=_np(scale))


def normal_nll_jacobian_is_textbook(cls, x, loc, scale, result):
    STATS["normal._nll_jacobian::calls"] += 1
    xv = _val(x)
    return _check_entries("normal/nll-jacobian-mismatch", "normal._nll_jacobian", result.value,
                          ref.normal_nll_dx(_np(xv), _np(loc), _np(scale)), tol_of(xv, loc, scale),
                          x=_np(xv), loc=_np(loc), scale=_np(scale))


# ----------------------------------------------------------------------------------------------------
# Bernoulli (torch-distribution path)
# ----------------------------------------------------------------------------------------------------
EPS32 = float(np.finfo(np.float32).eps)
EPS64 = float(np.finfo(np.float64).eps)


def bernoulli_judged_mask(p_np, dtype):
    """torch clamps probabilities to [eps, 1-eps] (eps of the dtype) before taking logits: outside, the value
    saturates at -log(eps).  Those entries are *not judged* against the density (stated bound), only monitored."""
    eps = EPS32 if dtype != torch.float64 else EPS64
    return (p_np >= eps) & (p_np <= 1.0 - eps)


def torch_family_nll_is_textbook_density(cls, x, _ARGS, result):
    params = _ARGS[2:]
    if getattr(cls, "dist_factory", None) is not torch.distributions.Bernoulli or len(params) != 1:
        STATS["torchfamily._nll::other_family_not_judged"] += 1
        return True
    STATS["bernoulli._nll::calls"] += 1
    (p,) = params
    xv = _val(x)
    p_np, x_np = _np(p), _np(xv)
    want = ref.bernoulli_nll(x_np, p_np)
    pb = np.broadcast_to(p_np, want.shape)
    inside = bernoulli_judged_mask(pb, p.dtype if isinstance(p, torch.Tensor) else torch.float64)
    # entries with weight 0 are meaningless by the documented contract of WeightedTensor (the value stored there - whatever fill the
    # density was evaluated on - never enters a sum): they are not judged  [correction after the C06 repair, see DESIGN "Corrections"]
    w = getattr(x, "weight", None)
    if w is not None:
        observed = np.broadcast_to(_np(w) != 0, want.shape)
        inside = inside & observed
        STATS["bernoulli._nll::entries_masked_not_judged"] += int((~observed).sum())
    else:
        observed = np.ones(want.shape, dtype=bool)
    got = _np(result.value)
    if got.shape != want.shape:
        return _fail("bernoulli/nll-entry-mismatch/shape", f"bernoulli._nll: result shape {got.shape} != {want.shape}")
    # saturated entries: must stay finite, non-negative and never exceed the true value (it is a clamp, not a density)
    # incl. probabilities EXACTLY 0 or 1 (a saturated float32 sigmoid) when the outcome matches (exact density 0); a mismatching
    # outcome has density +inf there and is not judged
    sat = ~bernoulli_judged_mask(pb, p.dtype if isinstance(p, torch.Tensor) else torch.float64) & observed & np.isfinite(pb) & (pb >= 0) & (pb <= 1) \
        & ~np.isnan(want) & np.isfinite(want)
    STATS["bernoulli._nll::entries_saturated_not_judged"] += int(sat.sum())
    if sat.any():
        g = got[sat]
        if not np.isfinite(g).all() or (g < -1e-6).any() or (g > want[sat] * (1 + 1e-3) + 1e-5).any():
            return _fail("bernoulli/saturated-entry-not-finite-or-above-density",
                         "bernoulli._nll: entry with probability within eps of 0/1 is non-finite, negative or above the true value")
    if getattr(result, "weight", None) is not getattr(x, "weight", None):
        return _fail("bernoulli/nll-weights-changed", "bernoulli._nll: weights of the result differ from the value's weights")
    return _check_entries("bernoulli/nll-entry-mismatch", "bernoulli._nll", result.value, want, tol_of(xv, p), judged=inside,
                          x=x_np, p=p_np)


# ----------------------------------------------------------------------------------------------------
# right-censored Weibull
# ----------------------------------------------------------------------------------------------------
def _weibull_inputs(cls, x, nu, rho, xi, tau, _ARGS, _KWARGS=None):
    extra = tuple(_ARGS[6:])
    if _KWARGS:
        extra = extra + tuple(v for k, v in _KWARGS.items() if k not in ("x", "nu", "rho", "xi", "tau"))
    with_sources = len(getattr(cls, "parameters", ())) == 5
    shifts = extra[0] if (with_sources and extra) else None
    xv = _val(x)
    w = getattr(x, "weight", None)
    observed = (_np(w) != 0) if w is not None else False  # the event's "weight" is the observed/censored flag
    terms = ref.weibull_terms(_np(xv), observed, _np(nu), _np(rho), _np(xi), _np(tau), None if shifts is None else _np(shifts))
    # event times are float64 by construction of Dataset; parameters may be float32 -> float32 tolerance class
    tol = tol_of(xv, nu, rho, xi, tau, *([shifts] if shifts is not None else []))
    return xv, w, shifts, terms, tol


def weibull_log_survival_is_minus_cumulative_hazard(cls, x, nu, rho, xi, tau, _ARGS, result):
    STATS["weibull.compute_log_survival::calls"] += 1
    xv, w, shifts, T, tol = _weibull_inputs(cls, x, nu, rho, xi, tau, _ARGS)
    got, want = _np(result), -T["neg_log_S"]
    if got.shape != want.shape:
        return _fail("weibull/log-survival-mismatch/shape", f"weibull.compute_log_survival: result shape {got.shape} != broadcast shape of the inputs {want.shape}")
    judged = (np.abs(want) < BIG32) if tol is TOL32 else None
    bad, j = bad_entries(got, want, tol[0], _weibull_atol(tol, _np(rho), T), judged)
    STATS["weibull.compute_log_survival::entries_judged"] += int(j.sum())
    STATS["weibull.compute_log_survival::entries_not_judged"] += int(j.size - j.sum())
    if bad.any():
        return _fail("weibull/log-survival-mismatch", "weibull.compute_log_survival: entry differs from the textbook negative log-density",
                     **_first(bad, ("got", got), ("want", want), ("t", _np(xv)), ("tau", _np(tau)), ("xi", _np(xi)), ("nu", _np(nu)), ("rho", _np(rho))))
    return True


def _weibull_atol(tol, rho, T):
    """Absolute tolerance per entry for Weibull terms: the float32 rounding of the reparametrised time / scale (k*eps) is amplified by the
    shape: (t/nu)^rho has relative error rho*k*eps, the log-hazard absolute error (rho-1)*k*eps.  Negligible for usual shapes (1e-5 at rho=10),
    decisive for the peaked laws a short fit may wander into (rho = 1e3 ... 1e30)."""
    eps = 6e-8 if tol is TOL32 else 1.2e-16
    shape = np.shape(T["nll"])
    rho_b = np.abs(np.broadcast_to(np.asarray(rho, dtype=np.float64), shape))
    s_ = np.where(np.isfinite(T["neg_log_S"]), np.abs(T["neg_log_S"]), 0.0)
    with np.errstate(all="ignore"):
        return tol[1] + 16.0 * eps * rho_b * (1.0 + s_)


def _penalty_problem(got, T, sign, rho_b):
    """Entries of an observed event at t <= tau.  sign=+1: nll (>= +1e300), sign=-1: log-hazard (<= -1e300)."""
    obs = T["observed"]
    early = obs & (T["before"] | T["at_tau"])
    if not early.any():
        return None, 0
    g = got[early] * sign
    if not np.isfinite(g).all():
        return ("weibull/event-before-reference-not-finite", "observed event at/before the reference time gives NaN/inf instead of a finite penalty"), int(early.sum())
    must_penalise = obs & (T["before"] | (T["at_tau"] & (rho_b > 1.0)))  # density is exactly 0 there
    if must_penalise.any() and (got[must_penalise] * sign < ref.PENALTY_MIN).any():
        return ("weibull/event-before-reference-not-penalised", "observed event before the reference time (density 0) is not given a prohibitive penalty (>= 1e300)"), int(early.sum())
    return None, int(early.sum())


def weibull_log_hazard_is_textbook(cls, x, nu, rho, xi, tau, _ARGS, result):
    STATS["weibull.compute_log_likelihood_hazard::calls"] += 1
    xv, w, shifts, T, tol = _weibull_inputs(cls, x, nu, rho, xi, tau, _ARGS)
    if w is None:
        STATS["weibull.compute_log_likelihood_hazard::no_censoring_flags_not_judged"] += 1
        return True
    got = _np(result)
    if got.shape != T["nll"].shape:
        return _fail("weibull/log-hazard-mismatch/shape", f"compute_log_likelihood_hazard: shape {got.shape} != {T['nll'].shape}")
    rho_b = np.broadcast_to(_np(rho), got.shape)
    prob, n_early = _penalty_problem(got, T, -1.0, rho_b)
    STATS["weibull::observed_event_at_or_before_reference_entries"] += n_early
    if prob:
        return _fail(prob[0], "compute_log_likelihood_hazard: " + prob[1])
    cens = ~T["observed"]
    STATS["weibull::censored_entries"] += int(cens.sum())
    if cens.any() and (got[cens] != 0).any():
        return _fail("weibull/censored-contributes-hazard", "compute_log_likelihood_hazard: a censored individual gets a non-zero log-hazard term",
                     **_first(cens & (got != 0), ("got", got), ("t", _np(xv)), ("tau", _np(tau))))
    want = np.where(T["observed"] & T["after"], T["log_h"], np.nan)
    atol_w = _weibull_atol(tol, _np(rho), T)
    bad, _ = bad_entries(got, want, tol[0], atol_w)
    under = bad & (np.abs(T["log_pow"]) > POW_UNDERFLOW)
    if under.any():
        return _fail(KEY_UNDERFLOW, "compute_log_likelihood_hazard: the hazard under/overflows in float64 and its log is reported as 0 (or log of a "
                     "denormal, or inf) instead of the finite log-hazard", **_first(under, ("got", got), ("want", want), ("t", _np(xv)), ("tau", _np(tau)),
                                                                           ("xi", _np(xi)), ("nu", _np(nu)), ("rho", _np(rho))))
    if bad.any():
        return _fail("weibull/log-hazard-mismatch", "weibull.compute_log_likelihood_hazard: entry differs from the textbook log-hazard",
                     **_first(bad, ("got", got), ("want", want), ("t", _np(xv)), ("tau", _np(tau)), ("xi", _np(xi)), ("nu", _np(nu)), ("rho", _np(rho))))
    STATS["weibull.compute_log_likelihood_hazard::entries_judged"] += int(np.isfinite(want).sum())
    return True


def weibull_nll_is_textbook_right_censored_density(cls, x, nu, rho, xi, tau, _ARGS, result):
    STATS["weibull._nll::calls"] += 1
    xv, w, shifts, T, tol = _weibull_inputs(cls, x, nu, rho, xi, tau, _ARGS)
    if w is None:
        STATS["weibull._nll::no_censoring_flags_not_judged"] += 1
        return True
    got = _np(result.value)
    if got.shape != T["nll"].shape:
        return _fail("weibull/nll-entry-mismatch/shape", f"weibull._nll: shape {got.shape} != {T['nll'].shape}")
    rho_b = np.broadcast_to(_np(rho), got.shape)
    prob, _ = _penalty_problem(got, T, +1.0, rho_b)
    if prob:
        return _fail(prob[0], "weibull._nll: " + prob[1])
    rtol, atol = tol[0], _weibull_atol(tol, _np(rho), T)
    cens, obs_after = ~T["observed"], T["observed"] & T["after"]
    bad_c, _ = bad_entries(got, T["neg_log_S"], rtol, atol, cens)
    if bad_c.any():
        return _fail("weibull/censored-not-survival-only", "weibull._nll: a censored individual contributes something else than -log S(t)",
                     **_first(bad_c, ("got", got), ("want_neg_log_S", T["neg_log_S"]), ("t", _np(xv)), ("tau", _np(tau))))
    bad_o, _ = bad_entries(got, T["nll"], rtol, atol, obs_after)
    if bad_o.any():
        if (np.abs(T["log_pow"][bad_o]) > POW_UNDERFLOW).all():
            return _fail(KEY_UNDERFLOW, "weibull._nll: the hazard underflows in float64 and the log-hazard of an observed event is lost",
                         **_first(bad_o, ("got", got), ("want", T["nll"]), ("t", _np(xv)), ("tau", _np(tau)), ("rho", _np(rho))))
        only_surv, _ = bad_entries(got, T["neg_log_S"], rtol, atol, obs_after)
        if not (only_surv & bad_o).any() and np.abs(T["log_h"][bad_o]).max() > 10 * float(np.max(atol)):
            return _fail("weibull/observed-missing-log-hazard", "weibull._nll: an observed event contributes only -log S(t), the log-hazard is missing",
                         **_first(bad_o, ("got", got), ("want", T["nll"]), ("t", _np(xv)), ("tau", _np(tau))))
        return _fail("weibull/nll-entry-mismatch", "weibull._nll: observed event differs from -log S(t) - log h(t)",
                     **_first(bad_o, ("got", got), ("want", T["nll"]), ("neg_log_S", T["neg_log_S"]), ("log_h", T["log_h"]),
                              ("t", _np(xv)), ("tau", _np(tau)), ("xi", _np(xi)), ("nu", _np(nu)), ("rho", _np(rho))))
    STATS["weibull._nll::entries_judged"] += int(cens.sum() + obs_after.sum())
    return True


def weibull_reparam_nu_is_documented(nu, rho, xi, tau, _ARGS, result):
    STATS["weibull._extract_reparametrized_nu::calls"] += 1
    shifts = _ARGS[4] if len(_ARGS) > 4 else None
    want = ref.weibull_reparam_scale(_np(nu), _np(rho), _np(xi), None if shifts is None else _np(shifts))
    return _check_entries("weibull/reparametrised-nu-mismatch", "weibull._extract_reparametrized_nu", result, want,
                          tol_of(nu, rho, xi, *([shifts] if shifts is not None else [])), nu=_np(nu), xi=_np(xi), rho=_np(rho))


# ----------------------------------------------------------------------------------------------------
def _wrap_classmethod(klass, name, cond):
    import icontract

    raw = klass.__dict__[name]
    func = raw.__func__
    setattr(klass, name, classmethod(icontract.ensure(cond, error=_raise_last)(func)))
    return func


def _wrap_staticmethod(klass, name, cond):
    import icontract

    raw = klass.__dict__[name]
    func = raw.__func__
    setattr(klass, name, staticmethod(icontract.ensure(cond, error=_raise_last)(func)))
    return func


def install():
    """Idempotent.  Returns STATS."""
    if _INSTALLED["done"]:
        return STATS
    import leaspy.models  # noqa: F401
    from leaspy.variables import distributions as D

    _wrap_classmethod(D.NormalFamily, "_nll", normal_nll_is_textbook_density)
    _wrap_classmethod(D.NormalFamily, "_nll_and_jacobian", normal_nll_and_jacobian_is_textbook)
    _wrap_classmethod(D.NormalFamily, "_nll_jacobian", normal_nll_jacobian_is_textbook)
    _wrap_classmethod(D.StatelessDistributionFamilyFromTorchDistribution, "_nll", torch_family_nll_is_textbook_density)
    A = D.AbstractWeibullRightCensoredFamily
    _wrap_classmethod(A, "_nll", weibull_nll_is_textbook_right_censored_density)
    _wrap_classmethod(A, "compute_log_survival", weibull_log_survival_is_minus_cumulative_hazard)
    _wrap_classmethod(A, "compute_log_likelihood_hazard", weibull_log_hazard_is_textbook)
    _wrap_staticmethod(D.WeibullRightCensoredFamily, "_extract_reparametrized_nu", weibull_reparam_nu_is_documented)
    _wrap_staticmethod(D.WeibullRightCensoredWithSourcesFamily, "_extract_reparametrized_nu", weibull_reparam_nu_is_documented)
    # a subclass that overrides one of these methods would bypass the contract set on its parent: wrap every override too
    def all_subclasses(k):
        out = []
        for c in k.__subclasses__():
            out.append(c)
            out.extend(all_subclasses(c))
        return out

    for base, names_conds in (
        (D.NormalFamily, (("_nll", normal_nll_is_textbook_density), ("_nll_and_jacobian", normal_nll_and_jacobian_is_textbook),
                          ("_nll_jacobian", normal_nll_jacobian_is_textbook))),
        (D.StatelessDistributionFamilyFromTorchDistribution, (("_nll", torch_family_nll_is_textbook_density),)),
        (A, (("_nll", weibull_nll_is_textbook_right_censored_density), ("compute_log_survival", weibull_log_survival_is_minus_cumulative_hazard),
             ("compute_log_likelihood_hazard", weibull_log_hazard_is_textbook))),
    ):
        for sub in all_subclasses(base):
            if sub in (D.NormalFamily, A):
                continue
            for nm, cond in names_conds:
                raw = sub.__dict__.get(nm)
                if isinstance(raw, classmethod) and not getattr(raw.__func__, "__preconditions__", None) and not hasattr(raw.__func__, "__postconditions__"):
                    if base is D.StatelessDistributionFamilyFromTorchDistribution and issubclass(sub, (D.NormalFamily, A)):
                        continue  # these families have their own hard-coded densities, wrapped above
                    _wrap_classmethod(sub, nm, cond)
                    STATS[f"override_wrapped::{sub.__name__}.{nm}"] += 1
    _INSTALLED["done"] = True
    return STATS


def evaluations() -> int:
    return sum(v for k, v in STATS.items() if k.endswith("::calls"))
