"""SamplerProbe + RngTap: observe every proposal / draw / decision of the real samplers (C02, C03, C19).

Nothing is replaced: wrappers call the original and record what it returned.  The tap on torch.randn /
torch.rand / random.shuffle (as seen from leaspy.samplers.gibbs) records the actual draws in order so that
a reference can recompute proposals and decisions independently.
"""
from __future__ import annotations

import contextlib

import torch

import leaspy.samplers.base as sbase
import leaspy.samplers.gibbs as sgibbs


class Trace(list):
    def of(self, kind):
        return [e for e in self if e[0] == kind]


@contextlib.contextmanager
def rng_tap(trace: Trace):
    """Record randn / rand / shuffle calls made while the context is active (the real draw is returned)."""
    orig_randn, orig_rand, orig_shuffle = torch.randn, torch.rand, sgibbs.shuffle

    def randn(*a, **k):
        r = orig_randn(*a, **k)
        trace.append(("randn", tuple(r.shape), r.clone()))
        return r

    def rand(*a, **k):
        r = orig_rand(*a, **k)
        trace.append(("rand", tuple(r.shape), r.clone()))
        return r

    def shuffle(x):
        orig_shuffle(x)
        trace.append(("shuffle", list(x)))

    torch.randn, torch.rand, sgibbs.shuffle = randn, rand, shuffle
    try:
        yield trace
    finally:
        torch.randn, torch.rand, sgibbs.shuffle = orig_randn, orig_rand, orig_shuffle


class SamplerProbe:
    """Instance-level wrappers on one sampler object; events go to `self.trace`."""

    def __init__(self, sampler):
        self.s = sampler
        self.trace = Trace()
        self.is_ind = isinstance(sampler, sbase.AbstractIndividualSampler)
        s, tr = sampler, self.trace
        if self.is_ind:
            orig_pc = s._proposed_change

            def pc():
                r = orig_pc()
                tr.append(("proposal", None, r.clone()))
                return r

            s._proposed_change = pc
            orig_g = s._group_metropolis_step

            def g(alpha):
                r = orig_g(alpha)
                tr.append(("decision", alpha.clone(), r.clone()))
                return r

            s._group_metropolis_step = g
        else:
            orig_pci = s._proposed_change_idx

            def pci(idx):
                r = orig_pci(idx)
                tr.append(("proposal", tuple(idx), r.clone()))
                return r

            s._proposed_change_idx = pci
            orig_m = s._metropolis_step

            def m(alpha):
                r = orig_m(alpha)
                tr.append(("decision", alpha.clone() if isinstance(alpha, torch.Tensor) else torch.tensor(alpha), r.clone() if isinstance(r, torch.Tensor) else torch.tensor(r)))
                return r

            s._metropolis_step = m
        orig_uar = s._update_acceptation_rate

        def uar(acc):
            tr.append(("acc_in", acc.clone()))
            return orig_uar(acc)

        s._update_acceptation_rate = uar
        orig_us = s._update_std

        def us():
            before = s.std.clone()
            c0 = s._counter
            hist = s.acceptation_history.clone()
            r = orig_us()
            tr.append(("std_update", c0, s._counter, before, s.std.clone(), hist))
            return r

        s._update_std = us

    def sample(self, state, temperature_inv):
        """Run one real sample() call under the RNG tap; returns the events of this call only."""
        start = len(self.trace)
        with rng_tap(self.trace):
            self.s.sample(state, temperature_inv=temperature_inv)
        return Trace(self.trace[start:])


def hook_sample(probe: SamplerProbe, callback):
    """Replace the instance's ``sample`` by a wrapper that observes the whole call.

    callback(probe, state, temperature_inv, indep_before, events) is invoked after the real call returned.
    `indep_before`: name -> value object held by the state before the call (values are never mutated in place).
    Decision events get a 4th field: the value of the sampled variable *as proposed* (held by the state at decision time).
    """
    from leaspy.variables.specs import LinkedVariable

    s = probe.s
    orig_sample = s.sample  # bound method of the class
    name = s.name

    # decorate decision recorders so that they also capture the proposed value
    holder = {"state": None}
    step_attr = "_group_metropolis_step" if probe.is_ind else "_metropolis_step"
    inner = getattr(s, step_attr)

    def step(alpha):
        r = inner(alpha)
        kind, a, acc = probe.trace[-1]
        probe.trace[-1] = (kind, a, acc, holder["state"]._values[name])
        return r

    setattr(s, step_attr, step)

    def sample(state, *, temperature_inv):
        dag = state.dag
        before = {k: state._values[k] for k in dag.variables if not isinstance(dag[k], LinkedVariable)}
        holder["state"] = state
        start = len(probe.trace)
        with rng_tap(probe.trace):
            orig_sample(state, temperature_inv=temperature_inv)
        events = Trace(probe.trace[start:])
        del probe.trace[:]  # keep memory bounded in long fits
        callback(probe, state, temperature_inv, before, events)

    s.sample = sample
