"""AlgoProbe: observe every M-step of a real MCMC-SAEM run (C04, C05, C10).

Wraps, on the *instances* used by one run: model.compute_sufficient_statistics (returns s_k),
model.update_parameters (statistics in force, burn-in flag, parameters before/after), and reads
algo.sufficient_statistics after the step.  Nothing is altered; originals are called.
"""
from __future__ import annotations

import torch

from leaspy.utils.weighted_tensor import WeightedTensor
from leaspy.variables.specs import IndividualLatentVariable, ModelParameter, PopulationLatentVariable


def _cp(v):
    if v is None:
        return None
    if isinstance(v, WeightedTensor):
        return WeightedTensor(v.value.clone(), None if v.weight is None else v.weight.clone())
    return v.clone()


class MStepProbe:
    def __init__(self, algo, model, on_step=None, before_suffstats=None):
        self.algo, self.model = algo, model
        self.records = []
        self.on_step = on_step
        cls_css = model.compute_sufficient_statistics  # bound classmethod
        cls_up = model.update_parameters
        cur = {}

        def css(state):
            if before_suffstats is not None:
                before_suffstats(state)
            s = cls_css(state)
            cur["s_k"] = {k: _cp(v) for k, v in s.items()}
            cur["S_prev"] = None if getattr(algo, "sufficient_statistics", None) is None else {k: _cp(v) for k, v in algo.sufficient_statistics.items()}
            return s

        def up(state, sufficient_statistics, *, burn_in):
            dag = state.dag
            names = list(dag.sorted_variables_by_type[ModelParameter])
            cur["params_before"] = {n: _cp(state._values[n]) for n in names}
            cur["latent"] = {n: _cp(state._values[n]) for n in list(dag.sorted_variables_by_type.get(PopulationLatentVariable, {})) + list(dag.sorted_variables_by_type.get(IndividualLatentVariable, {}))}
            cur["S_used"] = {k: _cp(v) for k, v in sufficient_statistics.items()}
            cur["burn_in_flag"] = burn_in
            if "nll_regul_ind_sum_ind" in set(dag.sorted_variables_names):
                try:
                    cur["nll_regul_ind_sum_ind"] = _cp(state["nll_regul_ind_sum_ind"])
                except Exception:
                    cur["nll_regul_ind_sum_ind"] = None
            r = cls_up(state, sufficient_statistics, burn_in=burn_in)
            cur["params_after"] = {n: _cp(state._values[n]) for n in names}
            return r

        model.compute_sufficient_statistics = css
        model.update_parameters = up
        orig_ms = algo._maximization_step

        def ms(model_, state):
            cur.clear()
            r = orig_ms(model_, state)
            rec = dict(cur)
            rec["k"] = algo.current_iteration
            rec["S_after"] = {k: _cp(v) for k, v in algo.sufficient_statistics.items()}
            rec["n_burn_in_iter"] = algo.algo_parameters["n_burn_in_iter"]
            self.records.append(rec)
            if self.on_step is not None:
                self.on_step(rec, state)
            return r

        algo._maximization_step = ms

    def uninstall(self):
        for obj, attr in ((self.model, "compute_sufficient_statistics"), (self.model, "update_parameters"), (self.algo, "_maximization_step")):
            try:
                delattr(obj, attr)
            except AttributeError:
                pass
