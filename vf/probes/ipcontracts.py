"""icontract postconditions applied from the harness onto the real ``IndividualParameters`` methods (property C16).

Every conversion method gets (a) a *form* postcondition (the produced table / tensors / container is the documented
form of the container it was made from) and (b) a *round-trip* postcondition (converting straight back with the
real inverse gives a faithful copy).  ``add_individual_parameters`` gets the acceptance contract: if it returns
normally, the reference model (vf.refmodel.ipref) agrees the addition was acceptable and it was stored verbatim.

A broken postcondition raises ``PostBroken(op, problems)``; problems = [(symptom, detail, extra)].
Wrappers never change arguments or results.  ``STATS`` counts evaluations per contract.
"""
from __future__ import annotations

import os
import re
import traceback

STATS: dict[str, int] = {}
_last: dict[str, list] = {}
ORIG: dict[str, object] = {}


class PostBroken(Exception):
    def __init__(self, op, problems):
        self.op, self.problems = op, problems
        super().__init__(f"{op}: {[(p[0], p[1]) for p in problems[:2]]}")


def innermost_leaspy_function(exc) -> str:
    """Name of the innermost function of individual_parameters.py on the traceback of ``exc`` ('?' if none)."""
    name = "?"
    for fr in traceback.extract_tb(exc.__traceback__):
        if fr.filename.endswith("individual_parameters.py"):
            name = fr.name
    return name


def _count(k):
    STATS[k] = STATS.get(k, 0) + 1


def _verdict(op, problems):
    from vf.refmodel import ipref

    judged, _info = ipref.judged(problems)
    if judged:
        _last[op] = judged
        return False
    return True


def _raised(e):
    return ("converts-back-raises", f"{type(e).__name__}: {str(e)[:200]}", {"exc": type(e).__name__, "fn": innermost_leaspy_function(e)})


_CANON = re.compile(r"^([^_]+)(?:_(\d+))?$")


def canonical_table(df) -> bool:
    """Is ``df`` in the image of the documented naming scheme (so that table -> container -> table must be the identity)?"""
    cols = list(df.columns)
    if not all(isinstance(c, str) for c in cols) or len(set(cols)) != len(cols):
        return False
    if not all(isinstance(i, str) for i in df.index) or not df.index.is_unique:
        return False
    groups: dict[str, list] = {}
    order = []
    for c in cols:
        m = _CANON.match(c)
        if not m:
            return False
        base, k = m.group(1), m.group(2)
        if base not in groups:
            groups[base] = []
            order.append(base)
        elif order[-1] != base:
            return False  # columns of one parameter must be contiguous
        groups[base].append(k)
    for base, ks in groups.items():
        if ks == [None]:
            continue
        if None in ks or [int(k) for k in ks] != list(range(len(ks))) or any(str(int(k)) != k for k in ks):
            return False
    return True


def normalized_columns(cols):
    """Column labels modulo the two documented spellings of a size-1 parameter (``name`` and a lone ``name_0``)."""
    cols = list(cols)
    out = []
    for c in cols:
        m = _CANON.match(c)
        if m and m.group(2) == "0" and f"{m.group(1)}_1" not in cols:
            out.append(m.group(1))
        else:
            out.append(c)
    return out


def install():
    """Wrap the real methods (idempotent); returns the class."""
    import icontract
    import numpy as np
    import torch

    from leaspy.io.outputs.individual_parameters import IndividualParameters as IP
    from vf.refmodel import ipref

    if getattr(IP, "_vf_c16", False):
        return IP

    o_to_df = IP.__dict__["to_dataframe"]
    o_from_df = IP.__dict__["from_dataframe"].__func__
    o_to_pt = IP.__dict__["to_pytorch"]
    o_from_pt = IP.__dict__["from_pytorch"].__func__
    o_save = IP.__dict__["save"]
    o_load = IP.__dict__["load"].__func__
    o_add = IP.__dict__["add_individual_parameters"]
    ORIG.update(to_dataframe=o_to_df, from_dataframe=o_from_df, to_pytorch=o_to_pt, from_pytorch=o_from_pt,
                save=o_save, load=o_load, add=o_add)

    def err(op):
        return lambda: PostBroken(op, _last.get(op) or [("?", "?", {})])

    # ---- to_dataframe ------------------------------------------------------------------------------------
    def table_is_documented_form_and_converts_back(self, result) -> bool:
        _count("post_to_dataframe")
        s = ipref.snap(self)
        probs = ipref.table_problems(s, result.index.name, list(result.index), list(result.columns), result.values.tolist())
        if not probs:
            try:
                back = o_from_df(result)
                probs = ipref.compare(ipref.snap(back), s, scalar_to_vec=True)
            except PostBroken:
                raise
            except Exception as e:
                probs = [_raised(e)]
        return _verdict("dataframe", probs)

    IP.to_dataframe = icontract.ensure(table_is_documented_form_and_converts_back, error=err("dataframe"))(o_to_df)

    # ---- from_dataframe ----------------------------------------------------------------------------------
    def container_is_wellformed_copy_of_table(df, result) -> bool:
        _count("post_from_dataframe")
        s = ipref.snap(result)
        probs = ipref.wellformed_problems(s)
        if not probs and s.ids != list(df.index):
            probs = [("ids-changed", f"{ipref._r(list(df.index))} -> {ipref._r(s.ids)}", {})]
        if not probs and canonical_table(df) and len(df) > 0:
            _count("post_from_dataframe_reverse")
            try:
                back = o_to_df(result)
                if list(back.index) != list(df.index):
                    probs = [("ids-changed", f"table->container->table: {ipref._r(list(df.index))} -> {ipref._r(list(back.index))}", {})]
                elif normalized_columns(back.columns) != normalized_columns(df.columns):
                    probs = [("names-changed", f"table->container->table: columns {ipref._r(list(df.columns))} -> {ipref._r(list(back.columns))}", {})]
                else:
                    a = np.asarray(df.values, dtype=float)
                    b = np.asarray(back.values, dtype=float)
                    if a.shape != b.shape or not np.array_equal(a, b, equal_nan=True):
                        probs = [("values-changed", "table->container->table changed cell values", {})]
            except Exception as e:
                probs = [_raised(e)]
        return _verdict("dataframe", probs)

    IP.from_dataframe = staticmethod(icontract.ensure(container_is_wellformed_copy_of_table, error=err("dataframe"))(o_from_df))

    # ---- to_pytorch --------------------------------------------------------------------------------------
    def tensors_are_documented_form_and_convert_back(self, result) -> bool:
        _count("post_to_pytorch")
        s = ipref.snap(self)
        try:
            ids, tensors = result
            probs = ipref.tensor_form_problems(s, ids, tensors)
        except Exception as e:  # not an (ids, dict of tensors) pair
            probs = [("tensor-form-malformed", f"{type(e).__name__}: {e}", {})]
        if not probs:
            try:
                back = o_from_pt(list(ids), tensors)
                probs = ipref.compare(ipref.snap(back), s, f32=True, scalar_to_vec=True)
            except PostBroken:
                raise
            except Exception as e:
                probs = [_raised(e)]
        return _verdict("pytorch", probs)

    IP.to_pytorch = icontract.ensure(tensors_are_documented_form_and_convert_back, error=err("pytorch"))(o_to_pt)

    # ---- from_pytorch ------------------------------------------------------------------------------------
    def container_is_wellformed_copy_of_tensors(indices, dict_pytorch, result) -> bool:
        _count("post_from_pytorch")
        s = ipref.snap(result)
        probs = ipref.wellformed_problems(s)
        if not probs and s.ids != list(indices):
            probs = [("ids-changed", f"{ipref._r(list(indices))} -> {ipref._r(s.ids)}", {})]
        if not probs and s.ids and set(s.shapes) != set(dict_pytorch):
            probs = [("names-changed", f"{sorted(dict_pytorch)} -> {sorted(s.shapes)}", {})]
        if not probs and s.ids:
            try:
                ids2, back = o_to_pt(result)
                for p, t in dict_pytorch.items():
                    want = t.detach().to(torch.float32).reshape(len(s.ids), -1).numpy()
                    got = back[p].numpy()
                    if want.shape != got.shape:
                        probs = [("shape-changed", f"tensors->container->tensors: {p!r} {tuple(want.shape)} -> {tuple(got.shape)}", {})]
                        break
                    if not np.array_equal(want, got, equal_nan=True):
                        probs = [("values-changed", f"tensors->container->tensors changed {p!r}", {})]
                        break
                if not probs and list(ids2) != list(indices):
                    probs = [("ids-changed", f"tensors->container->tensors: {ipref._r(list(indices))} -> {ipref._r(list(ids2))}", {})]
            except Exception as e:
                probs = [_raised(e)]
        return _verdict("pytorch", probs)

    IP.from_pytorch = staticmethod(icontract.ensure(container_is_wellformed_copy_of_tensors, error=err("pytorch"))(o_from_pt))

    # ---- save / load -------------------------------------------------------------------------------------
    def file_loads_back_to_a_faithful_copy(self, path, result) -> bool:
        _count("post_save")
        real = path if os.path.splitext(path)[1] else path + ".csv"
        ext = os.path.splitext(real)[1][1:]
        op = ext if ext in ("csv", "json") else "save"
        s = ipref.snap(self)
        try:
            back = o_load(IP, real)
            probs = ipref.compare(ipref.snap(back), s, scalar_to_vec=(ext == "csv"))
        except PostBroken:
            raise
        except Exception as e:
            probs = [_raised(e)]
        ok = _verdict("save", probs)
        if not ok:
            _last["save"] = [(sym, det, dict(extra, form=op)) for sym, det, extra in _last["save"]]
        return ok

    def save_err():
        probs = _last.get("save") or [("?", "?", {})]
        return PostBroken(probs[0][2].get("form", "save"), probs)

    IP.save = icontract.ensure(file_loads_back_to_a_faithful_copy, error=save_err)(o_save)

    def loaded_container_is_wellformed(path, result) -> bool:
        _count("post_load")
        return _verdict("load", ipref.wellformed_problems(ipref.snap(result)))

    def load_err(path):
        ext = os.path.splitext(path)[1][1:]
        return PostBroken(ext if ext in ("csv", "json") else "load", _last.get("load") or [("?", "?", {})])

    IP.load = classmethod(icontract.ensure(loaded_container_is_wellformed, error=load_err)(o_load))

    # ---- add_individual_parameters -----------------------------------------------------------------------
    def cheap_before(self):
        return ipref.Snap(list(self._indices), {}, None if self._parameters_shape is None else dict(self._parameters_shape))

    def accepted_addition_was_acceptable_and_stored(self, index, individual_parameters, OLD) -> bool:
        _count("post_add")
        reason = ipref.addition_verdict(OLD.before, index, individual_parameters)
        if reason is not None:
            return _verdict("add", [("accepted-" + reason, f"add({ipref._r(index)}, {str(individual_parameters)[:120]}) was accepted", {})])
        probs = []
        if self._indices != OLD.before.ids + [index] or list(self._individual_parameters)[-1:] != [index]:
            probs = [("not-appended-in-order", f"ids {ipref._r(OLD.before.ids[-3:])} + {ipref._r(index)} -> {ipref._r(self._indices[-4:])}", {})]
        else:
            want = ipref.model_from_entries([(index, individual_parameters)])
            got = ipref.Snap([index], {index: self._individual_parameters[index]}, {p: self._parameters_shape.get(p) for p in want.shapes})
            probs = ipref.compare(got, want)
        return _verdict("add", probs)

    wrapped = icontract.ensure(accepted_addition_was_acceptable_and_stored, error=err("add"))(o_add)
    IP.add_individual_parameters = icontract.snapshot(cheap_before, name="before")(wrapped)

    IP._vf_c16 = True
    return IP
