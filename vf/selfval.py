"""Self-validation driver (DESIGN §1.5): apply each catalogue mutant to a scratch copy of /repo/src and confirm the check fires.

    python -m vf.selfval C10 [--tier quick] [--only name]        # all patches in vf/mutants/C10/*.patch
    python -m vf.selfval --seeded                                 # all kept seeded changes in seeded/<id>/patch.diff vs their property's check

Scratch copies live under $TMPDIR (outside /repo and /verif) and are removed afterwards.  Output: one line per mutant,
and a JSON summary written to selfval/<ID>.json (not evidence; a record of which checks catch which changes).
"""
from __future__ import annotations

import argparse
import json
import os
import re
import shutil
import subprocess
import sys
import tempfile
from pathlib import Path

VERIF = Path(__file__).resolve().parent.parent


def make_mutant(prop: str, name: str, relpath: str, old: str, new: str, count: int = 1):
    """Create vf/mutants/<prop>/<name>.patch from a textual replacement in /repo/<relpath>."""
    src = Path("/repo") / relpath
    text = src.read_text()
    assert text.count(old) == count, f"{name}: expected {count} occurrence(s) of the old text, found {text.count(old)}"
    mutated = text.replace(old, new)
    d = VERIF / "vf" / "mutants" / prop
    d.mkdir(parents=True, exist_ok=True)
    with tempfile.TemporaryDirectory() as td:
        a, b = Path(td) / "a", Path(td) / "b"
        (a / relpath).parent.mkdir(parents=True)
        (b / relpath).parent.mkdir(parents=True)
        (a / relpath).write_text(text)
        (b / relpath).write_text(mutated)
        p = subprocess.run(["diff", "-u", f"a/{relpath}", f"b/{relpath}"], cwd=td, capture_output=True, text=True)
    (d / f"{name}.patch").write_text(p.stdout)
    return d / f"{name}.patch"


def run_one(prop: str, patch: Path, tier: str, seed: int = 0, timeout: int = 3000):
    scratch = Path(tempfile.mkdtemp(prefix=f"leaspy-selfval-{prop}-"))
    try:
        shutil.copytree("/repo/src", scratch / "src")
        p = subprocess.run(["patch", "-p1", "-s", "-d", str(scratch), "-i", str(patch)], capture_output=True, text=True)
        if p.returncode != 0:
            return {"patch": patch.name, "applied": False, "detail": (p.stdout + p.stderr)[-300:]}
        # evidence / replay files of a run against a mutated copy never land in /verif/evidence or /verif/replay
        env = dict(os.environ, LEASPY_SRC=str(scratch / "src"), VERIF_SEED=str(seed), VF_SELFVAL="1",
                   VF_EVIDENCE_DIR=str(scratch / "evidence"), VF_REPLAY_DIR=str(scratch / "replay"))
        r = subprocess.run([str(VERIF / "check"), prop, "--tier", tier], cwd=str(VERIF), env=env, capture_output=True, text=True, timeout=timeout)
        keys = []
        for rp in re.findall(r"VIOLATION property=\S+ replay=(\S+)", r.stdout):
            try:
                keys.append(json.loads(Path(rp).read_text())["key"])
            except Exception:
                pass
        return {"patch": patch.name, "applied": True, "rc": r.returncode, "caught": r.returncode == 1, "keys": sorted(set(keys)),
                "tail": r.stdout.strip().splitlines()[-1:] if r.returncode != 1 else []}
    finally:
        shutil.rmtree(scratch, ignore_errors=True)


def main():
    ap = argparse.ArgumentParser()
    ap.add_argument("prop", nargs="?")
    ap.add_argument("--tier", default="quick")
    ap.add_argument("--only")
    ap.add_argument("--seeded", action="store_true")
    ap.add_argument("--props", help="with --seeded: only the seeded changes of these properties (comma-separated); results are merged into selfval/seeded.json")
    ap.add_argument("--ids", help="with --seeded: only these seeded changes (comma-separated); results are merged into selfval/seeded.json")
    a = ap.parse_args()
    results = []
    if a.seeded:
        import concurrent.futures as cf

        todo = []
        for d in sorted((VERIF / "seeded").iterdir()):
            meta = d / "meta.json"
            if not meta.exists():
                continue
            m = json.loads(meta.read_text())
            if a.only and a.only != d.name:
                continue
            if a.props and m["property"] not in a.props.split(","):
                continue
            if a.ids and d.name not in a.ids.split(","):
                continue
            for prop in m.get("checks", [m["property"]]):
                todo.append((prop, d))

        def one(job):
            prop, d = job
            res = run_one(prop, d / "patch.diff", a.tier)
            res["seeded"] = d.name
            res["property"] = prop
            print(json.dumps(res), flush=True)
            return res

        # SELFVAL_JOBS seeds at a time (each run fans out on its own shards; a run that goes inconclusive under load is simply "not caught": re-run it alone)
        with cf.ThreadPoolExecutor(max_workers=int(os.environ.get("SELFVAL_JOBS", "1"))) as ex:
            results = list(ex.map(one, todo))
        out = VERIF / "selfval" / "seeded.json"
        if (a.props or a.ids) and out.exists():
            redone = {(r["seeded"], r["property"]) for r in results}
            results = sorted([r for r in json.loads(out.read_text()) if (r["seeded"], r["property"]) not in redone] + results, key=lambda r: (r["seeded"], r["property"]))
    else:
        import concurrent.futures as cf

        prop = a.prop.upper()
        patches = [p_ for p_ in sorted((VERIF / "vf" / "mutants" / prop).glob("*.patch")) if not (a.only and a.only not in p_.name)]

        def one_patch(patch):
            res = run_one(prop, patch, a.tier)
            print(json.dumps(res), flush=True)
            return res

        with cf.ThreadPoolExecutor(max_workers=int(os.environ.get("SELFVAL_JOBS", "1"))) as ex:
            results = list(ex.map(one_patch, patches))
        out = VERIF / "selfval" / f"{prop}.json"
    out.parent.mkdir(exist_ok=True)
    if not a.only:
        out.write_text(json.dumps(results, indent=1))
    missed = [r for r in results if r.get("applied") and not r.get("caught")]
    print(f"{len(results)} mutants, {len(results) - len(missed)} caught, {len(missed)} missed")
    return 0 if not missed else 1


if __name__ == "__main__":
    sys.exit(main())
