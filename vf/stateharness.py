"""Executable reference model of leaspy's State (C01 / C02) + toy-graph and history generators.

RefState keeps ONLY the independent values (plus the documented fork snapshot of the assigned
independent variable) and evaluates every derived variable from scratch by walking
``dag.direct_ancestors`` — it shares nothing with State's cache / invalidation / revert code.
"""
from __future__ import annotations

import copy
import math

import torch

from leaspy.exceptions import LeaspyInputError
from leaspy.utils.weighted_tensor import WeightedTensor
from leaspy.variables.dag import VariablesDAG
from leaspy.variables.specs import DataVariable, Hyperparameter, LinkedVariable
from leaspy.variables.state import State, StateForkType


class Unset(Exception):
    def __init__(self, name):
        self.name = name


class Raised:
    """The variable's own definition raises on the current values (e.g. torch validation of a NaN location)."""

    def __init__(self, exc):
        self.exc = exc
        self.name = f"<definition raised {type(exc).__name__}>"


# --------------------------------------------------------------------------------------
# from-scratch evaluation
# --------------------------------------------------------------------------------------
def is_indep(dag, name):
    return not isinstance(dag[name], LinkedVariable)


def scratch_eval(dag, indep, names=None):
    """Evaluate `names` (default: all nodes) from independent values only. name -> value | Unset."""
    memo = {}

    def ev(n):
        if n in memo:
            r = memo[n]
        else:
            var = dag[n]
            if not isinstance(var, LinkedVariable):
                v = indep.get(n)
                r = Unset(n) if v is None else v
            else:
                args, r = {}, None
                for a in sorted(dag.direct_ancestors[n]):
                    x = ev(a)
                    if isinstance(x, (Unset, Raised)):
                        r = x
                        break
                    args[a] = x
                if r is None:
                    try:
                        r = var.f(**args)
                    except Exception as e:  # the definition itself refuses these values
                        r = Raised(e)
            memo[n] = r
        return r

    return {n: ev(n) for n in (names if names is not None else list(dag.variables))}


def same(a, b, rtol=1e-6, atol=0.0):
    """Value equality for tensors / weighted tensors (NaN == NaN); weights must match, values where weight>0."""
    if isinstance(a, WeightedTensor) or isinstance(b, WeightedTensor):
        if not (isinstance(a, WeightedTensor) and isinstance(b, WeightedTensor)):
            # a plain tensor equals an unweighted WeightedTensor
            aw = a if isinstance(a, WeightedTensor) else WeightedTensor(a)
            bw = b if isinstance(b, WeightedTensor) else WeightedTensor(b)
            a, b = aw, bw
        if (a.weight is None) != (b.weight is None):
            return False
        if a.weight is not None:
            if a.weight.shape != b.weight.shape or not torch.equal(a.weight, b.weight):
                return False
            m = a.weight != 0
            if a.value.shape != b.value.shape:
                return False
            return same(a.value[m], b.value[m], rtol, atol)
        return same(a.value, b.value, rtol, atol)
    if not (isinstance(a, torch.Tensor) and isinstance(b, torch.Tensor)):
        return a is b or a == b
    if a.shape != b.shape:
        return False
    if a.dtype == torch.bool or b.dtype == torch.bool or not (a.is_floating_point() or b.is_floating_point()):
        return torch.equal(a, b)
    a64, b64 = a.double(), b.double()
    nan_a, nan_b = torch.isnan(a64), torch.isnan(b64)
    if not torch.equal(nan_a, nan_b):
        return False
    ok = ~nan_a
    a64, b64 = a64[ok], b64[ok]
    inf = torch.isinf(a64) | torch.isinf(b64)
    if inf.any() and not torch.equal(a64[inf], b64[inf]):
        return False
    a64, b64 = a64[~inf], b64[~inf]
    if a64.numel() == 0:
        return True
    # relative to each entry AND to the scale of the tensor: an entry that is tiny compared with the tensor's scale is a saturated /
    # cancelling float value (e.g. sigmoid(-200)^2 ~ 1e-15 next to entries ~ 1) whose last bits depend on the memory layout the
    # vectorised kernels saw; a stale value differs by the size of the change that was missed, not by 1e-6 of the scale
    scale = torch.clamp(torch.maximum(a64.abs().max(), b64.abs().max()), max=1e6)
    tol = atol + rtol * torch.maximum(a64.abs(), b64.abs()) + rtol * scale
    return bool(((a64 - b64).abs() <= tol).all())


def bit_same(a, b):
    if a is None or b is None:
        return a is None and b is None
    if isinstance(a, WeightedTensor) or isinstance(b, WeightedTensor):
        if not (isinstance(a, WeightedTensor) and isinstance(b, WeightedTensor)):
            return False
        if (a.weight is None) != (b.weight is None):
            return False
        if a.weight is not None and not torch.equal(a.weight, b.weight):
            return False
        return bit_same(a.value, b.value)
    if a.shape != b.shape or a.dtype != b.dtype:
        return False
    return torch.equal(torch.nan_to_num(a, nan=12345.0), torch.nan_to_num(b, nan=12345.0)) and torch.equal(
        torch.isnan(a) if a.is_floating_point() else torch.zeros(()), torch.isnan(b) if b.is_floating_point() else torch.zeros(())
    )


def brief(v):
    if v is None:
        return None
    if isinstance(v, Unset):
        return f"<unset:{v.name}>"
    if isinstance(v, Raised):
        return v.name
    if isinstance(v, WeightedTensor):
        return {"value": brief(v.value), "weight": brief(v.weight)}
    if isinstance(v, torch.Tensor):
        return v.flatten()[:8].tolist() if v.numel() else []
    return repr(v)


# --------------------------------------------------------------------------------------
# the reference state
# --------------------------------------------------------------------------------------
def _rb(mask, ndim):
    """right-broadcast a (n,) mask to `ndim` dims"""
    return mask.reshape(mask.shape + (1,) * max(ndim - mask.ndim, 0))


def ref_where(mask, old, cur):
    if isinstance(old, WeightedTensor) or isinstance(cur, WeightedTensor):
        ov = old.value if isinstance(old, WeightedTensor) else old
        cv = cur.value if isinstance(cur, WeightedTensor) else cur
        w = old.weight if isinstance(old, WeightedTensor) else cur.weight
        return WeightedTensor(torch.where(_rb(mask, ov.ndim), ov, cv), w)
    return torch.where(_rb(mask, old.ndim), old, cur)


class RefState:
    def __init__(self, dag, fork_mode=None):
        self.dag = dag
        self.fork_mode = fork_mode
        self.indep = {}
        self.snap = None
        self.dropped_by_unforked_set = False
        self.clear()

    def clear(self):
        self.indep = {
            n: (v.value if isinstance(v, Hyperparameter) else None) for n, v in self.dag.variables.items() if not isinstance(v, LinkedVariable)
        }
        self.snap = None
        self.dropped_by_unforked_set = False

    def set(self, name, value):
        # documented: the fork is "held until either reversion or a new assignment"
        self.dropped_by_unforked_set = self.fork_mode is None and (self.snap is not None or self.dropped_by_unforked_set)
        self.snap = {name: self.indep[name]} if self.fork_mode is not None else None
        self.indep[name] = value

    def put(self, name, value, indices=(), accumulate=False):
        if indices == () and not accumulate:
            return self.set(name, value)
        old = self.indep[name]
        if old is None:
            raise Unset(name)
        if indices == ():
            new = old + value
        else:
            idx = tuple(torch.tensor(i) for i in indices)
            ov = old.value if isinstance(old, WeightedTensor) else old
            nv = ov.clone()
            if accumulate:
                nv[idx] = nv[idx] + value
            else:
                nv[idx] = value
            new = WeightedTensor(nv, old.weight) if isinstance(old, WeightedTensor) else nv
        self.set(name, new)

    def revert(self, mask=None):
        if self.snap is None:
            raise Unset("<fork>")
        if mask is None:
            self.indep.update(self.snap)
        else:
            m = mask.to(torch.bool)
            for k, old in self.snap.items():
                cur = self.indep[k]
                self.indep[k] = None if (old is None or cur is None) else ref_where(m, old, cur)
        self.snap = None

    def clone(self, disable_auto_fork=False, keep_last_fork=False):
        r = RefState.__new__(RefState)
        r.dag = self.dag
        r.fork_mode = None if disable_auto_fork else self.fork_mode
        r.indep = dict(self.indep)  # values are never mutated in place by the reference
        r.snap = dict(self.snap) if (keep_last_fork and self.snap is not None) else None
        r.dropped_by_unforked_set = self.dropped_by_unforked_set and keep_last_fork
        return r

    def value(self, name):
        return scratch_eval(self.dag, self.indep, [name])[name]

    def all_values(self):
        return scratch_eval(self.dag, self.indep)


# --------------------------------------------------------------------------------------
# toy graphs
# --------------------------------------------------------------------------------------
def _agg(x):
    return x.sum(dim=0)


OPS = {
    # name: (arity, function source using a,b ; kinds accepted -> kind produced handled by generator)
    "add": "a + b",
    "mul": "a * b",
    "sub2": "a - 2 * b",
    "tanh": "torch.tanh(a)",
    "exp": "torch.exp(a)",
    "sq": "a * a",
}


def make_toy(rng):
    """Random toy graph. Returns (dag, meta) where meta[name] = dict(kind='pop'|'ind'|'agg'|'hyper', shape, indwise).

    kinds: pop = no individual axis; ind = leading individual axis, individual-wise;
           agg = derived from a reduction over individuals (possibly broadcast back to n rows).
    """
    n = int(rng.integers(2, 6))
    k = int(rng.integers(1, 4))
    n_nodes = int(rng.integers(3, 10))
    defs, meta, order = {}, {}, []
    n_indep = int(rng.integers(2, max(3, n_nodes // 2 + 1)))
    # independent nodes: at least one ind and one pop
    kinds = ["ind", "pop"] + [str(rng.choice(["ind", "pop", "hyper"])) for _ in range(n_indep - 2)]
    names = [f"v{int(i)}" for i in rng.permutation(60)[:n_nodes]]
    for nm, kd in zip(names[:n_indep], kinds):
        if kd == "hyper":
            shape = ()
            defs[nm] = Hyperparameter(torch.tensor(float(rng.normal())))
            meta[nm] = dict(kind="hyper", shape=shape, indwise=True, axis=False, indep=True)
        elif kd == "pop":
            shape = () if rng.random() < 0.5 else (k,)
            defs[nm] = DataVariable()
            meta[nm] = dict(kind="pop", shape=shape, indwise=True, axis=False, indep=True)
        else:
            shape = (n,) if rng.random() < 0.5 else (n, k)
            defs[nm] = DataVariable()
            meta[nm] = dict(kind="ind", shape=shape, indwise=True, axis=True, indep=True)
        order.append(nm)
    g = {"torch": torch, "_agg": _agg}
    for nm in names[n_indep:]:
        # choose parents among existing nodes; make sure every indep gets used eventually
        unused = [x for x in order if not any(x in meta[y].get("parents", ()) for y in order)]
        for _ in range(20):
            a = str(rng.choice(unused)) if unused and rng.random() < 0.7 else str(rng.choice(order))
            b = str(rng.choice(order))
            sa, sb = meta[a]["shape"], meta[b]["shape"]
            op = str(rng.choice(["add", "mul", "sub2", "tanh", "exp", "sq", "agg", "rowsum", "outer"]))
            if op in ("tanh", "exp", "sq"):
                src, parents, shape = OPS[op], (a,), sa
            elif op == "agg":
                if not meta[a]["axis"]:
                    continue
                src, parents, shape = "_agg(a)", (a,), sa[1:]
            elif op == "rowsum":
                if len(sa) != 2 or not meta[a]["axis"]:
                    continue
                src, parents, shape = "a.sum(dim=1)", (a,), sa[:1]
            elif op == "outer":
                if not (sa == (n,) and sb == (n, k)) or a == b:
                    continue
                src, parents, shape = "a[:, None] * b", (a, b), (n, k)
            else:
                if a == b:
                    continue
                # broadcast-compatible shapes among (), (k,), (n,), (n,k)
                try:
                    shape = tuple(torch.broadcast_shapes(sa, sb))
                except RuntimeError:
                    continue
                if shape not in ((), (k,), (n,), (n, k)) or (sa == (n,) and sb == (k,)) or (sa == (k,) and sb == (n,)):
                    continue
                if n == k and {sa, sb} == {(n,), (n, k)}:
                    continue  # ambiguous broadcasting when n == k
                src, parents, shape = OPS[op], (a, b), shape
            break
        else:
            a = order[0]
            src, parents, shape = "torch.tanh(a)", (a,), meta[a]["shape"]
        pa = sorted(set(parents))
        body = src
        # rename a,b to the real names
        amap = {"a": parents[0], "b": parents[-1]}
        body = "".join(amap.get(tok, tok) if tok in ("a", "b") else tok for tok in _tokenize(body))
        f = eval(f"lambda *, {', '.join(pa)}: {body}", g)
        defs[nm] = LinkedVariable(f)
        is_agg = op == "agg"
        indwise = (not is_agg) and all(meta[p]["indwise"] for p in pa)
        axis = len(shape) >= 1 and shape[0] == n and any(meta[p]["axis"] for p in pa) and not is_agg
        meta[nm] = dict(kind="derived", shape=shape, indwise=indwise, axis=axis, indep=False, parents=pa, src=f"{body}")
        order.append(nm)
    # optional weighted data node (values on a small lattice incl. exact zeros, boolean or integer weights) with a weighted per-individual
    # sum and a weight count depending on it: assignments that change ONLY the weights must invalidate both
    if rng.random() < 0.4:
        from leaspy.utils.weighted_tensor import sum_dim, wsum_dim_return_sum_of_weights_only

        g2 = dict(g, sum_dim=sum_dim, wcount=wsum_dim_return_sum_of_weights_only)
        defs["wd"] = DataVariable()
        meta["wd"] = dict(kind="ind", shape=(n, k), indwise=True, axis=True, indep=True, weighted=True)
        order.append("wd")
        defs["wd_sum"] = LinkedVariable(eval("lambda *, wd: sum_dim(wd, but_dim=0)", g2))
        meta["wd_sum"] = dict(kind="derived", shape=(n,), indwise=True, axis=True, indep=False, parents=["wd"], src="sum_dim(wd, but_dim=0)")
        order.append("wd_sum")
        defs["wd_n"] = LinkedVariable(eval("lambda *, wd: wcount(wd, but_dim=0)", g2))
        meta["wd_n"] = dict(kind="derived", shape=(n,), indwise=True, axis=True, indep=False, parents=["wd"], src="count of weights of wd per individual")
        order.append("wd_n")
    # ensure no isolated node: link unused indep into a final node
    used = set()
    for nm in order:
        used |= set(meta[nm].get("parents", ()))
    lonely = [x for x in order if meta[x]["indep"] and x not in used]
    for i, x in enumerate(lonely):
        nm = f"w{i}"
        defs[nm] = LinkedVariable(eval(f"lambda *, {x}: torch.tanh({x})", g))
        meta[nm] = dict(kind="derived", shape=meta[x]["shape"], indwise=meta[x]["indwise"], axis=meta[x]["axis"], indep=False, parents=[x], src=f"tanh({x})")
        order.append(nm)
    dag = VariablesDAG.from_dict(defs)
    info = dict(n=n, k=k, meta=meta, order=order)
    return dag, info


def make_layered(rng):
    """Structured graph with MANY distinct paths between a root and the leaves (width-2 fully connected layers, stacked diamonds or a
    complete DAG): path counts 2^L reach multiples of 256, which random sparse graphs never do."""
    n = int(rng.integers(2, 5))
    style = str(rng.choice(["layers", "diamonds", "complete"]))
    g = {"torch": torch}
    defs, meta, order = {}, {}, []

    def indep(nm, kind):
        shape = (n,) if kind == "ind" else ()
        defs[nm] = DataVariable()
        meta[nm] = dict(kind=kind, shape=shape, indwise=True, axis=kind == "ind", indep=True)
        order.append(nm)

    def link(nm, parents, body):
        defs[nm] = LinkedVariable(eval(f"lambda *, {', '.join(sorted(set(parents)))}: {body}", g))
        shape = (n,) if any(meta[p]["axis"] for p in parents) else ()
        meta[nm] = dict(kind="derived", shape=shape, indwise=all(meta[p]["indwise"] for p in parents), axis=len(shape) == 1, indep=False,
                        parents=sorted(set(parents)), src=body)
        order.append(nm)

    indep("r0", "ind")
    indep("p0", "pop")
    if style == "layers":
        L = int(rng.integers(4, 11))
        link("a1", ["r0", "p0"], "0.5 * r0 + p0")
        link("b1", ["r0"], "0.25 * r0")
        for l in range(2, L + 1):
            link(f"a{l}", [f"a{l-1}", f"b{l-1}"], f"0.5 * a{l-1} + 0.25 * b{l-1}")
            link(f"b{l}", [f"a{l-1}", f"b{l-1}"], f"0.25 * a{l-1} - 0.5 * b{l-1}")
        link("top", [f"a{L}", f"b{L}"], f"a{L} + b{L}")
    elif style == "diamonds":
        D = int(rng.integers(3, 11))
        prev = "r0"
        for d in range(D):
            link(f"l{d}", [prev], f"0.5 * {prev}")
            link(f"m{d}", [prev, "p0"] if d == 0 else [prev], f"0.25 * {prev}" + (" + p0" if d == 0 else ""))
            link(f"j{d}", [f"l{d}", f"m{d}"], f"l{d} - m{d}")
            prev = f"j{d}"
        link("top", [prev], f"torch.tanh({prev})")
    else:
        N = int(rng.integers(4, 11))
        names = ["r0"]
        for j in range(1, N):
            ps = list(names) + (["p0"] if j == 1 else [])
            link(f"c{j}", ps, " + ".join(f"{0.5 ** (k + 1)} * {p}" for k, p in enumerate(ps)))
            names.append(f"c{j}")
    dag = VariablesDAG.from_dict(defs)
    return dag, dict(n=n, k=1, meta=meta, order=order)


def _tokenize(s):
    out, cur = [], ""
    for ch in s:
        if ch.isalnum() or ch == "_":
            cur += ch
        else:
            if cur:
                out.append(cur)
                cur = ""
            out.append(ch)
    if cur:
        out.append(cur)
    return out


def rand_value(rng, shape, extreme=0.0):
    v = torch.tensor(rng.normal(size=shape), dtype=torch.float32)
    if extreme and rng.random() < extreme:
        c = int(rng.integers(0, 4))
        if v.ndim == 0:
            v = torch.tensor([200.0, -200.0, 1e30, float("nan")][c])
        else:
            flat = v.flatten().clone()
            flat[int(rng.integers(0, flat.numel()))] = [200.0, -200.0, 1e30, float("nan")][c]
            v = flat.reshape(v.shape)
    return v


# --------------------------------------------------------------------------------------
# individual-wise nodes of a model graph, by perturbation
# --------------------------------------------------------------------------------------
def indwise_by_perturbation(dag, indep, ind_vars, n):
    """Nodes whose row i depends only on individual i's latent values (and that carry the axis).

    Perturb individual 0's latent values; a node is individual-wise iff it has a leading axis of
    length n and only its row 0 moved (or it did not move at all and has that axis / is unrelated).
    Returns (indwise:set, axis:set) over all nodes that can be evaluated.
    """
    base = scratch_eval(dag, indep)
    pert = dict(indep)
    for v in ind_vars:
        x = indep[v].clone()
        x[0] = x[0] + 0.37
        pert[v] = x
    moved = scratch_eval(dag, pert)
    indwise, axis = set(), set()

    def val(x):
        return x.value if isinstance(x, WeightedTensor) else x

    from vf.refmodel import dagref

    up = dagref.closure(list(dag.variables), {k: set(dag.direct_ancestors[k]) for k in dag.variables})
    for name in dag.variables:
        a, b = base[name], moved[name]
        related = name in ind_vars or any(v in up[name] for v in ind_vars)
        if not related:
            indwise.add(name)  # does not depend on any individual latent variable: always safe to read
            continue
        if isinstance(a, (Unset, Raised)) or isinstance(b, (Unset, Raised)):
            continue
        a, b = val(a), val(b)
        if a.is_floating_point() and not (torch.isfinite(a).all() and torch.isfinite(b).all()):
            continue  # the perturbation test is blind on non-finite values: conservatively NOT readable before a partial revert
        has_axis = a.ndim >= 1 and a.shape[0] == n
        if has_axis:
            axis.add(name)
        if a.shape != b.shape:
            continue
        diff = ~((a == b) | (torch.isnan(a) & torch.isnan(b))) if a.is_floating_point() else (a != b)
        # a node that depends on individual latent variables is individual-wise only if it carries the axis and only row 0 moved
        # (a 0-d total that did not move at float precision - e.g. dominated by one 1e22 term - is still an aggregate)
        if has_axis and diff[0].any() and not diff[1:].any():
            indwise.add(name)
    return indwise, axis


# --------------------------------------------------------------------------------------
# history executor: applies the same op to the real State and to RefState, compares
# --------------------------------------------------------------------------------------
FORKS = {"none": None, "ref": StateForkType.REF, "copy": StateForkType.COPY}


class HistoryRunner:
    """Drives one random history.  `settable`: name -> dict(shape=..., axis=bool); `readable`: list of names;
    `indwise`: set of names safe to read between an assignment and a partial revert."""

    def __init__(self, dag, real, ref, settable, readable, indwise, n, rng, on_violation, extreme=0.0, perturb=False, prop="C01"):
        self.dag, self.real, self.ref = dag, real, ref
        self.settable, self.readable, self.indwise, self.n = settable, readable, indwise, n
        self.rng, self._on_violation, self.extreme, self.perturb = rng, on_violation, extreme, perturb
        self.dead = False  # after the first divergence the two states no longer correspond: stop the history
        self.log = []
        self.window = None  # name of the axis variable assigned under fork since the last decision, if partial revert still admissible
        self.stats = {}
        self.parked = []  # (real_state, ref_state) originals left behind by clone ops
        self.prop = prop

    def c(self, k, n=1):
        self.stats[k] = self.stats.get(k, 0) + n

    def viol(self, key, what, log, **obs):
        if self.dead:
            return
        self.dead = True
        self._on_violation(key, what, log, **obs)

    # --- helpers ---------------------------------------------------------------------
    def _new_weighted(self, name, cur):
        shape = self.settable[name]["shape"]
        lattice = torch.tensor([0.0, 0.0, 0.5, 1.0, 2.0])
        style = int(self.rng.integers(0, 4)) if cur is not None else 0
        if style == 0 or not isinstance(cur, WeightedTensor) or cur.weight is None:
            v = lattice[torch.tensor(self.rng.integers(0, len(lattice), size=shape))]
            if self.rng.random() < 0.2:
                # a weighted value that carries no weights at all (how the library itself hands the requested ages to a state for predictions)
                self.c("weighted_assignments_without_weights")
                return WeightedTensor(v)
            w = torch.tensor(self.rng.integers(0, 3, size=shape)) if self.rng.random() < 0.5 else torch.tensor(self.rng.random(shape) < 0.7)
            return WeightedTensor(v, w)
        if style == 1:  # same numbers, entries worth exactly 0 become masked (the weighted content is unchanged, the weights are not)
            w = cur.weight.clone()
            w[(cur.value == 0) & (torch.tensor(self.rng.random(shape) < 0.7))] = 0
            return WeightedTensor(cur.value.clone(), w)
        if style == 2:  # trade value against weight where both are non-zero (v*w unchanged)
            v, w = cur.value.clone(), cur.weight.clone()
            if w.dtype == torch.bool:
                w = w.long()
            sel = (v == 2.0) & (w == 1)
            v[sel], w[sel] = 1.0, 2
            return WeightedTensor(v, w)
        # style 3: only the weights change (random re-masking)
        w = cur.weight.clone()
        flip = torch.tensor(self.rng.random(shape) < 0.3)
        w = torch.where(flip, torch.zeros_like(w), w)
        return WeightedTensor(cur.value.clone(), w)

    def _new_value(self, name):
        info = self.settable[name]
        cur = self.ref.indep.get(name)
        live = self.real._values.get(name) if hasattr(self.real, "_values") else None
        if live is not None and self.rng.random() < 0.06:
            # a move that proposes the current point: the very object the state already holds is assigned again
            self.c("assignments_of_the_object_already_held")
            return live
        if info.get("weighted"):
            self.c("weighted_assignments")
            return self._new_weighted(name, cur)
        if self.perturb and cur is not None:
            base = cur.value if isinstance(cur, WeightedTensor) else cur
            if not base.is_floating_point():
                return cur
            delta = torch.tensor(self.rng.normal(size=tuple(base.shape)) * info.get("scale", 0.1), dtype=base.dtype)
            if self.extreme and self.rng.random() < self.extreme and base.numel():
                flat = delta.flatten().clone()
                flat[int(self.rng.integers(flat.numel()))] = float(self.rng.choice([200.0, -200.0, 1e30, float("nan"), float("inf")]))
                delta = flat.reshape(base.shape)
            nv = base + delta
            return WeightedTensor(nv, cur.weight) if isinstance(cur, WeightedTensor) else nv
        return rand_value(self.rng, info["shape"], self.extreme) * getattr(self, "value_scale", 1.0)

    def _forbidden_now(self, name):
        """True if reading `name` now would break the documented partial-revert precondition."""
        if self.window is None:
            return False
        return name in self.dag.sorted_children[self.window] and name not in self.indwise

    def _expect_pair(self, label, do_real, do_ref):
        """Run op on both; the reference decides whether an input error is expected."""
        exp_err = None
        try:
            do_ref()
        except Unset as e:
            exp_err = e
        try:
            do_real()
            got_err = None
        except LeaspyInputError as e:
            got_err = e
        except AssertionError as e:
            got_err = e
        except Exception as e:
            got_err = e
            if any(isinstance(v, Raised) for v in self.ref.all_values().values()):
                self.c("op_raised_because_definition_raises")
                return False
        if (exp_err is None) != (got_err is None):
            if exp_err is not None and exp_err.name == "<fork>" and self.ref.dropped_by_unforked_set:
                self.viol("state.setitem/unforked-assignment-keeps-stale-fork",
                          f"{label}: a fork taken before an un-forked assignment is still revertible (documented: held until reversion "
                          "or a new assignment); reverting it serves stale derived values", self.log)
            elif exp_err is not None:
                self.viol(f"state/{label}/missing-input-error",
                          f"{label}: needs unset '{exp_err.name}' but the real state answered instead of raising an input error", self.log)
            else:
                self.viol(f"state/{label}/spurious-error", f"{label}: real state raised {got_err!r} although everything needed is set", self.log)
            return False
        return exp_err is None

    # --- ops -------------------------------------------------------------------------
    def op_read(self, name=None):
        cands = [x for x in self.readable if not self._forbidden_now(x)]
        if name is None:
            name = str(self.rng.choice(cands))
        elif self._forbidden_now(name):
            self.window = None  # precondition given up: only full revert judged from now on
        self.log.append(("read", name))
        want = self.ref.value(name)
        self.c("reads")
        # the documented read accessors: state[name], get_tensor_value(name), get_tensor_values([...]) (plain tensors: weighted values
        # come back as weight * zero-filled value)
        api = ("getitem", "getitem", "getitem", "tensor", "tensors")[int(self.rng.integers(5))] if hasattr(self.real, "get_tensor_value") else "getitem"
        try:
            if api == "getitem":
                got = self.real[name]
            elif api == "tensor":
                got = self.real.get_tensor_value(name)
            else:
                got = self.real.get_tensor_values([name])[0]
            if api != "getitem":
                self.c("reads_through_tensor_accessors")
                if isinstance(want, WeightedTensor):
                    self.c("reads_of_weighted_values_through_tensor_accessors")
                    want = want.weighted_value
        except Exception as e:
            if isinstance(want, Raised):
                if type(e) is type(want.exc):
                    self.c("reads_definition_raised_on_both")
                else:
                    self.viol("state/read/other-exception", f"read '{name}': definition raises {type(want.exc).__name__} but the state raised {e!r}", self.log)
            elif isinstance(want, Unset):
                if isinstance(e, LeaspyInputError):
                    self.c("reads_unset_raised")
                else:
                    self.viol("state/read/unset-not-input-error", f"read '{name}' needs unset '{want.name}' but raised {e!r} instead of an input error", self.log)
            else:
                self.viol("state/read/spurious-error", f"read '{name}' raised {e!r} though all needed independent values are set", self.log)
            return
        if isinstance(want, Unset):
            self.viol("state/read/missing-input-error", f"read '{name}' needs unset '{want.name}' but returned a value", self.log, got=brief(got))
            return
        if isinstance(want, Raised):
            self.viol(self._stale_key(), f"read '{name}' returned a value although its definition raises on the current values (stale)", self.log, got=brief(got))
            return
        if not isinstance(self.dag[name], LinkedVariable):
            self.c("reads_indep")
        else:
            self.c("reads_derived")
        if not same(got, want):
            self.viol(self._stale_key(), f"read '{name}' differs from from-scratch evaluation", self.log, got=brief(got), want=brief(want))

    def _stale_key(self):
        last = next((op[0] for op in reversed(self.log) if op[0] not in ("read", "quiescent")), "init")
        return f"state/stale-after-{last}"

    def op_set(self, name=None, value="new", fork=None):
        name = name or str(self.rng.choice(list(self.settable)))
        v = self._new_value(name) if isinstance(value, str) else value
        self.log.append(("set", name, brief(v), fork))
        if fork is not None:  # context-manager form
            with self.real.auto_fork(FORKS[fork]):
                self.real[name] = v
            old = self.ref.fork_mode
            self.ref.fork_mode = FORKS[fork]
            self.ref.set(name, v)
            self.ref.fork_mode = old
            forked = FORKS[fork] is not None
        else:
            self.real[name] = v
            self.ref.set(name, v)
            forked = self.ref.fork_mode is not None
        self.c("sets")
        # a per-individual revert of a *weighted* (data) variable whose weights changed is explicitly refused by WeightedTensor arithmetic
        # (NotImplementedError "weights differ"): not a stale answer, and not something a sampler does - such windows are not opened
        self.window = name if (forked and self.settable[name].get("axis") and not self.settable[name].get("weighted")) else None

    def op_unset(self):
        name = str(self.rng.choice(list(self.settable)))
        self.op_set(name, None)
        self.log[-1] = ("unset", name)

    def op_put(self):
        name = str(self.rng.choice(list(self.settable)))
        cur = self.ref.indep.get(name)
        shape = self.settable[name]["shape"] if cur is None else tuple((cur.value if isinstance(cur, WeightedTensor) else cur).shape)
        acc = bool(self.rng.random() < 0.6)
        depth = int(self.rng.integers(0, len(shape) + 1))
        idx = tuple(int(self.rng.integers(0, shape[d])) for d in range(depth))
        sub = shape[depth:]
        scale = self.settable[name].get("scale", 1.0) if self.perturb else 1.0
        if cur is not None and not (cur.value if isinstance(cur, WeightedTensor) else cur).is_floating_point():
            return
        dt = torch.float32 if cur is None else (cur.value if isinstance(cur, WeightedTensor) else cur).dtype
        v = torch.tensor(self.rng.normal(size=sub) * scale, dtype=dt)
        if self.extreme and self.rng.random() < self.extreme:
            v = v + float(self.rng.choice([200.0, -200.0, 1e30]))
        self.log.append(("put", name, idx, acc, brief(v)))
        ok = self._expect_pair(
            "put",
            lambda: self.real.put(name, v, indices=idx, accumulate=acc),
            lambda: self.ref.put(name, v, indices=idx, accumulate=acc),
        )
        self.c("puts")
        if ok:
            self.window = name if (self.ref.fork_mode is not None and self.settable[name].get("axis") and not self.settable[name].get("weighted")) else None

    def op_revert(self):
        self.log.append(("revert",))
        self._expect_pair("revert", lambda: self.real.revert(), lambda: self.ref.revert())
        self.c("reverts_full")
        self.window = None

    def op_prevert(self, mask=None):
        """Partial revert — only where the documented precondition holds."""
        if self.window is None or self.ref.snap is None or self.window not in self.ref.snap:
            return False
        if mask is None:
            style = int(self.rng.integers(0, 4))
            mask = {0: torch.ones(self.n, dtype=torch.bool), 1: torch.zeros(self.n, dtype=torch.bool)}.get(
                style, torch.tensor(self.rng.random(self.n) < 0.5))
        self.log.append(("partial_revert", mask.tolist()))
        self._expect_pair("partial_revert", lambda: self.real.revert(mask), lambda: self.ref.revert(mask))
        self.c("reverts_partial")
        self.window = None
        return True

    def op_clone(self):
        daf, klf = bool(self.rng.random() < 0.5), bool(self.rng.random() < 0.5)
        self.log.append(("clone", {"disable_auto_fork": daf, "keep_last_fork": klf}))
        new_real = self.real.clone(disable_auto_fork=daf, keep_last_fork=klf)
        new_ref = self.ref.clone(disable_auto_fork=daf, keep_last_fork=klf)
        self.parked.append((self.real, self.ref.clone(keep_last_fork=True), len(self.log)))
        self.real, self.ref = new_real, new_ref
        if not klf:
            self.window = None
        self.c("clones")

    def op_fork(self):
        mode = str(self.rng.choice(list(FORKS)))
        self.log.append(("fork_mode", mode))
        self.real.auto_fork_type = FORKS[mode]
        self.ref.fork_mode = FORKS[mode]
        self.c("fork_switches")

    def op_clear(self):
        self.log.append(("clear",))
        self.real.clear()
        self.ref.clear()
        self.window = None
        self.c("clears")

    def op_precompute(self):
        if self.window is not None:
            return
        self.log.append(("precompute_all",))
        unset = [n for n, v in self.ref.indep.items() if v is None]

        def ref_do():
            if unset:
                raise Unset(unset[0])

        self._expect_pair("precompute_all", self.real.precompute_all, ref_do)
        self.c("precomputes")

    # --- invariants ------------------------------------------------------------------
    def op_badset(self):
        """An assignment the state must refuse (derived variable, hyperparameter, unknown name), through every assignment form: it is
        reported as an input error and leaves no trace - values, cache and the pending fork (a later revert) are as if it was never tried."""
        nonset = [n for n in self.dag.sorted_variables_names if not getattr(self.dag[n], "is_settable", True) and not self._forbidden_now(n)]
        if not nonset:
            return
        name = str(self.rng.choice(nonset + ["__no_such_variable__"]))
        form = int(self.rng.integers(0, 4))
        if form >= 2 and name != "__no_such_variable__" and isinstance(self.ref.value(name), (Unset, Raised)):
            form -= 2  # the read-modify-write forms first read the variable: not evaluable here, use the plain forms
        self.log.append(("badset", name, form))
        try:
            cur = self.real._values.get(name)
        except Exception:
            cur = None
        val = torch.zeros(()) if (cur is None or not isinstance(cur, torch.Tensor)) else torch.zeros_like(cur)
        try:
            if form == 0:
                self.real[name] = val
            elif form == 1:
                self.real.put(name, val)
            elif form == 2:
                self.real.put(name, val, accumulate=True)
            else:
                idx = (0,) if val.ndim >= 1 and val.shape[0] >= 1 else ()
                self.real.put(name, val[0] if idx else val, indices=idx, accumulate=bool(self.rng.integers(0, 2)))
        except LeaspyInputError:
            self.c("refused_assignments")
        except Exception:
            # refused with another exception type: the statement only asks that nothing stale can be read afterwards (checked below)
            self.c("refused_assignments")
            self.c("refused_assignments_with_another_exception_type")
        else:
            self.viol("state/non-settable-assignment-accepted", f"assignment form {form} (0 item, 1 put, 2 accumulating put, 3 indexed put) of non-settable '{name}' was accepted", self.log)
            return
        self.quiescent(tag="after-refused-assignment")

    def op_device(self):
        """Moving the values to the device they are already on changes nothing (values, cache, pending fork)."""
        self.log.append(("to_device", "cpu"))
        try:
            self.real.to_device(torch.device("cpu"))
        except Exception as e:
            self.viol("state/to_device/raises", f"to_device(cpu) raised {e!r}", self.log)
            return
        self.c("to_device_ops")
        self.quiescent(tag="after-to_device")

    def quiescent(self, state=None, ref=None, tag="quiescent"):
        """Every non-None cache entry equals its from-scratch value; independent entries equal the reference bit-wise."""
        state = state or self.real
        ref = ref or self.ref
        want = ref.all_values()
        n_checked = 0
        for k, v in state._values.items():
            w = want[k]
            if not isinstance(self.dag[k], LinkedVariable):
                wv = None if isinstance(w, (Unset, Raised)) else w
                if (v is None) != (wv is None) or (v is not None and not same(v, wv, rtol=0.0)):
                    self.viol(f"state/independent-value-wrong-after-{self._last_op()}",
                              f"[{tag}] independent '{k}' differs from the reference history", self.log, got=brief(v), want=brief(wv))
                n_checked += 1
                continue
            if v is None:
                continue
            n_checked += 1
            if isinstance(w, (Unset, Raised)):
                self.viol(f"state/cached-though-unset-after-{self._last_op()}", f"[{tag}] '{k}' cached although {w.name} (unset / not evaluable)", self.log)
            elif not same(v, w):
                self.viol(f"state/stale-cache-after-{self._last_op()}", f"[{tag}] cached '{k}' differs from from-scratch value", self.log,
                          got=brief(v), want=brief(w))
        # plain-tensor accessor on the weighted entries that are cached: must agree with the cache it is derived from
        if hasattr(state, "get_tensor_value"):
            for k, v in list(state._values.items()):
                if isinstance(v, WeightedTensor) and not self._forbidden_now(k):
                    try:
                        t = state.get_tensor_value(k)
                    except Exception:
                        continue
                    self.c("tensor_accessor_entries_checked")
                    if not same(t, v.weighted_value):
                        self.viol(f"state/tensor-accessor-stale-after-{self._last_op()}", f"[{tag}] get_tensor_value('{k}') differs from the weighted value held by the state",
                                  self.log, got=brief(t), want=brief(v.weighted_value))
        self.c("cache_entries_checked", n_checked)
        self.c("quiescent_checks")

    def _last_op(self):
        return next((op[0] for op in reversed(self.log) if op[0] not in ("read", "quiescent")), "init")

    def finish(self):
        """Originals left behind by clones must be unaffected by everything done on the clones."""
        for st, rf, at in self.parked:
            self.quiescent(st, rf, tag=f"original-of-clone@{at}")
            for name in self.readable[:6]:
                want = rf.value(name)
                try:
                    got = st[name]
                except Exception:
                    got = None
                if isinstance(want, (Unset, Raised)):
                    if got is not None:
                        self.viol("state/clone-not-independent", f"original state answers unset '{name}' after ops on its clone", self.log)
                elif got is None or not same(got, want):
                    self.viol("state/clone-not-independent", f"original state's '{name}' changed by ops on its clone", self.log, got=brief(got), want=brief(want))
            self.c("clone_originals_checked")

    def random_step(self, weights):
        ops = list(weights)
        p = torch.tensor([weights[o] for o in ops], dtype=torch.float64)
        op = ops[int(self.rng.choice(len(ops), p=(p / p.sum()).numpy()))]
        if op == "prevert":
            if not self.op_prevert():
                self.op_read()
        elif op == "ctxset":
            self.op_set(fork=str(self.rng.choice(list(FORKS))))
        else:
            getattr(self, f"op_{op}")()
