"""C01 — values read from the lazily cached variable graph are never stale.  DESIGN §2/C01.

Oracle: executable reference model (vf.stateharness.RefState) that keeps only the independent values and
evaluates every derived variable from scratch; every read of the real State is compared with it (online),
and after every operation every non-None cache entry is compared as well (quiescent-point invariant).
"""
from __future__ import annotations

RULE = (
    "a case = one random history (5-60 ops over set / unset / put(indices, accumulate) / read / revert / partial revert / clone / "
    "fork-mode switch / clear / precompute_all) on a random toy graph (3-12 nodes, individual-wise and aggregating nodes) or on the "
    "graph of a shipped model kind with a generated cohort loaded; evaluations = histories; distinct_nontrivial = distinct "
    "(graph signature, op-kind sequence) pairs whose history contains at least one derived read after an assignment"
)
REQUIRED = {"reads_derived": 2000, "reverts_partial": 50, "reverts_full": 100, "clones": 100, "quiescent_checks": 1000,
            "model_histories": 10, "reads_unset_raised": 20, "many_path_graphs": 50, "weighted_assignments": 200, "histories_on_unusual_scales": 50, "refused_assignments": 300, "left_broadcast_partial_reverts": 100, "copy_fork_isolation_checks": 50}
ASSUMPTIONS = [
    "the documented precondition of a partial revert is respected by the generator (only individual-wise nodes are read between an "
    "assignment and a per-individual revert); individual-wise = no ancestor aggregates over individuals (toy: by construction; "
    "model graphs: perturbation test)",
    "float32 re-evaluations of the same expression are compared at 1e-6 relative, NaN==NaN",
]

WEIGHTS = {"read": 8, "set": 5, "ctxset": 1.5, "unset": 0.4, "put": 3, "revert": 2, "prevert": 3, "clone": 1, "fork": 1.5,
           "clear": 0.15, "precompute": 0.6, "device": 0.3, "badset": 0.8}


def shards(tier, seed):
    n_toy = 16
    per = 220 if tier == "quick" else 2500
    out = [{"name": f"toy-{k}", "kind": "toy", "n": per, "k": k, "budget_s": 200 if tier == "quick" else 1500} for k in range(n_toy - 4)]
    out += [{"name": f"models-{k}", "kind": "models", "n": 30 if tier == "quick" else 300, "k": k,
             "budget_s": 200 if tier == "quick" else 1500} for k in range(4)]
    return out


def _left_broadcast_reverts(spec, ctx):
    """Partial reverts with the documented standard (left) broadcasting of the subset: a per-column subset on element-wise graphs
    (the caller's responsibility - shapes consistent for the assigned node and all its descendants - is met by construction)."""
    import torch

    from leaspy.variables.dag import VariablesDAG
    from leaspy.variables.specs import DataVariable, LinkedVariable
    from leaspy.variables.state import State, StateForkType
    from vf import stateharness as sh

    dag = VariablesDAG.from_dict({"x": DataVariable(), "a": LinkedVariable(lambda *, x: 2.0 * x + 1.0), "b": LinkedVariable(lambda *, a, x: a * x - 0.5),
                                  "c": LinkedVariable(lambda *, b: b.abs() + 3.0)})
    for j in range(120):
        r = ctx.rng("left-broadcast", spec["k"], j)
        n = int(r.integers(1, 5))
        K = n if j % 2 == 0 else int(r.integers(1, 5))  # square shapes: a mask applied along the wrong axis still "fits"
        fork = (StateForkType.REF, StateForkType.COPY)[j % 3 == 0]
        st = State(dag, auto_fork_type=fork)
        x0 = torch.tensor(r.normal(size=(n, K)), dtype=torch.float32)
        x1 = torch.tensor(r.normal(size=(n, K)), dtype=torch.float32)
        with st.auto_fork(None):
            st["x"] = x0
        pre = int(r.integers(0, 3))  # what is cached before the move
        for nm in ("a", "b", "c")[:pre]:
            st[nm]
        st["x"] = x1
        for nm in ("a", "b", "c"):
            st[nm]
        per_column = bool(j % 4 != 3)
        mask = torch.tensor(r.random(K if per_column else (n, K)) < 0.5)
        case = {"index": -1 - j, "kind": "left-broadcast-revert", "shape": [n, K], "subset_shape": list(mask.shape), "fork": str(fork), "cached_before": pre}
        ctx.evaluated()
        try:
            st.revert(mask, right_broadcasting=False)
        except Exception as e:
            ctx.violation("state/partial-revert-left-broadcasting-raises", f"revert(subset of shape {tuple(mask.shape)}, right_broadcasting=False) on values of shape {(n, K)} "
                          f"raised {type(e).__name__}: {str(e)[:120]}", case)
            continue
        m = mask.expand(n, K)
        xe = torch.where(m, x0, x1)
        want = {"x": xe, "a": 2.0 * xe + 1.0}
        want["b"] = want["a"] * xe - 0.5
        want["c"] = want["b"].abs() + 3.0
        ctx.count("left_broadcast_partial_reverts")
        for nm, w in want.items():
            got = st._values[nm]
            if nm != "x" and got is None:
                continue  # un-cached is always fine: it will be recomputed
            if got is None or not sh.same(got, w):
                ctx.violation("state/stale-cache-after-partial_revert" if nm != "x" else "state/independent-value-wrong-after-partial_revert",
                              f"after revert(per-{'column' if per_column else 'entry'} subset, right_broadcasting=False) '{nm}' is not the mix of old and "
                              "new values the subset selects", case, got=sh.brief(got), want=sh.brief(w))
                break
        else:
            for nm, w in want.items():
                if not sh.same(st[nm], w):
                    ctx.violation("state/stale-cache-after-partial_revert", f"read of '{nm}' after the left-broadcast partial revert differs from the from-scratch value", case)
                    break


def _copy_fork_isolation(spec, ctx):
    """Fork strategy COPY (documented purpose: the snapshot shares no memory with the values it was taken from): the caller recycles, in place,
    the buffer of the value that was replaced; a revert must bring back the numbers the state held, for plain and weighted values alike."""
    import torch

    from leaspy.utils.weighted_tensor import WeightedTensor
    from leaspy.variables.dag import VariablesDAG
    from leaspy.variables.specs import DataVariable, LinkedVariable
    from leaspy.variables.state import State, StateForkType
    from vf import stateharness as sh

    dag = VariablesDAG.from_dict({"x": DataVariable(), "t": DataVariable(), "m": LinkedVariable(lambda *, x, t: x * t), "s": LinkedVariable(lambda *, m: (m * 1.0).sum())})
    for j in range(60):
        r = ctx.rng("copy-fork", spec["k"], j)
        n = int(r.integers(1, 6))
        kind_ = ("plain", "weighted-no-weights", "weighted")[j % 3]

        def mk(vals):
            v = torch.tensor(vals, dtype=torch.float32)
            if kind_ == "plain":
                return v
            return WeightedTensor(v, None if kind_ == "weighted-no-weights" else torch.tensor(r.random(n) < 0.8))

        x0_vals, x1_vals = r.normal(size=n), r.normal(size=n)
        st = State(dag, auto_fork_type=StateForkType.COPY)
        x0 = mk(x0_vals)
        with st.auto_fork(None):
            st["x"] = x0
            st["t"] = torch.tensor(r.normal(size=n), dtype=torch.float32)
        ref_m, ref_s = st["m"], st["s"]
        want_m = (ref_m.weighted_value if isinstance(ref_m, WeightedTensor) else ref_m).clone()
        want_s = (ref_s.weighted_value if isinstance(ref_s, WeightedTensor) else ref_s).clone()
        st["x"] = mk(x1_vals)  # proposal under COPY fork
        st["m"]
        buf = x0.value if isinstance(x0, WeightedTensor) else x0
        buf.fill_(7.0)  # the caller recycles its old buffer
        st.revert()
        ctx.evaluated()
        ctx.count("copy_fork_isolation_checks")
        case = {"index": -1000 - j, "kind": "copy-fork-isolation", "value_kind": kind_}
        gx = st["x"]
        gx = gx.value if isinstance(gx, WeightedTensor) else gx
        gm, gs = st["m"], st["s"]
        gm = gm.weighted_value if isinstance(gm, WeightedTensor) else gm
        gs = gs.weighted_value if isinstance(gs, WeightedTensor) else gs
        if not sh.same(gx, torch.tensor(x0_vals, dtype=torch.float32)):
            ctx.violation("state/independent-value-wrong-after-revert", f"fork strategy COPY, {kind_} value: after the rejection the variable holds numbers written by the "
                          "caller into its old buffer, not the value the state held before the proposal", case, got=sh.brief(gx))
        elif not sh.same(gm, want_m) or not sh.same(gs, want_s):
            ctx.violation("state/stale-cache-after-revert", f"fork strategy COPY, {kind_} value: derived values after the rejection differ from those before the proposal", case)


def run_shard(spec, ctx):
    import torch

    from vf import gen
    from vf import stateharness as sh
    from vf.checks.c15 import install_contract

    install_contract()  # C15's closure contract stays on for every DAG built here (DESIGN §3)
    kind = spec["kind"]

    def mk_viol(case):
        def v(key, what, log, **obs):
            ctx.violation(key, what, dict(case, history=[list(map(str, op)) for op in log[-25:]]), **obs)
        return v

    if kind == "toy" and spec["k"] % 4 == 0:
        _left_broadcast_reverts(spec, ctx)
    if kind == "toy" and spec["k"] % 4 == 1:
        _copy_fork_isolation(spec, ctx)
    for i in ctx.cases(spec["n"]):
        rng = ctx.rng(kind, spec["k"], i)
        case = {"index": i, "kind": kind}
        if kind == "toy":
            from vf.checks.c15 import ContractBroken

            try:
                dag, info = sh.make_layered(rng) if i % 8 == 7 else sh.make_toy(rng)
            except ContractBroken as e:
                # the always-on C15 contract: the invalidation lists State relies on are not the exact descendants => stale reads
                ctx.violation("state/invalidation-lists-not-exact-descendants", f"the dependency graph handed to State misreports descendants/ancestors: {str(e)[:200]}",
                              dict(case, graph="layered" if i % 8 == 7 else "toy"))
                continue
            if i % 8 == 7:
                ctx.count("many_path_graphs")
            meta = info["meta"]
            settable = {n: dict(shape=m["shape"], axis=m["axis"], weighted=bool(m.get("weighted"))) for n, m in meta.items() if m["indep"] and m["kind"] != "hyper"}
            readable = list(meta)
            indwise = {n for n, m in meta.items() if m["indwise"]}
            fork0 = str(rng.choice(list(sh.FORKS)))
            real = sh.State(dag, auto_fork_type=sh.FORKS[fork0])
            ref = sh.RefState(dag, fork_mode=sh.FORKS[fork0])
            case.update(graph={n: (m.get("src") or m["kind"]) for n, m in meta.items()}, n=info["n"], fork0=fork0)
            run = sh.HistoryRunner(dag, real, ref, settable, readable, indwise, info["n"], rng, mk_viol(case))
            if i % 8 == 3:
                # quantities living on a very small (or very large) scale, as concentrations in mol/L: every value of the history is scaled
                run.value_scale = float(10.0 ** rng.choice([-16.0, -13.0, -20.0, 12.0]))
                case["value_scale"] = run.value_scale
                ctx.count("histories_on_unusual_scales")
            # initial assignments of most independent variables (some left unset on purpose)
            for nm in settable:
                if rng.random() < 0.85:
                    run.op_set(nm)
            length = int(rng.integers(5, 61))
            sig = ("toy", tuple(sorted((n, m.get("src", m["kind"])) for n, m in meta.items())))
        else:
            g = gen.MODEL_GRID[int(rng.integers(len(gen.MODEL_GRID)))]
            try:
                model, ds, state, df = gen.ready_state(rng, *g, n_ind=int(rng.integers(3, 7)))
            except Exception as e:
                ctx.count("setup_skipped")
                ctx.note(f"setup_skipped_{type(e).__name__}", str(e)[:200])
                continue
            dag = state.dag
            n = ds.n_individuals
            real = state.clone()
            ref = sh.RefState(dag, fork_mode=real.auto_fork_type)
            for nm in ref.indep:
                ref.indep[nm] = state._values[nm]
            ind_vars = list(model.individual_variables_names)
            indwise, axis = sh.indwise_by_perturbation(dag, ref.indep, ind_vars, n)
            settable = {}
            for nm in list(model.individual_variables_names) + list(model.population_variables_names) + list(model.parameters_names):
                cur = ref.indep[nm]
                sc = 0.3 if nm in ind_vars else 0.05
                settable[nm] = dict(shape=tuple(cur.shape), axis=nm in ind_vars, scale=sc)
            readable = list(dag.variables)
            case.update(model=list(map(str, g)), n=n)
            run = sh.HistoryRunner(dag, real, ref, settable, readable, indwise, n, rng, mk_viol(case), perturb=True)
            length = int(rng.integers(10, 41))
            sig = ("model",) + tuple(map(str, g))
            ctx.count("model_histories")
            ctx.note(f"indwise_{g[0]}", sorted(indwise & set(dag.sorted_children.get("xi", ())))[:12])
        w = dict(WEIGHTS)
        if kind == "models":
            w.update(unset=0.1, clear=0.0, precompute=0.3)
        for _ in range(length):
            run.random_step(w)
            run.quiescent()
            if run.dead:
                break
        run.finish()
        ctx.evaluated()
        for k, v in run.stats.items():
            ctx.count(k, v)
        opseq = tuple(op[0] for op in run.log)
        nontrivial = any(a in ("set", "put", "revert", "partial_revert") and b == "read" for a, b in zip(opseq, opseq[1:]))
        if nontrivial:
            ctx.distinct(sig, opseq)
        if i < 1:
            ctx.sample({"kind": kind, "graph_or_model": case.get("graph") or case.get("model"), "history": [list(map(str, op)) for op in run.log[:14]]}, limit=1)
