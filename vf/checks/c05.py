"""C05 — sufficient statistics follow the stochastic-approximation schedule.  DESIGN §2/C05.

Oracle: offline checker over the trace recorded by MStepProbe at every iteration of real runs: (k, s_k returned by
compute_sufficient_statistics, S_{k-1}, S_k stored on the algorithm).  The recursion is replayed in float64:
k <= n_burn or k == n_burn+1  ->  S_k == s_k ;  k >= n_burn+2  ->  S_k == (1-e_k) S_{k-1} + e_k s_k, e_k=(k-n_burn)^-power.
Plus: length of the memory-less phase from the configured fraction / count; refusal of step powers outside (0.5, 1].
"""
from __future__ import annotations

RULE = (
    "a case = one real MCMC-SAEM run for a configuration (n_iter in 1..60, burn-in given as fraction or explicit count incl. 0, 1, "
    "n_iter-1, n_iter, > n_iter; step power in (0.5,1]; model kind) - every iteration's stored statistics are checked against the recursion "
    "replayed from the recorded s_k; plus constructor cases over a grid of step powers. evaluations = (iteration, statistic) comparisons + "
    "constructor cases; distinct_nontrivial = distinct (n_iter, n_burn_in, power, model kind) configurations with at least one with-memory "
    "iteration checked + distinct constructor power values"
)
REQUIRED = {"iter_memoryless": 300, "iter_first_with_memory": 30, "iter_convex": 300, "constructor_refused": 10, "constructor_accepted": 10,
            "burn_in_len_checks": 50, "reruns_of_same_algorithm_object": 5, "burn_in_len_grid_checks": 6000, "reconfigured_algorithm_objects": 5, "fits_with_annealing": 10}
ASSUMPTIONS = [
    "n_burn_in from a fraction: both int(frac*n_iter) in floating point and the exact rational floor are accepted (the statement does not pin "
    "float rounding of the product)",
    "float32 convex combinations compared at rtol 2e-5 + atol 1e-6 against the float64 replay of the SAME recorded inputs; weighted statistics "
    "compared where weight > 0",
]


def shards(tier, seed):
    q = tier == "quick"
    out = [{"name": f"sa-{k}", "kind": "runs", "k": k, "n": 9 if q else 150, "budget_s": 150 if q else 1500} for k in range(15)]
    out.append({"name": "constructor", "kind": "ctor"})
    return out


def run_shard(spec, ctx):
    if spec["kind"] == "ctor":
        return _ctor(spec, ctx)
    import math
    from fractions import Fraction

    import numpy as np

    from leaspy.exceptions import LeaspyAlgoInputError, LeaspyConvergenceError
    from vf import gen
    from vf.checks.c04 import fit_with_probe
    from vf.checks.c15 import install_contract
    from vf.refmodel import mstep as M

    install_contract()
    for i in ctx.cases(spec["n"]):
        rng = ctx.rng("sa", spec["k"], i)
        g = gen.MODEL_GRID[(spec["k"] * 3 + i) % len(gen.MODEL_GRID)]
        kind, dim, src, noise = g
        n_iter = int(rng.integers(1, 61))
        power = float(rng.choice([0.51, 0.6, 0.75, 0.8, 0.9, 1.0, float(rng.uniform(0.5001, 1.0))]))
        mode = ["frac", "count", "count+frac"][(spec["k"] + i) % 3]
        settings = dict(n_iter=n_iter, burn_in_step_power=power, seed=int(rng.integers(1 << 30)))
        if mode == "frac":
            frac = float(rng.choice([0.0, 0.1, 0.29, 1 / 3, 0.5, 0.7, 0.9, 0.999, 1.0, float(rng.uniform(0, 1))]))
            settings["n_burn_in_iter_frac"] = frac
            exact = math.floor(Fraction(frac) * n_iter)
            allowed = {int(frac * n_iter), exact}
        else:
            nb = int(rng.choice([0, 0, 1, max(n_iter - 1, 0), n_iter, n_iter + 3, int(rng.integers(0, n_iter + 1))]))
            settings["n_burn_in_iter"] = nb
            if mode == "count":
                settings["n_burn_in_iter_frac"] = None
            else:  # an explicit count has priority over the (default or given) fraction
                if rng.random() < 0.5:
                    settings["n_burn_in_iter_frac"] = float(rng.choice([0.3, 0.5, 0.9]))
            allowed = {nb}
        if (spec["k"] + i) % 3 == 2:
            # the schedule of the statistics does not depend on the temperature: tempered chains whose annealing outlasts (or not) the memory-less phase
            settings["annealing"] = {"do_annealing": True, "initial_temperature": float(rng.choice([3.0, 10.0])), "n_plateau": int(rng.integers(2, 6)),
                                     "n_iter": None, "n_iter_frac": float(rng.choice([0.3, 0.6, 0.95, 1.0]))}
            ctx.count("fits_with_annealing")
        events = kind == "joint"
        case = {"index": i, "model": list(map(str, g)), "settings": {k: v for k, v in settings.items() if k != "seed"}}
        try:
            df = gen.cohort(rng, n_ind=int(rng.integers(4, 9)), n_feat=dim, missing="mcar", events=events, one_visit_ok=not events,
                            binary=(noise == "bernoulli"))
            ds = gen.to_dataset(df, events=events)
            kw = {"n_clusters": 2} if kind == "mixture_logistic" else {}
            model = gen.make_model(kind, dim, src, noise, **kw) if noise else gen.make_model(kind, dim, src, **kw)
            model.initialize(ds)
        except Exception as e:
            ctx.count("setup_skipped")
            continue
        algo = probe = None
        rerun = bool((spec["k"] + i) % 4 == 0)  # the same algorithm object is run a second time on a fresh model (history of the object)
        try:
            import warnings as _w

            with _w.catch_warnings():
                _w.simplefilter("ignore")
                reconf = None
                if mode == "count" and (spec["k"] + i) % 3 == 1:
                    # the algorithm object is created with other values and reconfigured through `load_parameters` before it runs: the
                    # schedule must follow the values in force when it runs
                    reconf = {"n_burn_in_iter": settings["n_burn_in_iter"], "burn_in_step_power": power}
                    first = dict(settings, n_burn_in_iter=int(rng.integers(0, n_iter + 1)), burn_in_step_power=float(rng.choice([0.55, 0.7, 0.95])))
                    ctx.count("reconfigured_algorithm_objects")
                    case["constructed_with"] = {k: first[k] for k in ("n_burn_in_iter", "burn_in_step_power")}
                    algo, probe = fit_with_probe(model, ds, first, reconfigure=reconf)
                else:
                    algo, probe = fit_with_probe(model, ds, settings)
                first_len = len(probe.records)
                if rerun:
                    from vf.probes.algo import MStepProbe
                    import contextlib, io

                    model2 = gen.make_model(kind, dim, src, noise, **kw) if noise else gen.make_model(kind, dim, src, **kw)
                    model2.initialize(ds)
                    probe2 = MStepProbe(algo, model2)
                    with contextlib.redirect_stdout(io.StringIO()):
                        try:
                            algo.run(model2, ds)
                        finally:
                            probe2.uninstall()
                    ctx.count("reruns_of_same_algorithm_object")
                    probe.records = probe.records + probe2.records
        except LeaspyAlgoInputError as e:
            # the configuration is admissible (power in (0.5, 1], counts >= 0): refusing it breaks "the length of the memory-less phase is the
            # configured fraction unless an explicit count is given"
            ctx.violation("sa/admissible-configuration-refused", f"settings {case['settings']} were refused: {str(e)[:160]}", case)
        except LeaspyConvergenceError:
            ctx.count("fit_aborted_by_convergence_guard")
        except Exception as e:
            # an exception raised by the schedule code itself (innermost frame in _maximization_step) is a refutation: the statistics
            # can not follow the schedule; anything raised deeper (model initialisation, samplers, M-step rules) is not C05's subject
            tb = e.__traceback__
            while tb.tb_next is not None:
                tb = tb.tb_next
            if tb.tb_frame.f_code.co_name == "_maximization_step":
                ctx.violation("sa/schedule-code-raises", f"the stochastic-approximation step raised {type(e).__name__}: {e} at iteration "
                              f"{tb.tb_frame.f_locals.get('self').current_iteration if tb.tb_frame.f_locals.get('self') is not None else '?'}", case)
            else:
                ctx.count("fit_aborted_other")
                ctx.note(f"fit_aborted_{type(e).__name__}", str(e)[:200])
        if probe is None:
            continue
        recs = probe.records
        if not recs:
            continue
        nbi = recs[0]["n_burn_in_iter"]
        ctx.count("burn_in_len_checks")
        if nbi not in allowed:
            ctx.violation("sa/burn-in-length", f"memory-less phase lasts {nbi} iterations, configured {case['settings']} allows {sorted(allowed)}", case)
            continue
        prev = None
        had_memory = False
        bad = False
        for rec in recs:
            k = rec["k"]
            if k == 1:
                prev = None  # a new run of the (possibly reused) algorithm object starts a new schedule
            s_k, S_after = rec["s_k"], rec["S_after"]
            # the statistics handed to the M-step are the stored ones
            for name in S_after:
                if not _close(M, rec["S_used"][name], S_after[name], 0, 0):
                    ctx.violation("sa/mstep-uses-other-statistics", f"iteration {k}: M-step received statistics different from the stored ones ('{name}')", dict(case, k=k))
                    bad = True
                    break
            if bad:
                break
            if k <= nbi or k == nbi + 1:
                phase = "memoryless" if k <= nbi else "first_with_memory"
                for name, v in S_after.items():
                    ctx.evaluated()
                    if not _close(M, v, s_k[name], 0.0, 0.0):
                        ctx.violation(f"sa/{phase}-not-current-statistics", f"iteration {k} (n_burn_in={nbi}): stored '{name}' is not the current iteration's statistic",
                                      dict(case, k=k, statistic=name))
                        bad = True
                        break
                ctx.count(f"iter_{phase}")
            else:
                e_k = float(k - nbi) ** (-power)
                had_memory = True
                for name, v in S_after.items():
                    ctx.evaluated()
                    a, wa = M.f64(prev[name])
                    b, wb = M.f64(s_k[name])
                    want = (1.0 - e_k) * a + e_k * b
                    got, wg = M.f64(v)
                    if (wg is None) != (wb is None) or (wg is not None and not np.array_equal(wg, wb)):
                        ctx.violation("sa/weights-of-statistic-changed", f"iteration {k}: the weights (mask) of the stored statistic '{name}' are not those of the "
                                      "current statistic - the averaged statistic no longer knows which entries are observed", dict(case, k=k, statistic=name))
                        bad = True
                        break
                    sel = wg if wg is not None else np.ones_like(got, dtype=bool)
                    fin = np.isfinite(want) & np.isfinite(got)
                    ok = np.abs(got - want) <= 1e-6 + 2e-5 * np.maximum(np.abs(got), np.abs(want))
                    ok = ok | ~fin & ((got == want) | (np.isnan(got) & np.isnan(want)))
                    if not bool(ok[sel].all()):
                        ctx.violation("sa/convex-combination", f"iteration {k} (n_burn_in={nbi}, power={power}): stored '{name}' is not (1-e_k) S_(k-1) + e_k s_k with e_k={e_k:.6g}",
                                      dict(case, k=k, statistic=name), got=got[sel].reshape(-1)[:5].tolist(), want=want[sel].reshape(-1)[:5].tolist())
                        bad = True
                        break
                ctx.count("iter_convex")
            if bad:
                break
            prev = S_after
        if had_memory and not bad:
            ctx.distinct(n_iter, nbi, round(power, 6), kind)
        if i < 1:
            ctx.sample(dict(case, n_burn_in_iter=nbi, iterations_checked=len(recs)), limit=1)


def _close(M, a, b, rtol, atol):
    import numpy as np

    x, wx = M.f64(a)
    y, wy = M.f64(b)
    if x.shape != y.shape:
        return False
    sel = wx if wx is not None else np.ones_like(x, dtype=bool)
    if wx is not None and wy is not None and not (wx == wy).all():
        return False
    x, y = x[sel], y[sel]
    return bool((np.isclose(x, y, rtol=rtol, atol=atol, equal_nan=True) | (x == y)).all())


def _ctor(spec, ctx):
    from leaspy.algo import AlgorithmSettings, algorithm_factory
    from leaspy.exceptions import LeaspyAlgoInputError

    import numpy as np

    powers = [0.5, 0.5 + 1e-9, 0.500001, 0.51, 0.75, 0.8, 1.0, 1.0 + 1e-9, 1.000001, 1.5, 0.4999999, 0.25, 0.0, -1.0, -0.8, 2.0,
              float("nan"), float("inf")]
    rng = ctx.rng("ctor")
    powers += [float(x) for x in rng.uniform(-0.5, 2.0, size=60)]
    for j, p in enumerate(powers):
        ctx.evaluated()
        ok_expected = (p == p) and (0.5 < p <= 1.0)
        case = {"index": j, "burn_in_step_power": p}
        try:
            algorithm_factory(AlgorithmSettings("mcmc_saem", n_iter=10, burn_in_step_power=p, progress_bar=False))
            accepted = True
        except LeaspyAlgoInputError:
            accepted = False
        except Exception as e:
            ctx.violation("sa/power-refusal-wrong-exception", f"power {p} refused with {type(e).__name__} instead of an algorithm-input error", case)
            continue
        if accepted and not ok_expected:
            ctx.violation("sa/power-outside-range-accepted", f"step power {p} outside (0.5, 1] was accepted", case)
        elif not accepted and ok_expected:
            ctx.violation("sa/power-inside-range-refused", f"step power {p} inside (0.5, 1] was refused", case)
        ctx.count("constructor_accepted" if accepted else "constructor_refused")
        ctx.distinct("ctor", p)
    ctx.sample({"powers_tried": powers[:12]}, limit=1)
    # length of the memory-less phase resolved at construction, over a dense (fraction, n_iter) grid: the configured fraction of the
    # iterations (floor; int() of the float product also accepted), or the explicit count whatever the fraction
    import math
    import warnings
    from fractions import Fraction

    n_checked = 0
    for pct in range(0, 101):
        for n_iter in list(range(1, 61)) + [75, 100, 120, 200, 250, 1000]:
            frac = pct / 100.0
            allowed = {int(frac * n_iter), math.floor(Fraction(frac) * n_iter), math.floor(Fraction(pct, 100) * n_iter)}
            with warnings.catch_warnings():
                warnings.simplefilter("ignore")
                try:
                    a = algorithm_factory(AlgorithmSettings("mcmc_saem", n_iter=n_iter, n_burn_in_iter_frac=frac, progress_bar=False))
                except LeaspyAlgoInputError as e:
                    ctx.violation("sa/admissible-configuration-refused", f"n_iter={n_iter}, n_burn_in_iter_frac={frac} refused: {str(e)[:100]}", {"index": pct * 1000 + n_iter})
                    continue
            got = a.algo_parameters["n_burn_in_iter"]
            n_checked += 1
            if got not in allowed:
                ctx.violation("sa/burn-in-length", f"n_iter={n_iter}, n_burn_in_iter_frac={frac}: memory-less phase resolved to {got}, the configured fraction gives {sorted(allowed)}",
                              {"index": pct * 1000 + n_iter, "n_iter": n_iter, "frac": frac})
    for n_iter in (1, 7, 40, 100):
        for count in (0, 1, n_iter // 2, n_iter, n_iter + 5, np.int64(n_iter // 3), np.int32(max(n_iter - 1, 0)), np.int64(0)):
            for frac in (None, 0.3, 0.9):
                with warnings.catch_warnings():
                    warnings.simplefilter("ignore")
                    try:
                        a = algorithm_factory(AlgorithmSettings("mcmc_saem", n_iter=n_iter, n_burn_in_iter=count, n_burn_in_iter_frac=frac, progress_bar=False))
                    except LeaspyAlgoInputError as e:
                        ctx.violation("sa/admissible-configuration-refused", f"explicit count {count} (fraction {frac}) refused: {str(e)[:100]}", {"index": -1, "n_iter": n_iter, "count": int(count), "count_type": type(count).__name__, "frac": frac})
                        continue
                n_checked += 1
                if a.algo_parameters["n_burn_in_iter"] != count:
                    ctx.violation("sa/burn-in-length", f"explicit count {count} (fraction {frac}, n_iter {n_iter}) resolved to {a.algo_parameters['n_burn_in_iter']}",
                                  {"index": -1, "n_iter": n_iter, "count": int(count), "count_type": type(count).__name__, "frac": frac})
    # one settings object used for several algorithms, its iteration count (or fraction) changed by the caller in between: each algorithm
    # resolves the length from the settings as they are when it is built
    r2 = ctx.rng("ctor-reuse")
    for j in range(60):
        n1, n2 = int(r2.integers(2, 80)), int(r2.integers(2, 80))
        f1, f2 = float(r2.integers(0, 101)) / 100.0, float(r2.integers(0, 101)) / 100.0
        with warnings.catch_warnings():
            warnings.simplefilter("ignore")
            try:
                st_ = AlgorithmSettings("mcmc_saem", n_iter=n1, n_burn_in_iter_frac=f1, progress_bar=False)
                a1 = algorithm_factory(st_)
                st_.parameters["n_iter"] = n2
                if j % 2:
                    st_.parameters["n_burn_in_iter_frac"] = f2
                else:
                    f2 = f1
                a2 = algorithm_factory(st_)
            except LeaspyAlgoInputError as e:
                ctx.violation("sa/admissible-configuration-refused", f"reused settings object refused: {str(e)[:100]}", {"index": -2, "j": j})
                continue
        n_checked += 1
        ctx.count("burn_in_len_reused_settings_checks")
        for a_, n_, f_ in ((a1, n1, f1), (a2, n2, f2)):
            allowed = {int(f_ * n_), math.floor(Fraction(f_) * n_), math.floor(Fraction(round(f_ * 100), 100) * n_)}
            if a_.algo_parameters["n_burn_in_iter"] not in allowed:
                ctx.violation("sa/burn-in-length", f"settings object reused for a second algorithm (n_iter {n1}->{n2}, fraction {f1}->{f2}): memory-less phase of the "
                              f"algorithm built with n_iter={n_}, fraction={f_} resolved to {a_.algo_parameters['n_burn_in_iter']}, expected {sorted(allowed)}",
                              {"index": -2, "j": j, "n_iter": [n1, n2], "frac": [f1, f2]})
                break
    ctx.count("burn_in_len_grid_checks", n_checked)
    ctx.evaluated(n_checked)
    ctx.distinct_add(n_checked)
