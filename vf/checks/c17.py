"""C17 — personalization returns one aligned, finite, non-worsening estimate per subject.  DESIGN §2/C17.

Monitors on real personalize() calls:
 * alignment postconditions on the returned IndividualParameters (IDs = input IDs as str, input order, finite, shapes);
 * scipy_minimize: a wrapper on the algorithm instance's per-subject routine evaluates, through the algorithm's own objective on the same
   per-subject state, f(start point) before and f(returned point) after;
 * mean / mode posterior: an independent recorder (hooked at the end of every iteration on the state the samplers work on) logs the
   individual latent values, attachment and regularity per iteration; the reference recomputes mean / lowest-loss draw over exactly the
   iterations k > n_burn_in in float64 and compares with the returned parameters.
"""
from __future__ import annotations

RULE = (
    "a case = one real personalize() call: (model kind; fitted by a short seeded fit, or data-initialised) x (cohort of 1-30 subjects, other than "
    "the training cohort; one-visit subjects, heavy missingness, str / numeric-looking / int IDs) x algorithm in {scipy_minimize, mean_posterior, "
    "mode_posterior} x settings (n_iter 1-80, burn-in 0 / mid / n_iter-1, annealing on/off, seed). evaluations = per-subject checks; "
    "distinct_nontrivial = distinct (model cell, algorithm, n_subjects, n_iter, burn-in, annealing) configurations"
)
REQUIRED = {"calls_scipy_minimize": 15, "calls_mean_posterior": 15, "calls_mode_posterior": 15, "subjects_alignment": 300, "scipy_objective_checks": 100,
            "mean_checks": 100, "mode_checks": 100, "kept_draw_index_checks": 30, "algorithm_object_reused": 10, "scipy_small_budget_calls": 5, "scipy_alignment_by_data_checks": 60, "cohorts_with_a_subject_without_any_value": 5}
ASSUMPTIONS = [
    "scipy: objective compared through the algorithm's own obj_no_jac on the per-subject state (the objective's terms are C08's job); non-worsening "
    "judged at 1e-6 relative + 1e-6 absolute",
    "MCMC: settings with no kept draw (n_burn_in_iter >= n_iter) are outside the statement (mean / best of an empty sample is undefined): run, reported, not judged",
    "mean compared at 1e-5 relative (float32 mean of <= 80 draws), mode exactly (it is a selection of a recorded draw)",
]
GRID = [("logistic", 1, 0, "gaussian-scalar"), ("logistic", 2, 0, "gaussian-diagonal"), ("logistic", 3, 1, "gaussian-scalar"), ("logistic", 3, 2, "gaussian-diagonal"),
        ("linear", 2, 1, "gaussian-diagonal"), ("shared_speed_logistic", 3, 1, None), ("joint", 1, 0, None), ("joint", 3, 1, None), ("logistic", 2, 1, "bernoulli"),
        ("mixture_logistic", 3, 2, None)]
ALGOS = ["scipy_minimize", "mean_posterior", "mode_posterior"]


def shards(tier, seed):
    q = tier == "quick"
    return [{"name": f"perso-{k}", "k": k, "n": 3 if q else 40, "budget_s": 170 if q else 1500} for k in range(16)]


def run_shard(spec, ctx):
    import contextlib
    import io

    import numpy as np
    import torch

    from leaspy.algo import AlgorithmSettings, algorithm_factory
    from leaspy.utils.weighted_tensor import WeightedTensor
    from vf import gen
    from vf.checks.c15 import install_contract

    install_contract()

    def tv(v):
        return v.weighted_value if isinstance(v, WeightedTensor) else v

    for i in ctx.cases(spec["n"]):
        rng = ctx.rng("perso", spec["k"], i)
        g = GRID[(spec["k"] * 3 + i) % len(GRID)]
        kind, dim, src, noise = g
        events = kind == "joint"
        binary = noise == "bernoulli"
        fitted = bool((spec["k"] + i) % 2)
        kw = {"n_clusters": 2} if kind == "mixture_logistic" else {}
        try:
            df_train = gen.cohort(rng, n_ind=int(rng.integers(6, 12)), n_feat=dim, missing="mcar", events=events, one_visit_ok=False, binary=binary)
            ds_train = gen.to_dataset(df_train, events=events)
            model = gen.make_model(kind, dim, src, noise, **kw) if noise else gen.make_model(kind, dim, src, **kw)
            with contextlib.redirect_stdout(io.StringIO()):
                if fitted:
                    model.fit(ds_train, "mcmc_saem", n_iter=15, seed=int(rng.integers(1 << 30)), progress_bar=False)
                else:
                    model.initialize(ds_train)
        except Exception as e:
            ctx.count("setup_skipped")
            ctx.note(f"setup_skipped_{type(e).__name__}", str(e)[:160])
            continue
        for rep in range(3):
            algo_name = ALGOS[(spec["k"] + i + rep) % 3]
            n_sub = int(rng.choice([1, 2, 3, 5, 8, 13, 30]))
            id_style = str(rng.choice(["str", "numstr", "int", "shuffled"] if not events else ["str", "numstr", "int"]))  # shuffled: order of appearance is not the sorted order
            try:
                df = gen.cohort(rng, n_ind=n_sub, n_feat=dim, missing=str(rng.choice(["mcar", "heavy", "none"])), events=events,
                                one_visit_ok=not events, binary=binary, id_style=id_style)
                if events and n_sub == 1:
                    continue
                nodata_pos = None
                if kind != "mixture_logistic" and n_sub >= 2 and rng.random() < (0.25 if not events else 0.4):
                    # one subject (not the last one) whose visits carry no value at all, kept in the cohort (reader option drop_full_nan=False)
                    from leaspy.io.data import Data, Dataset

                    nodata_pos = int(rng.integers(0, n_sub - 1))
                    sid0 = list(dict.fromkeys(df["ID"]))[nodata_pos]
                    feats_ = [c for c in df.columns if c not in ("ID", "TIME", "EVENT_TIME", "EVENT_BOOL")]
                    if events and rng.random() < 0.7:
                        # that subject's event is observed, and early (before the population's reference time): the event term alone shapes its posterior
                        df.loc[df["ID"] == sid0, "EVENT_BOOL"] = True
                        df.loc[df["ID"] == sid0, "EVENT_TIME"] = float(df.loc[df["ID"] == sid0, "TIME"].max()) + 0.05
                    df.loc[df["ID"] == sid0, feats_] = np.nan
                    for c in feats_:  # every feature stays observed somewhere in the cohort
                        if df[c].isna().all():
                            df.loc[df.index[-1], c] = 0.5 if not binary else 1.0
                    ds = Dataset(Data.from_dataframe(df, drop_full_nan=False, **({"data_type": "joint"} if events else {})))
                    ctx.count("cohorts_with_a_subject_without_any_value")
                else:
                    ds = gen.to_dataset(df, events=events)
            except Exception:
                ctx.count("setup_skipped")
                continue
            n_iter = int(rng.choice([1, 2, 5, 12, 30, 80]))
            nb = int(rng.choice([0, n_iter // 2, max(n_iter - 1, 0)]))
            anneal = bool(rng.random() < 0.3)
            settings = dict(seed=int(rng.integers(1 << 30)), progress_bar=False)
            budget = None
            if algo_name == "scipy_minimize":
                settings.update(use_jacobian=False)
                if rng.random() < 0.45:  # the solver stops without converging for some subjects
                    budget = int(rng.choice([1, 2, 5]))
                    settings.update(custom_scipy_minimize_params={"method": "Powell", "options": {"maxiter": budget, "xtol": 1e-4, "ftol": 1e-4}})
                    ctx.count("scipy_small_budget_calls")
            else:
                settings.update(n_iter=n_iter, n_burn_in_iter=nb, n_burn_in_iter_frac=None)
                if (spec["k"] + i + rep) % 2:
                    del settings["n_burn_in_iter_frac"]  # the explicit count (0 included) replaces the default fraction
                if anneal:
                    settings.update(annealing=dict(do_annealing=True, initial_temperature=float(rng.choice([5.0, 10.0])), n_plateau=int(rng.integers(2, 6)),
                                                   n_iter=None, n_iter_frac=0.5))
            case = {"index": i, "rep": rep, "model": list(map(str, g)), "fitted": fitted, "algorithm": algo_name, "n_subjects": n_sub, "id_style": id_style,
                    "settings": {k: v for k, v in settings.items() if k != "seed"}}
            if nodata_pos is not None:
                case["subject_without_any_value_at_position"] = nodata_pos
            try:
                algo = algorithm_factory(AlgorithmSettings(algo_name, **settings))
            except Exception as e:
                # every setting generated here is admissible (an explicit burn-in count, 0 included, replaces the fraction)
                ctx.violation(f"personalize/{algo_name}/admissible-settings-refused", f"{algo_name} refused admissible settings: {type(e).__name__}: {str(e)[:160]}", case)
                continue
            rec = {"iters": [], "scipy": [], "scipy_by_data": {}}

            def fingerprint(t_, y_, w_):
                t_ = np.asarray(t_, dtype=np.float64).reshape(-1)
                y_ = np.where(np.asarray(w_).reshape(len(t_), -1) != 0, np.asarray(y_, dtype=np.float64).reshape(len(t_), -1), np.nan)
                return (t_.round(6).tobytes(), np.nan_to_num(y_, nan=-7.0).round(6).tobytes())
            # ---- recorders ----------------------------------------------------------------------------------
            if algo_name == "scipy_minimize":
                orig = algo._get_individual_parameters_patient

                def per_patient(state, *, scaling, with_jac, patient_id, _orig=orig):
                    x0 = scaling.scaling({n_: state.get_tensor_value(n_)[0] for n_ in state.dag.individual_variable_names})
                    f0 = algo.obj_no_jac(np.array(x0, dtype=float), state.clone(disable_auto_fork=True), scaling)
                    out = _orig(state, scaling=scaling, with_jac=with_jac, patient_id=patient_id)
                    ips, loss = out
                    x1 = scaling.scaling({k_: v_[0] if v_.ndim > 1 else v_ for k_, v_ in ips.items()})
                    f1 = algo.obj_no_jac(np.array(x1, dtype=float), state.clone(disable_auto_fork=True), scaling)
                    rec["scipy"].append((patient_id, float(f0), float(f1)))
                    try:  # what the optimiser returned for the subject holding THESE observations (whatever index it was given)
                        tw, yw = state["t"], state["y"]
                        nv_ = int((tw.weight.reshape(-1) != 0).sum()) if tw.weight is not None else tw.value.numel()
                        fp = fingerprint(tw.value.reshape(-1)[:nv_], yw.value.reshape(tw.value.numel(), -1)[:nv_], (yw.weight if yw.weight is not None else torch.ones_like(yw.value)).reshape(tw.value.numel(), -1)[:nv_])
                        rec["scipy_by_data"].setdefault(fp, []).append({k_: np.asarray(v_, dtype=np.float64).reshape(-1) for k_, v_ in ips.items()})
                    except Exception:
                        pass
                    return out

                algo._get_individual_parameters_patient = per_patient
                orig_master = algo._get_individual_parameters_patient_master

                def master(state, *, scaling, **kws_, ):
                    try:
                        x0 = scaling.scaling({n_: state.get_tensor_value(n_)[0] for n_ in state.dag.individual_variable_names})
                        f0 = float(algo.obj_no_jac(np.array(x0, dtype=float), state.clone(disable_auto_fork=True), scaling))
                    except Exception:
                        f0 = None
                    out = orig_master(state, scaling=scaling, **kws_)
                    try:
                        x1 = scaling.scaling({k_: torch.tensor(np.atleast_1d(np.asarray(v_, dtype=np.float32))) for k_, v_ in out.items()})
                        f1 = float(algo.obj_no_jac(np.array(x1, dtype=float), state.clone(disable_auto_fork=True), scaling))
                        if f0 is not None:
                            rec.setdefault("scipy_outer", []).append((kws_.get("patient_id"), f0, f1))
                    except Exception:
                        pass
                    return out

                algo._get_individual_parameters_patient_master = master
            else:
                holder = {}
                orig_init = algo._initialize_algo

                def init(m, d, _o=orig_init):
                    st = _o(m, d)
                    holder["state"] = st
                    return st

                algo._initialize_algo = init
                orig_ut = algo._update_temperature

                def ut(_o=orig_ut):
                    st = holder["state"]
                    probe = st.clone(disable_auto_fork=True)
                    rec["iters"].append({
                        "k": algo.current_iteration,
                        "vals": {v: probe[v].clone() for v in model.individual_variables_names},
                        "attach": tv(probe["nll_attach_ind"]).clone(),
                        "regul": tv(probe["nll_regul_ind_sum_ind"]).clone(),
                    })
                    return _o()

                algo._update_temperature = ut
            # ---- history of the algorithm object: it may already have been run once on another cohort -------------
            no_kept = algo_name != "scipy_minimize" and nb >= n_iter
            if rng.random() < 0.4 and not no_kept and kind != "mixture_logistic" and id_style != "int":
                try:
                    same_size = bool(rng.random() < 0.6)
                    df_pre = gen.cohort(rng, n_ind=n_sub if same_size else n_sub + 2, n_feat=dim, missing="mcar", events=events,
                                        one_visit_ok=not events, binary=binary)
                    with contextlib.redirect_stdout(io.StringIO()):
                        algo.run(model, gen.to_dataset(df_pre, events=events))
                    ctx.count("algorithm_object_reused")
                    case["algorithm_object_already_run_once"] = True
                except Exception as e:
                    ctx.count("pre_run_failed_not_judged")
                rec["iters"].clear()
                rec["scipy"].clear()
            # ---- the real call ------------------------------------------------------------------------------
            try:
                with contextlib.redirect_stdout(io.StringIO()):
                    ip = algo.run(model, ds)
            except Exception as e:
                if no_kept:
                    ctx.count("no_kept_draw_settings_raised_not_judged")
                    continue
                msg = str(e)
                if kind == "mixture_logistic":
                    key = "personalize/mixture-model-unsupported"
                elif id_style == "int" and "string" in msg.lower():
                    key = f"personalize/int-ids-rejected/{'scipy_minimize' if algo_name == 'scipy_minimize' else 'mcmc'}"
                elif isinstance(e, ZeroDivisionError) and anneal:
                    key = "annealing/zero-plateau-length"
                elif fitted and algo_name == "scipy_minimize" and "Shape of passed values" in msg:
                    key = "scipy_minimize/start-from-leftover-state"
                else:
                    key = f"personalize/{algo_name}/raises"
                ctx.violation(key, f"{algo_name} on a {'fitted' if fitted else 'data-initialised'} {kind} model raised {type(e).__name__}: {str(e)[:140]}", case)
                continue
            ctx.count(f"calls_{algo_name}")
            if no_kept:
                ctx.count("no_kept_draw_settings_returned_not_judged")
                continue
            # ---- alignment ----------------------------------------------------------------------------------
            want_ids = [str(x) for x in ds.indices]
            got_ids = list(ip._indices)
            bad = False
            if got_ids != want_ids:
                ctx.violation("personalize/ids-misaligned", f"{algo_name}: returned IDs {got_ids[:5]} != input IDs in input order {want_ids[:5]}", case)
                bad = True
            shapes = {"xi": 1, "tau": 1, "sources": src}
            for sid in got_ids:
                ctx.count("subjects_alignment")
                ctx.evaluated()
                p = ip[sid]
                if set(p) != set(model.individual_variables_names):
                    ctx.violation("personalize/parameter-names", f"{algo_name}: subject {sid} has parameters {sorted(p)}", case)
                    bad = True
                    break
                for name, val in p.items():
                    arr = np.atleast_1d(np.asarray(val, dtype=float))
                    if not np.isfinite(arr).all():
                        ctx.violation(f"personalize/{algo_name}/non-finite", f"{algo_name}: subject {sid} '{name}' = {arr.tolist()} is not finite", case)
                        bad = True
                    if arr.size != shapes.get(name, arr.size):
                        ctx.violation("personalize/shape", f"{algo_name}: subject {sid} '{name}' has {arr.size} values, model expects {shapes[name]}", case)
                        bad = True
                if bad:
                    break
            if bad:
                continue
            ctx.distinct(case["model"], algo_name, n_sub, n_iter if algo_name != "scipy_minimize" else 0, nb if algo_name != "scipy_minimize" else 0, anneal)
            # ---- scipy: the same call with 2 parallel workers returns the same aligned estimates -------------------------
            if algo_name == "scipy_minimize" and n_sub >= 3 and budget is None and rng.random() < 0.2 and not case.get("algorithm_object_already_run_once"):
                try:
                    algo2 = algorithm_factory(AlgorithmSettings(algo_name, **dict(settings, n_jobs=2)))
                    with contextlib.redirect_stdout(io.StringIO()):
                        ip2 = algo2.run(model, ds)
                    ctx.count("scipy_two_workers_compared")
                    a1, a2 = ip.to_pytorch(), ip2.to_pytorch()
                    if a1[0] != a2[0] or any(not torch.equal(a1[1][k_], a2[1][k_]) for k_ in a1[1]):
                        ctx.violation("personalize/scipy/two-workers-differ-or-misaligned",
                                      "scipy_minimize with n_jobs=2 does not return, subject by subject, what n_jobs=1 returns", case)
                except Exception as e:
                    ctx.count("scipy_two_workers_skipped")
                    ctx.note(f"scipy_two_workers_skipped_{type(e).__name__}", str(e)[:160])
            # ---- scipy: non-worsening -----------------------------------------------------------------------
            if algo_name == "scipy_minimize":
                if not rec["scipy"]:
                    ctx.inconclusive_because("scipy recorder saw no subject")
                # keyed by the input identifiers: the estimate stored under an identifier is the one the optimiser returned for the
                # subject holding that identifier's observations
                for pos_, sid in enumerate(want_ids):
                    nv_ = int(ds.n_visits_per_individual[pos_])
                    fp = fingerprint(ds.timepoints[pos_, :nv_].numpy(), ds.values[pos_, :nv_].numpy(), ds.mask[pos_, :nv_].numpy())
                    hits = rec["scipy_by_data"].get(fp, [])
                    if len(hits) != 1:
                        continue  # not optimised through the hooked routine, or two subjects with identical observations
                    ctx.count("scipy_alignment_by_data_checks")
                    for name, val in ip[sid].items():
                        got_ = np.atleast_1d(np.asarray(val, dtype=np.float64)).reshape(-1)
                        if not np.allclose(got_, hits[0][name], rtol=1e-6, atol=1e-7):
                            ctx.violation("personalize/ids-misaligned", f"scipy_minimize: '{name}' stored under identifier {sid} is not what the optimiser returned for that "
                                          f"subject's observations ({hits[0][name].tolist()} expected, {got_.tolist()} stored)", case)
                            bad = True
                            break
                    if bad:
                        break
                if bad:
                    continue
                for pid, f0, f1 in rec.get("scipy_outer", []):
                    ctx.count("scipy_objective_checks_at_the_outer_routine")
                    if np.isfinite(f0) and not (f1 <= f0 + 1e-6 + 1e-5 * abs(f0)):
                        ctx.violation("personalize/scipy/worse-than-start", f"subject {pid}: objective at the returned point {f1:.9g} > at the point its optimisation started from "
                                      f"{f0:.9g} (measured around the per-subject routine)", case)
                        break
                for pid, f0, f1 in rec["scipy"]:
                    ctx.count("scipy_objective_checks")
                    ctx.evaluated()
                    if not (f1 <= f0 + 1e-6 + 1e-6 * abs(f0)):
                        ctx.violation("personalize/scipy/worse-than-start", f"subject {pid}: objective at returned point {f1:.9g} > at start point {f0:.9g}", case)
                continue
            # ---- MCMC: kept draws, mean / mode -----------------------------------------------------------------
            its = rec["iters"]
            ctx.count("kept_draw_index_checks")
            if [r["k"] for r in its] != list(range(1, n_iter + 1)):
                ctx.inconclusive_because(f"iteration recorder saw {[r['k'] for r in its][:5]}..., expected 1..{n_iter}")
                continue
            kept = [r for r in its if r["k"] > nb]
            _, pyt = ip.to_pytorch()
            for name in model.individual_variables_names:
                stack = np.stack([r["vals"][name].double().numpy() for r in kept])  # (n_kept, n, d)
                got = pyt[name].double().numpy()
                if algo_name == "mean_posterior":
                    want = stack.mean(axis=0)
                    ctx.count("mean_checks", got.shape[0])
                    ctx.evaluated(got.shape[0])
                    if not np.allclose(got.reshape(want.shape), want, rtol=1e-5, atol=1e-6):
                        # name the mechanism when the result matches a mean over a shifted window
                        alt = {f"k>{b}": np.stack([r["vals"][name].double().numpy() for r in its if r["k"] > b]).mean(axis=0) for b in (nb - 1, nb + 1) if 0 <= b < n_iter}
                        hit = [w for w, a in alt.items() if np.allclose(got.reshape(a.shape), a, rtol=1e-5, atol=1e-6)]
                        ctx.violation("personalize/mean-posterior/not-mean-of-kept-draws",
                                      f"'{name}' is not the mean over the draws of iterations k > {nb}" + (f" (it equals the mean over {hit[0]})" if hit else ""), case,
                                      got=got.reshape(-1)[:4].tolist(), want=want.reshape(-1)[:4].tolist())
                        break
                else:
                    loss = np.stack([(r["attach"].double() + r["regul"].double()).numpy() for r in kept])  # (n_kept, n)
                    best = loss.argmin(axis=0)
                    want = stack[best, np.arange(stack.shape[1])]
                    ctx.count("mode_checks", got.shape[0])
                    ctx.evaluated(got.shape[0])
                    if not np.array_equal(got.reshape(want.shape).astype(np.float32), want.astype(np.float32)):
                        # ties in float32 loss may legitimately select another draw: accept any kept draw whose loss equals the minimum in float32
                        l32 = loss.astype(np.float32)
                        ok_all = True
                        for j in range(stack.shape[1]):
                            cands = np.flatnonzero(l32[:, j] <= l32[:, j].min() * (1 + np.sign(l32[:, j].min()) * 1e-6) + 1e-6)
                            if not any(np.array_equal(got.reshape(want.shape)[j].astype(np.float32), stack[c, j].astype(np.float32)) for c in cands):
                                ok_all = False
                        if not ok_all:
                            ctx.violation("personalize/mode-posterior/not-lowest-loss-kept-draw",
                                          f"'{name}' is not the kept draw (iterations k > {nb}) with the lowest attachment + regularity", case,
                                          got=got.reshape(-1)[:4].tolist(), want=want.reshape(-1)[:4].tolist())
                            break
            if i < 1 and rep == 0:
                ctx.sample(dict(case, kept_draws=len(kept)), limit=1)
