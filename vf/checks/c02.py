"""C02 — a rejected proposal leaves no trace in the state.  DESIGN §2/C02.

Oracle: twin execution.  The twin (vf.stateharness.RefState) receives only the *accepted* part of each proposal by
plain assignment; after the decision every independent value, every cache entry and every variable read is compared
between the real State and the twin, and again along a random following history.
Workload A: proposal/decision episodes (toy graphs + every model graph; extreme and non-finite proposals; full / partial /
no rejection; allowed reads in between).  Workload B: the real samplers (all four kinds) run with normal and adversarial
proposal scales; recorded proposals + decisions give the twin's expected state after each sample() call.
"""
from __future__ import annotations

RULE = (
    "A: a case = one episode [pre-reads; proposal on one variable (possibly inf/NaN/1e30-producing); allowed reads; decision = full "
    "revert | per-individual revert(mask) | accept; all-variable comparison; 1-10 following ops], on toy graphs and on the graph of a "
    "shipped model kind with data.  B: a case = one real sampler.sample() call, twin state = previous values + recorded accepted "
    "changes.  evaluations = episodes + sample() calls; distinct_nontrivial = distinct (graph/model, variable, decision kind, mask, "
    "extreme?) tuples + distinct (model, sampler kind, variable, accept-pattern) tuples having at least one rejection"
)
REQUIRED = {"episodes": 500, "reverts_partial": 150, "reverts_full": 150, "sampler_calls": 300, "sampler_rejections": 100,
            "sampler_acceptances": 100, "extreme_proposals": 50, "all_variable_comparisons": 500}
ASSUMPTIONS = [
    "documented precondition of the per-individual revert respected (only individual-wise variables read between proposal and decision)",
    "independent values compared exactly (sign of zero ignored); derived values re-evaluated on both sides compared at 1e-6 relative",
]


def shards(tier, seed):
    q = tier == "quick"
    out = [{"name": f"episodes-toy-{k}", "kind": "toy", "n": 250 if q else 4000, "k": k, "budget_s": 240 if q else 1800} for k in range(6)]
    out += [{"name": f"episodes-model-{k}", "kind": "model", "n": 60 if q else 800, "k": k, "budget_s": 240 if q else 1800} for k in range(5)]
    out += [{"name": f"samplers-{k}", "kind": "samplers", "n": 6 if q else 60, "k": k, "budget_s": 240 if q else 1800} for k in range(5)]
    return out


def run_shard(spec, ctx):
    from vf.checks.c15 import install_contract

    install_contract()
    if spec["kind"] == "toy" and spec["k"] == 1:
        from vf.checks.c01 import _copy_fork_isolation

        _copy_fork_isolation(spec, ctx)  # rejections under the COPY fork strategy when the caller recycles the replaced buffer
    if spec["kind"] in ("toy", "model"):
        _episodes(spec, ctx)
    else:
        _samplers(spec, ctx)


# --------------------------------------------------------------------------------------
def _compare_everything(run, ctx, tag):
    """All cache entries + every variable read through a clone of the real state vs the twin."""
    from leaspy.exceptions import LeaspyInputError
    from vf import stateharness as sh

    run.quiescent(tag=tag)
    if run.dead:
        return
    probe = run.real.clone(keep_last_fork=True)  # reading on a clone leaves the real cache untouched
    want = run.ref.all_values()
    for name in run.readable:
        w = want[name]
        try:
            got = probe[name]
        except Exception:
            got = None
        if isinstance(w, (sh.Unset, sh.Raised)):
            if got is not None:
                run.viol("state/read/missing-input-error", f"[{tag}] '{name}' answered although '{w.name}' is unset", run.log)
        elif got is None or not sh.same(got, w):
            run.viol(f"state/trace-of-rejected-proposal-after-{run._last_op()}",
                     f"[{tag}] '{name}' differs from the twin on which the rejected part was never proposed", run.log,
                     got=sh.brief(got), want=sh.brief(w))
        if run.dead:
            return
    ctx.count("all_variable_comparisons")


def _episodes(spec, ctx):
    import torch

    from vf import gen
    from vf import stateharness as sh

    kind = spec["kind"]
    for i in ctx.cases(spec["n"]):
        rng = ctx.rng(kind, spec["k"], i)
        case = {"index": i, "kind": kind}

        def viol(key, what, log, _case=case, **obs):
            ctx.violation(key, what, dict(_case, history=[list(map(str, op)) for op in log[-25:]]), **obs)

        fork = str(rng.choice(["ref", "copy"]))
        if kind == "toy":
            dag, info = sh.make_toy(rng)
            meta = info["meta"]
            n = info["n"]
            settable = {nm: dict(shape=m["shape"], axis=m["axis"], weighted=bool(m.get("weighted"))) for nm, m in meta.items() if m["indep"] and m["kind"] != "hyper"}
            readable = list(meta)
            indwise = {nm for nm, m in meta.items() if m["indwise"]}
            real = sh.State(dag, auto_fork_type=sh.FORKS[fork])
            ref = sh.RefState(dag, fork_mode=sh.FORKS[fork])
            run = sh.HistoryRunner(dag, real, ref, settable, readable, indwise, n, rng, viol, extreme=0.0, prop="C02")
            for nm in settable:
                run.op_set(nm)
            label = tuple(sorted((nm, m.get("src", m["kind"])) for nm, m in meta.items()))
            case["graph"] = {nm: (m.get("src") or m["kind"]) for nm, m in meta.items()}
        else:
            g = gen.MODEL_GRID[int(rng.integers(len(gen.MODEL_GRID)))]
            try:
                model, ds, state, df = gen.ready_state(rng, *g, n_ind=int(rng.integers(3, 7)))
            except Exception as e:
                ctx.count("setup_skipped")
                ctx.note(f"setup_skipped_{type(e).__name__}", str(e)[:200])
                continue
            dag, n = state.dag, ds.n_individuals
            real = state.clone()
            real.auto_fork_type = sh.FORKS[fork]
            ref = sh.RefState(dag, fork_mode=sh.FORKS[fork])
            for nm in ref.indep:
                ref.indep[nm] = state._values[nm]
            ind_vars = list(model.individual_variables_names)
            indwise, axis = sh.indwise_by_perturbation(dag, ref.indep, ind_vars, n)
            settable = {}
            for nm in ind_vars + list(model.population_variables_names):
                settable[nm] = dict(shape=tuple(ref.indep[nm].shape), axis=nm in ind_vars, scale=0.3 if nm in ind_vars else 0.05)
            readable = list(dag.variables)
            run = sh.HistoryRunner(dag, real, ref, settable, readable, indwise, n, rng, viol, perturb=True, prop="C02")
            label = tuple(map(str, g))
            case["model"] = list(label)
        n_episodes = int(rng.integers(2, 6))
        for ep in range(n_episodes):
            # 1. pre-reads fill part of the cache
            for _ in range(int(rng.integers(0, 6))):
                run.op_read()
            # 2. proposal
            axis_vars = [nm for nm, m in settable.items() if m["axis"]]
            decision = str(rng.choice(["full", "partial", "partial", "accept"]))
            var = str(rng.choice(axis_vars)) if (decision == "partial" and axis_vars) else str(rng.choice(list(settable)))
            if decision == "partial" and not settable[var]["axis"]:
                decision = "full"
            extreme = bool(rng.random() < 0.35)
            run.extreme = 1.0 if extreme else 0.0
            if extreme:
                ctx.count("extreme_proposals")
            cur = run.ref.indep[var]
            if rng.random() < 0.5 or cur is None or settable[var].get("weighted"):
                run.op_set(var)
            else:
                # accumulate form used by the real samplers
                delta = run._new_value(var) - cur
                run.log.append(("put+", var, sh.brief(delta)))
                run.real.put(var, delta, accumulate=True)
                run.ref.put(var, delta, accumulate=True)
                run.window = var if settable[var]["axis"] else None
            run.extreme = 0.0
            # 3. reads allowed by the contract between proposal and decision
            for _ in range(int(rng.integers(0, 5))):
                run.op_read()
            # 4. decision
            mask_kind = None
            if decision == "full":
                run.op_revert()
            elif decision == "partial":
                mk = int(rng.integers(0, 4))
                mask = {0: torch.ones(n, dtype=torch.bool), 1: torch.zeros(n, dtype=torch.bool),
                        2: torch.nn.functional.one_hot(torch.tensor(int(rng.integers(n))), n).bool()}.get(mk, torch.tensor(rng.random(n) < 0.5))
                mask_kind = ["all", "none", "single", "random"][mk]
                if not run.op_prevert(mask):
                    run.op_revert()
            ctx.count("episodes")
            # 5. everything, now and along a following history
            _compare_everything(run, ctx, f"after-{decision}")
            if run.dead:
                break
            if decision != "accept":
                ctx.distinct(label, var, decision, mask_kind, extreme)
            for _ in range(int(rng.integers(1, 11))):
                run.random_step({"read": 6, "set": 2, "put": 2, "revert": 1, "prevert": 2, "clone": 0.5, "device": 0.2, "badset": 0.7})
                run.quiescent()
                if run.dead:
                    break
            if run.dead:
                break
            _compare_everything(run, ctx, "after-following-history")
            if run.dead:
                break
        run.finish()
        ctx.evaluated()
        for k, v in run.stats.items():
            ctx.count(k, v)
        if i < 1:
            ctx.sample({"kind": kind, "what": case.get("graph") or case.get("model"), "history": [list(map(str, op)) for op in run.log[:16]]}, limit=1)


# --------------------------------------------------------------------------------------
SAMPLER_KINDS = ["Gibbs", "FastGibbs", "Metropolis-Hastings"]


def make_algo(model, ds, rng, sampler_pop="Gibbs", n_iter=50, **extra):
    from leaspy.algo import AlgorithmSettings, algorithm_factory

    settings = AlgorithmSettings("mcmc_saem", n_iter=n_iter, seed=int(rng.integers(1 << 30)), progress_bar=False, sampler_pop=sampler_pop, **extra)
    algo = algorithm_factory(settings)
    algo._initialize_seed(None)
    state = algo._initialize_algo(model, ds)
    return algo, state


def expected_after(before, name, events, is_ind):
    """Twin value of the sampled variable: previous value + accepted recorded changes (plain assignment semantics)."""
    import torch

    val = before
    props = [e for e in events if e[0] == "proposal"]
    decs = [e for e in events if e[0] == "decision"]
    if is_ind:
        (_, _, change), (_, _, acc) = props[0], decs[0]
        m = acc.reshape(acc.shape + (1,) * (val.ndim - acc.ndim))
        return torch.where(m, val + change, val), acc
    accs = []
    for (_, idx, change), (_, _, acc) in zip(props, decs):
        accs.append(bool(acc))
        if bool(acc):
            if idx == ():
                val = val + change
            else:
                val = val.index_put(tuple(torch.tensor(j) for j in idx), change, accumulate=True)
    return val, accs


def _samplers(spec, ctx):
    import torch

    from vf import gen
    from vf import stateharness as sh
    from vf.probes.samplers import SamplerProbe

    for i in ctx.cases(spec["n"]):
        rng = ctx.rng("samplers", spec["k"], i)
        g = gen.MODEL_GRID[int(rng.integers(len(gen.MODEL_GRID)))]
        kind_pop = SAMPLER_KINDS[int(rng.integers(3))]
        try:  # data-driven initialisation is outside every property: a cohort it cannot digest is skipped and counted
            model, ds, state0, df = gen.ready_state(rng, *g, n_ind=int(rng.integers(3, 9)))
            torch.manual_seed(int(rng.integers(1 << 30)))
            algo, state = make_algo(model, ds, rng, sampler_pop=kind_pop)
        except Exception as e:
            ctx.count("setup_skipped")
            ctx.note(f"setup_skipped_{type(e).__name__}", str(e)[:200])
            continue
        dag = state.dag
        probes = {nm: SamplerProbe(s) for nm, s in algo.samplers.items()}
        adversarial = str(rng.choice(["normal", "huge", "tiny", "mixed"]))
        for nm, s in algo.samplers.items():
            if adversarial == "huge":
                s.std = s.std * 300.0
            elif adversarial == "tiny":
                s.std = s.std * 1e-4
            elif adversarial == "mixed" and s.std.ndim >= 1 and s.std.numel() > 1:
                s.std = s.std.clone()
                s.std[0] = s.std[0] * 1000.0
        case = {"index": i, "model": list(map(str, g)), "sampler_pop": kind_pop, "scale": adversarial}
        dead = False
        for it in range(int(rng.integers(3, 9))):
            tinv = float(rng.choice([1.0, 0.5, 0.1]))
            names = sorted(algo.samplers)
            rng.shuffle(names)
            for nm in names:
                s = algo.samplers[nm]
                indep_before = {k: state._values[k] for k in dag.variables if sh.is_indep(dag, k)}
                try:
                    events = probes[nm].sample(state, tinv)
                except Exception as e:
                    # under adversarial proposal scales a definition may refuse the proposed values (e.g. torch validating NaN probabilities):
                    # the step aborts inside the library; what the state holds after an exception is outside the statement
                    ctx.count("sample_call_raised_not_judged")
                    ctx.note(f"sample_raised_{type(e).__name__}", str(e)[:160])
                    dead = True
                    break
                ctx.count("sampler_calls")
                ctx.evaluated()
                exp_val, accs = expected_after(indep_before[nm], nm, events, probes[nm].is_ind)
                acc_list = accs.tolist() if hasattr(accs, "tolist") else accs
                ctx.count("sampler_rejections", sum(1 for a in acc_list if not a))
                ctx.count("sampler_acceptances", sum(1 for a in acc_list if a))
                twin = dict(indep_before)
                twin[nm] = exp_val
                c2 = dict(case, iteration=it, variable=nm, temperature_inv=tinv, accepted=acc_list)
                # (a) independent values: the sampled variable equals previous + accepted changes; nothing else moved
                for k, v in twin.items():
                    cur = state._values[k]
                    if (cur is None) != (v is None) or (v is not None and not sh.same(cur, v, rtol=0.0)):
                        key = "state.revert/partial/non-finite-current" if (probes[nm].is_ind and _nonfinite_involved(events, state, dag, nm)) else \
                            f"sampler/{'ind' if probes[nm].is_ind else 'pop'}/rejected-or-accepted-part-wrong"
                        ctx.violation(key, f"after sample('{nm}') independent '{k}' is not previous value + accepted changes", c2,
                                      got=sh.brief(cur), want=sh.brief(v))
                        dead = True
                        break
                if dead:
                    break
                # (b) every cache entry and every variable read equals the from-scratch value on the twin's independent values
                want = sh.scratch_eval(dag, twin)
                probe_state = state.clone()
                for k in dag.variables:
                    w = want[k]
                    if isinstance(w, (sh.Unset, sh.Raised)):
                        continue
                    cached = state._values[k]
                    try:
                        got = probe_state[k]
                    except Exception:
                        got = None
                    for what, val in (("cached", cached), ("read", got)):
                        if val is not None and not sh.same(val, w):
                            nonfin = _nonfinite_involved(events, state, dag, nm)
                            key = "state.revert/partial/non-finite-current" if (probes[nm].is_ind and nonfin) else \
                                f"sampler/{'ind' if probes[nm].is_ind else 'pop'}/trace-of-rejected-proposal"
                            ctx.violation(key, f"after sample('{nm}') {what} '{k}' differs from the twin state", c2, got=sh.brief(val), want=sh.brief(w))
                            dead = True
                            break
                    if dead:
                        break
                ctx.count("all_variable_comparisons")
                if dead:
                    break
                if not all(acc_list):
                    ctx.distinct(case["model"], kind_pop if not probes[nm].is_ind else "IndGibbs", nm, tuple(acc_list)[:12])
            if dead:
                break
        if i < 1:
            ctx.sample(case, limit=1)


def _nonfinite_involved(events, state, dag, nm):
    """Did the (rejected) proposal evaluate to something non-finite?  Used only to *name* the mechanism."""
    import torch

    for e in events:
        if e[0] == "decision":
            a = e[1]
            if not torch.isfinite(a.double()).all() or (a == 0).any():
                return True
        if e[0] == "proposal" and not torch.isfinite(e[2]).all():
            return True
    return False
