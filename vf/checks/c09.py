"""C09 — individual trajectories follow the documented closed form.  DESIGN §2/C09.

What is observed: the *real* `model.estimate(...)` (dict / MultiIndex request, `to_dataframe` None / True / False) and the real
`model.compute_individual_trajectory(...)` of models built with `load_parameters` / `BaseModel.load` from random admissible
parameter vectors.  Oracle: (a) float64 numpy reference written from docs/models.md (vf.refmodel.traj09) compared value by
value, (b) range / monotonicity / value-at-reference-time monitors on the logistic kinds, (c) structural postconditions of
`estimate` (keys, order incl. repeats and unsorted ages, shapes, index identity, layout flag).

The mixing matrix used by the reference is *read from the model under test* (`model.state["mixing_matrix"]`): its
construction from betas and the orthonormal basis (and the orthogonality) is property C10.  What C09 judges is
`space_shift = sources @ mixing_matrix` and everything downstream of it.
"""
from __future__ import annotations

import json
import os

RULE = (
    "a case = one model (kind in logistic / linear / shared_speed_logistic / joint, dimension 1-6, 0-3 sources, gaussian-diagonal / "
    "gaussian-scalar / bernoulli observation model) built by load_parameters (3/4; 15% of them after a decoy vector was loaded first) or "
    "BaseModel.load of a JSON file (1/4) from a random "
    "admissible parameter vector (g in [1e-3,1e3] log-uniform incl. the end points, v0 in [1e-4,1], betas in [-2,2]), 1-4 individuals "
    "(xi in [-3,3], tau in [30,110], sources in [-3,3]^k; the first one unshifted: sources = 0, its own tau among its ages) and one "
    "age request per individual (the second individual's style cycles deterministically, the others are drawn) from {sorted grid, "
    "unsorted, repeated, tight float32-neighbour grid, single-element, scalar float, "
    "scalar int, integer ages, empty, far extrapolation tau+-200y} x {list, tuple, ndarray}; the request is submitted as dict "
    "(to_dataframe None / True), as MultiIndex (grouped / interleaved rows, extra levels, swapped level order, with or without a repeated "
    "(ID, age) pair; to_dataframe None / False) and per individual to compute_individual_trajectory.  evaluations = cases; "
    "distinct_nontrivial = distinct (kind, dimension, sources, observation model, load path, multiset of (age style, container), index "
    "variant) among cases in which at least one non-empty request was compared with the reference"
)
# thresholds sized for ~250 cases (what a quick run still completes when the machine is shared with 8 other checks);
# an unloaded quick run completes 3200 cases
REQUIRED = {
    "closed_form_values": 20000,
    "range_values": 10000,
    "monotone_pairs": 2000,
    "reference_time_checks": 300,
    "struct_dict": 150,
    "struct_dict_to_dataframe": 100,
    "struct_multiindex": 100,
    "struct_multiindex_to_dict": 100,
    "direct_trajectory_calls": 300,
    "requests_scalar_age": 15,
    "requests_empty": 8,
    "ages_far_extrapolation": 50,
    "requests_unsorted": 100,
    "requests_repeated": 50,
    "models_loaded_from_json": 20,
}
ASSUMPTIONS = [
    "leaspy computes in float32 from float32-quantised inputs: the reference quantises ages, individual parameters and parameters to "
    "float32, computes in float64 and accepts [curve(l - dl), curve(l + dl)] +- (2e-6 + 2e-4*|value|), dl = 16 ulp32 * sum|terms of the "
    "logit| (first-order float32 error of the argument; needed because metric=(g+1)^2/g reaches 1e3 on the stated parameter box)",
    "the mixing matrix is read from the model (model.state['mixing_matrix']); its construction / orthogonality is C10",
    "joint model: only the first `dimension` columns (longitudinal block) are compared with the closed form; joint with dimension >= 2 "
    "and no sources is built with the gaussian-scalar observation model (the default pair of observation models cannot be constructed "
    "for that configuration, which is outside this property)",
    "joint model: empty age lists are not generated (the event block is documented relative to the first requested age; with no age "
    "torch raises in the event block, which is not the longitudinal block judged here)",
    "non-decreasing = no decrease larger than 4 float32 ulps of the larger value between consecutive ages of the sorted request.  "
    "(DESIGN said one ulp; observed on the unchanged tree: torch's float32 sigmoid kernel returns values 2 ulps apart for the *same* "
    "logit depending on the position in the tensor (SIMD body vs scalar tail), so identical ages differ by 2 ulps -- a property of the "
    "torch kernel (measured accuracy 2.4 ulps), not of leaspy; such sub-tolerance wobbles are counted, not judged)",
    "IDs are strings (IndividualParameters accepts nothing else); ages are finite",
]

KINDS = ["logistic", "logistic", "logistic", "logistic", "logistic", "linear", "linear", "linear", "linear",
         "shared_speed_logistic", "shared_speed_logistic", "shared_speed_logistic", "joint", "joint", "joint", "logistic"]

MONOTONE_ULPS = 4

STYLES = ["grid", "unsorted", "repeated", "tight", "single_list", "scalar_float", "scalar_int", "int_list", "empty", "far", "mixed"]
STYLE_W = [3, 4, 3, 1.5, 1, 1, 0.6, 1, 0.8, 2, 2]


def shards(tier, seed):
    n = 200 if tier == "quick" else 6500
    budget = 60 if tier == "quick" else 800
    return [{"name": f"{KINDS[k]}-{k}", "kind": KINDS[k], "k": k, "n": n, "budget_s": budget} for k in range(16)]


# ----------------------------------------------------------------------------------------------------------------------
def _gen_case(rng, kind, i, shard_k=0):
    """Everything random of case i (pure function of rng)."""
    import numpy as np

    d = int(rng.integers(1, 7))
    if kind == "shared_speed_logistic" and rng.random() < 0.9:
        d = max(d, 2)
    k = int(rng.integers(0, min(3, d - 1) + 1)) if d >= 2 else 0
    if d >= 2 and rng.random() < 0.15:
        k = min(3, d - 1)
    feats_pool = ["Y%d" % j for j in range(d)] if rng.random() < 0.6 else [f"{nm}" for nm in rng.permutation(
        ["mmse", "adas", "putamen", "cdr-sb", "tau pet", "F_5", "score.7", "abeta"])[:d]]
    obs = None
    if kind in ("logistic", "linear"):
        obs = str(rng.choice(["gaussian-diagonal", "gaussian-scalar"] + (["bernoulli"] if kind == "logistic" else [])))
    elif kind == "joint":
        obs = "gaussian-scalar" if (d >= 2 and k == 0) else None
    elif kind == "shared_speed_logistic":
        obs = str(rng.choice(["gaussian-diagonal", "gaussian-scalar"]))

    def logu(lo, hi, size):
        v = 10.0 ** rng.uniform(np.log10(lo), np.log10(hi), size=size)
        # put the end points of the admissible box in play
        m = rng.random(size)
        v = np.where(m < 0.04, lo, np.where(m > 0.96, hi, v))
        return v

    p = {"tau_mean": float(rng.uniform(50, 90)), "tau_std": float(rng.uniform(1, 10)), "xi_std": float(rng.uniform(0.1, 1.0))}
    if kind in ("logistic", "joint"):
        p["log_g_mean"] = np.log(logu(1e-3, 1e3, d)).tolist()
        p["log_v0_mean"] = np.log(logu(1e-4, 1.0, d)).tolist()
    elif kind == "linear":
        p["g_mean"] = (rng.uniform(-2, 2, d) if rng.random() < 0.7 else logu(1e-3, 1e3, d)).tolist()
        p["log_v0_mean"] = np.log(logu(1e-4, 1.0, d)).tolist()
    else:
        p["log_g_mean"] = np.log(logu(1e-3, 1e3, 1)).tolist()
        p["xi_mean"] = float(rng.uniform(-5, 0))
        p["deltas_mean"] = rng.uniform(-3, 3, d - 1).tolist()
    if k >= 1:
        p["betas_mean"] = rng.uniform(-2, 2, (d - 1, k)).tolist()
    if obs == "gaussian-scalar" or (kind == "joint" and d == 1):
        p["noise_std"] = float(rng.uniform(0.01, 0.3))
    elif obs != "bernoulli":
        p["noise_std"] = rng.uniform(0.01, 0.3, d).tolist()
    if kind == "joint":
        p["n_log_nu_mean"] = [float(rng.uniform(-5, -3))]
        p["log_rho_mean"] = [float(rng.uniform(0, 2))]
        if k >= 1 and d >= 2:
            p["zeta_mean"] = rng.uniform(-0.5, 0.5, (k, 1)).tolist()
    via_json = bool(rng.random() < 0.25) if i >= 8 else (i % 4 == 1)  # the first cases of a shard cover both load paths for sure
    # 15%: the model first receives a decoy parameter vector of the same shapes, then the real one (estimates must follow
    # the parameters currently loaded); drawn from an own stream so that the rest of the case does not depend on it
    reload = bool(rng.random() < 0.15)

    # individuals ---------------------------------------------------------------------------------------------------
    n_ind = int(rng.integers(1, 5))
    if i % 4 != 3:
        n_ind = max(n_ind, 2)  # the second individual's age style cycles through STYLES (coverage does not depend on luck)
    id_pool = ["S01", "A3", "z1", "12", "P-007", "007", "b 2", "Q", "m10", "M9"]
    ids = [str(x) for x in rng.permutation(id_pool)[:n_ind]]
    common_ages = np.round(rng.uniform(40, 100, 3), 2)  # visits shared by several individuals (same TIME, different ID)
    inds = []
    for j, sid in enumerate(ids):
        xi = 0.0 if rng.random() < 0.1 else float(rng.uniform(-3, 3))
        tau = float(rng.uniform(30, 110))
        if rng.random() < 0.3:
            tau = float(np.round(tau, 1))
        src = [0.0] * k if j == 0 else rng.uniform(-3, 3, k).tolist()
        style = str(rng.choice(STYLES, p=np.array(STYLE_W) / sum(STYLE_W)))
        if j == 1:
            style = STYLES[(i + shard_k) % len(STYLES)]
        if j == 0 and style in ("empty", "scalar_int", "int_list"):
            style = "unsorted"
        if kind == "joint" and style == "empty":
            # the event block of the joint model is defined relative to the first requested age (docstring of
            # JointModel.compute_individual_trajectory); an empty request has none -> outside the judged domain
            style = "single_list"
        span = float(rng.choice([1.0, 5.0, 15.0, 40.0]))
        n_t = int(rng.integers(2, 13))
        decimals = int(rng.choice([1, 3, 6, 15]))
        base = np.round(tau + rng.uniform(-span, span, n_t), decimals)
        if style == "grid":
            ages = np.sort(base)
        elif style == "unsorted":
            ages = base
        elif style == "repeated":
            ages = np.concatenate([base, rng.choice(base, int(rng.integers(1, 4)))])
            ages = rng.permutation(ages)
        elif style == "tight":  # neighbours in float32: monotonicity / order under the finest resolvable spacing
            a0 = np.float32(tau + rng.uniform(-span, span))
            steps = np.cumsum(rng.integers(0, 3, n_t))
            cur = np.float32(a0)
            lst = [float(cur)]
            for s in steps:
                for _ in range(int(s)):
                    cur = np.nextafter(cur, np.float32(np.inf))
                lst.append(float(cur))
            ages = rng.permutation(np.array(lst))
        elif style == "single_list":
            ages = base[:1]
        elif style == "scalar_float":
            ages = base[:1]
        elif style == "scalar_int":
            ages = np.round(base[:1])
        elif style == "int_list":
            ages = np.round(base)
        elif style == "empty":
            ages = base[:0]
        elif style == "far":
            far = np.array([tau - 200.0, tau + 200.0, tau - float(rng.uniform(50, 200)), tau + float(rng.uniform(50, 200))])
            ages = rng.permutation(np.concatenate([base[: max(1, n_t // 2)], far[: int(rng.integers(1, 5))]]))
        else:  # mixed: shared visits + own + tau
            ages = rng.permutation(np.concatenate([base[:3], common_ages[: int(rng.integers(1, 4))]]))
        ages = [float(a) for a in ages]
        if j == 0:  # unshifted individual is asked at its own reference time
            pos = int(rng.integers(0, len(ages) + 1)) if style not in ("single_list", "scalar_float") else 0
            if style in ("single_list", "scalar_float"):
                ages = [tau]
            else:
                ages.insert(pos, tau)
        container = str(rng.choice(["list", "tuple", "ndarray"]))
        if style in ("scalar_float", "scalar_int"):
            container = "scalar"
        inds.append({"id": sid, "xi": xi, "tau": tau, "sources": src, "style": style, "container": container, "ages": ages,
                     "int": style in ("scalar_int", "int_list")})
    ix_variant = str(rng.choice(["grouped", "interleaved", "interleaved", "extra_levels", "swapped"]))
    ix_repeat = bool(rng.random() < 0.25)
    ix_perm_seed = int(rng.integers(1 << 30))
    return {"index": i, "kind": kind, "d": d, "k": k, "features": feats_pool, "obs": obs, "params": p, "via_json": via_json,
            "reload": reload, "individuals": inds, "ix_variant": ix_variant, "ix_repeat": ix_repeat, "ix_perm_seed": ix_perm_seed}


def _build_model(case, tmpdir):
    from leaspy.models import BaseModel, JointModel, LinearModel, LogisticModel, SharedSpeedLogisticModel

    kind, d, k = case["kind"], case["d"], case["k"]
    cls = {"logistic": LogisticModel, "linear": LinearModel, "shared_speed_logistic": SharedSpeedLogisticModel, "joint": JointModel}[kind]
    if case["via_json"]:
        doc = {"leaspy_version": "2.0.0", "name": kind, "features": case["features"], "dimension": d, "source_dimension": k,
               "parameters": case["params"]}
        if case["obs"] is not None:
            doc["obs_models"] = case["obs"]
        if kind == "joint":
            doc["nb_events"] = 1
            if case["obs"] is None:
                doc["obs_models"] = {"y": "gaussian-scalar" if d == 1 else "gaussian-diagonal",
                                     "event": "weibull-right-censored" if (d == 1 or k == 0) else "weibull-right-censored-with-sources"}
            else:
                doc["obs_models"] = {"y": case["obs"], "event": "weibull-right-censored"}
        path = os.path.join(tmpdir, f"c09-model-{os.getpid()}.json")
        with open(path, "w") as fp:
            json.dump(doc, fp)
        try:
            return BaseModel.load(path)
        finally:
            os.remove(path)
    kw = {"dimension": d, "features": list(case["features"]), "source_dimension": k}
    if case["obs"] is not None:
        kw["obs_models"] = case["obs"]
    model = cls(kind, **kw)
    if case.get("reload"):
        model.load_parameters(_decoy(case["params"]))
        model.state["mixing_matrix"] if k >= 1 else None  # derived values of the decoy get cached, as a user inspecting the model would do
        # ... and trajectories of the decoy get computed through the public API before the real parameters arrive (estimates must follow
        # the parameters in force, whatever was estimated earlier on the same model object)
        try:
            import numpy as np
            from leaspy.io.outputs import IndividualParameters

            model._is_initialized = True
            ip = IndividualParameters()
            ip.add_individual_parameters("warm", {"xi": [0.1], "tau": [70.0], **({"sources": [0.2] * k} if k >= 1 else {})})
            model.estimate({"warm": [65.0, 75.0]}, ip)
        except Exception:
            pass
    model.load_parameters(case["params"])
    model._is_initialized = True  # what BaseModel.load does after load_parameters
    return model


def _decoy(params):
    """Same shapes, different admissible values (deterministic function of the real vector)."""
    def f(name, v):
        if isinstance(v, list):
            return [f(name, x) for x in v]
        if name in ("tau_std", "xi_std", "noise_std"):
            return v * 1.5 + 0.01
        return 0.37 - 0.8 * v
    return {k: f(k, v) for k, v in params.items()}


def _as_container(ind):
    import numpy as np

    ages = ind["ages"]
    if ind["int"]:
        ages = [int(a) for a in ages]
    c = ind["container"]
    if c == "scalar":
        return ages[0]
    if c == "tuple":
        return tuple(ages)
    if c == "ndarray":
        return np.array(ages, dtype=np.int64 if ind["int"] else np.float64)
    return list(ages)


def run_shard(spec, ctx):
    import tempfile

    import numpy as np
    import pandas as pd
    import torch

    from leaspy.io.outputs import IndividualParameters
    from vf.checks.c15 import install_contract
    from vf.refmodel import traj09 as ref

    install_contract()  # DAG closure contract stays on (DESIGN §3)
    kind = spec["kind"]
    logistic_like = kind in ("logistic", "joint", "shared_speed_logistic")
    tmpdir = tempfile.gettempdir()

    for i in ctx.cases(spec["n"]):
        rng = ctx.rng("c09", kind, spec["k"], i)
        case = _gen_case(rng, kind, i, spec["k"])
        d, k = case["d"], case["k"]
        brief = {key: case[key] for key in ("index", "kind", "d", "k", "obs", "via_json", "reload", "params", "ix_variant", "ix_repeat")}
        brief["individuals"] = case["individuals"]
        try:
            model = _build_model(case, tmpdir)
            feats = list(model.features)
            A = model.state["mixing_matrix"].detach().cpu().numpy().astype(np.float64) if k >= 1 else None
            ip = IndividualParameters()
            for ind in case["individuals"]:
                dct = {"xi": ind["xi"], "tau": ind["tau"]}
                if k >= 1:
                    dct["sources"] = list(ind["sources"])
                ip.add_individual_parameters(ind["id"], dct)
        except Exception as e:  # model construction is not this property
            ctx.count("setup_skipped")
            ctx.note(f"setup_skipped_{kind}_{type(e).__name__}", str(e)[:300])
            continue
        ctx.evaluated()
        if case["via_json"]:
            ctx.count("models_loaded_from_json")
        elif case["reload"]:
            ctx.count("models_with_parameters_loaded_twice")
        if A is not None and A.shape != (k, d):
            ctx.violation("space-shift/mixing-matrix-shape", f"mixing matrix has shape {A.shape}, documented (n_sources, n_features) = {(k, d)}", brief)
            continue
        n_cols = d + (1 if kind == "joint" else 0)
        by_id = {ind["id"]: ind for ind in case["individuals"]}
        ref_cache = {}

        def reference(sid, ages):
            key = (sid, tuple(ages))
            if key not in ref_cache:
                ind = by_id[sid]
                ref_cache[key] = ref.trajectory(kind, case["params"], ages, ind["xi"], ind["tau"], ind["sources"] if k >= 1 else None, A)
            return ref_cache[key]

        compared = [0]

        def judge_values(obs, sid, ages, where):
            """obs: (n, n_cols) array for individual sid at `ages` (in that order)."""
            obs = np.asarray(obs)
            if len(ages) == 0:
                return
            val, lo, hi = reference(sid, ages)
            block = obs[:, :d].astype(np.float64)
            bad = ref.mismatch(block, val, lo, hi)
            ctx.count("closed_form_values", block.size)
            compared[0] += block.size
            if bad.any():
                r, c = map(int, np.argwhere(bad)[0])
                # is it the right numbers in the wrong order?  (order defects get their own key)
                perm = sorted(range(len(ages)), key=lambda q: ages[q])
                v2, lo2, hi2 = val[perm], lo[perm], hi[perm]
                if len(ages) > 1 and not ref.mismatch(block, v2, lo2, hi2).any():
                    ctx.violation("estimate/order/ages-returned-sorted-not-as-requested", f"{where}: values are those of the sorted ages, not of the requested order",
                                  brief, id=sid, ages=ages)
                else:
                    ctx.violation(f"closed-form/{kind}/value-mismatch", f"{where}: estimate differs from the documented closed form",
                                  brief, id=sid, age=ages[r], feature=c, observed=float(block[r, c]), reference=float(val[r, c]),
                                  accept=[float(min(lo[r, c], hi[r, c])), float(max(lo[r, c], hi[r, c]))],
                                  n_bad=int(bad.sum()), n=int(bad.size))
                return
            if logistic_like:
                ctx.count("range_values", block.size)
                if not (np.isfinite(block).all() and (block >= 0).all() and (block <= 1).all()):
                    ctx.violation(f"range/{kind}/outside-unit-interval", f"{where}: logistic output outside [0,1] or not finite", brief, id=sid,
                                  min=float(np.nanmin(block)), max=float(np.nanmax(block)))

        def monotone(obs, sid, ages, where):
            if not logistic_like or len(ages) < 2:
                return
            a32 = np.asarray(ages, dtype=np.float32)
            order = np.argsort(a32, kind="stable")
            v = np.asarray(obs)[order, :d].astype(np.float32)
            dec = v[:-1] - v[1:]  # > 0 = decrease
            ulp = np.spacing(np.maximum(np.abs(v[:-1]), np.abs(v[1:])).astype(np.float32))
            ctx.count("monotone_pairs", dec.size)
            ctx.count("monotone_pairs_with_sub_tolerance_wobble", int(((dec > 0) & (dec <= MONOTONE_ULPS * ulp)).sum()))
            badm = dec > MONOTONE_ULPS * ulp
            if badm.any():
                r, c = map(int, np.argwhere(badm)[0])
                ctx.violation(f"monotone/{kind}/decrease-with-age", f"{where}: value decreases with age beyond {MONOTONE_ULPS} float32 ulps", brief, id=sid,
                              ages=[float(a32[order][r]), float(a32[order][r + 1])], values=[float(v[r, c]), float(v[r + 1, c])], feature=c)

        def at_reference_time(obs, sid, ages, where):
            ind = by_id[sid]
            if not logistic_like or any(s != 0 for s in ind["sources"]):
                return
            exp = ref.value_at_reference_time(kind, case["params"])
            for r, a in enumerate(ages):
                if a == ind["tau"]:
                    got = np.asarray(obs)[r, :d].astype(np.float64)
                    ctx.count("reference_time_checks", d)
                    if (np.abs(got - exp) > ref.ATOL + ref.RTOL * np.abs(exp)).any():
                        c = int(np.argmax(np.abs(got - exp)))
                        ctx.violation(f"reference-time/{kind}/not-1-over-1-plus-g", f"{where}: unshifted individual at t=tau is not 1/(1+g)", brief,
                                      id=sid, observed=float(got[c]), expected=float(exp[c]), feature=c)

        # ---- (A) dict request, default layout ---------------------------------------------------------------------
        request = {ind["id"]: _as_container(ind) for ind in case["individuals"]}
        for ind in case["individuals"]:
            st = ind["style"]
            ctx.count("requests_total")
            if ind["container"] == "scalar":
                ctx.count("requests_scalar_age")
            if st == "empty":
                ctx.count("requests_empty")
            if st == "far":
                ctx.count("ages_far_extrapolation", sum(1 for a in ind["ages"] if abs(a - ind["tau"]) >= 50))
            if ind["ages"] != sorted(ind["ages"]):
                ctx.count("requests_unsorted")
            if len(set(ind["ages"])) < len(ind["ages"]):
                ctx.count("requests_repeated")
            ctx.count(f"container_{ind['container']}")
        res = None
        try:
            res = model.estimate(request, ip)
        except Exception as e:
            ctx.violation(_exc_key("dict", case, e), f"estimate(dict) raised {type(e).__name__}: {str(e)[:200]}", brief)
        if res is not None:
            ctx.count("struct_dict")
            ok = True
            if not isinstance(res, dict):
                ctx.violation("estimate/dict/returns-non-dict", f"dict request without to_dataframe returned {type(res).__name__}", brief)
                ok = False
            elif list(res.keys()) != list(request.keys()):
                ctx.violation("estimate/dict/keys-differ", "returned keys differ from the requested individuals (or their order)", brief,
                              got=list(res.keys()), want=list(request.keys()))
                ok = False
            if ok:
                for sid, ind in by_id.items():
                    v = res[sid]
                    want_shape = (len(ind["ages"]), n_cols)
                    if not isinstance(v, np.ndarray) or v.shape != want_shape:
                        ctx.violation("estimate/dict/value-shape", f"value for {sid!r} is {type(v).__name__} of shape {getattr(v, 'shape', None)}, "
                                      f"documented (n_timepoints, n_features) = {want_shape}", brief, style=ind["style"], container=ind["container"])
                        continue
                    judge_values(v, sid, ind["ages"], "estimate(dict)")
                    monotone(v, sid, ind["ages"], "estimate(dict)")
                    at_reference_time(v, sid, ind["ages"], "estimate(dict)")

        # ---- (B) dict request, to_dataframe=True -------------------------------------------------------------------
        has_scalar = any(ind["container"] == "scalar" for ind in case["individuals"])
        attempts = [(request, has_scalar)]
        if has_scalar:  # if the raw request is refused because of a scalar age, the rest is still judged with the scalars wrapped
            attempts.append(({s: ([r] if by_id[s]["container"] == "scalar" else r) for s, r in request.items()}, False))
        for req_b, scalar_in in attempts:
            try:
                df = model.estimate(req_b, ip, to_dataframe=True)
            except Exception as e:
                ctx.violation(_exc_key("dict-to-dataframe", case, e, scalar=scalar_in),
                              f"estimate(dict, to_dataframe=True) raised {type(e).__name__}: {str(e)[:200]}", brief)
                continue
            ctx.count("struct_dict_to_dataframe")
            want_rows = [(sid, a) for sid, ind in by_id.items() for a in ind["ages"]]
            _judge_frame(ctx, df, want_rows, None, feats, n_cols, d, kind, brief, judge_values, "estimate(dict,to_dataframe=True)", pd, np)
            break

        # ---- (C, D) MultiIndex request ------------------------------------------------------------------------------
        rows = [(sid, a) for sid, ind in by_id.items() for a in ind["ages"]]
        r2 = np.random.default_rng(case["ix_perm_seed"])
        if not case["ix_repeat"]:
            seen, uniq = set(), []
            for row in rows:
                key = (row[0], float(np.float64(row[1])))
                if key not in seen:
                    seen.add(key)
                    uniq.append(row)
            rows = uniq
        elif rows:
            extra = [rows[int(q)] for q in r2.integers(0, len(rows), int(r2.integers(1, 3)))]
            rows = rows + extra
        if rows:
            if case["ix_variant"] != "grouped":
                rows = [rows[int(q)] for q in r2.permutation(len(rows))]
            has_dup = len({(s, float(a)) for s, a in rows}) < len(rows)
            if has_dup:
                ctx.count("multiindex_with_repeated_pair")
            all_int = all(by_id[s]["int"] for s, _ in rows)
            times = [int(a) if all_int else float(a) for _, a in rows]
            if case["ix_variant"] == "extra_levels":
                ix = pd.MultiIndex.from_arrays([list(range(len(rows), 0, -1)), [s for s, _ in rows], ["v%d" % (q % 3) for q in range(len(rows))], times],
                                               names=["extra_1", "ID", "extra_2", "TIME"])
            elif case["ix_variant"] == "swapped":
                ix = pd.MultiIndex.from_arrays([times, [s for s, _ in rows]], names=["TIME", "ID"])
            else:
                ix = pd.MultiIndex.from_arrays([[s for s, _ in rows], times], names=["ID", "TIME"])
            ctx.count(f"multiindex_{case['ix_variant']}")
            try:
                df = model.estimate(ix, ip)
            except Exception as e:
                df = None
                ctx.violation(_exc_key("multiindex", case, e), f"estimate(MultiIndex) raised {type(e).__name__}: {str(e)[:200]}", brief)
            if df is not None:
                ctx.count("struct_multiindex")
                _judge_frame(ctx, df, rows, ix, feats, n_cols, d, kind, brief, judge_values, "estimate(MultiIndex)", pd, np, has_dup=has_dup)
            try:
                dd = model.estimate(ix, ip, to_dataframe=False)
            except Exception as e:
                dd = None
                ctx.violation(_exc_key("multiindex-to-dict", case, e), f"estimate(MultiIndex, to_dataframe=False) raised {type(e).__name__}: {str(e)[:200]}", brief)
            if dd is not None:
                ctx.count("struct_multiindex_to_dict")
                want = {}
                for s, a in rows:
                    want.setdefault(s, []).append(float(a))
                if not isinstance(dd, dict):
                    ctx.violation("estimate/multiindex-to-dict/flag-ignored", f"to_dataframe=False returned {type(dd).__name__}", brief)
                elif set(dd.keys()) != set(want.keys()):
                    ctx.violation("estimate/multiindex-to-dict/keys-differ", "keys differ from the individuals of the index", brief,
                                  got=list(dd.keys()), want=list(want.keys()))
                else:
                    for s, ages in want.items():
                        v = dd[s]
                        if not isinstance(v, np.ndarray) or v.shape != (len(ages), n_cols):
                            ctx.violation("estimate/multiindex-to-dict/value-shape", f"value for {s!r} has shape {getattr(v, 'shape', None)}, "
                                          f"requested {len(ages)} ages x {n_cols} columns", brief)
                            continue
                        judge_values(v, s, ages, "estimate(MultiIndex,to_dataframe=False)")

        # ---- (E) compute_individual_trajectory directly ------------------------------------------------------------
        for n_dir, (sid, ind) in enumerate(by_id.items()):
            # the individual's parameters as stored, or in the single-row layouts the tensorised forms use (one row per individual)
            ipd = ip[sid]
            layout = ("as-stored", "nested-row-lists", "numpy-rows", "torch-rows")[(case["index"] + n_dir) % 4]
            if layout != "as-stored":
                def row(v, _layout=layout):
                    flat = list(v) if isinstance(v, (list, tuple)) else [v]
                    if _layout == "nested-row-lists":
                        return [flat]
                    if _layout == "numpy-rows":
                        return np.array([flat], dtype=np.float64)
                    return torch.tensor([flat], dtype=torch.float32)

                ipd = {k_: row(v_) for k_, v_ in ipd.items()}
                ctx.count("direct_trajectory_calls_with_row_layouts")
            try:
                t = model.compute_individual_trajectory(_as_container(ind), ipd)
            except Exception as e:
                ctx.violation(_exc_key("compute_individual_trajectory", case, e), f"compute_individual_trajectory raised {type(e).__name__}: {str(e)[:200]}",
                              brief, id=sid, style=ind["style"], container=ind["container"])
                continue
            ctx.count("direct_trajectory_calls")
            if not isinstance(t, torch.Tensor) or tuple(t.shape) != (1, len(ind["ages"]), n_cols):
                ctx.violation("trajectory/shape", f"compute_individual_trajectory returned shape {tuple(getattr(t, 'shape', ()))}, documented "
                              f"(1, n_tpts, n_features) = {(1, len(ind['ages']), n_cols)}", brief, id=sid, style=ind["style"])
                continue
            judge_values(t[0].detach().cpu().numpy(), sid, ind["ages"], "compute_individual_trajectory")

        if compared[0] > 0:
            ctx.distinct(kind, d, k, case["obs"], case["via_json"], case["reload"], sorted((ind["style"], ind["container"]) for ind in case["individuals"]),
                         case["ix_variant"], case["ix_repeat"])
        if i < 2:
            ctx.sample({"kind": kind, "d": d, "k": k, "obs": case["obs"], "params": case["params"],
                        "individuals": [{q: ind[q] for q in ("id", "xi", "tau", "sources", "style", "container", "ages")} for ind in case["individuals"]],
                        "ix_variant": case["ix_variant"]}, limit=1)


def _exc_key(form, case, e, scalar=False):
    """Mechanism classifier for an exception raised on an admissible request."""
    msg = str(e)
    if case["kind"] == "joint" and isinstance(e, ValueError) and "Shape of passed values" in msg:
        return "estimate/joint-dataframe-columns"
    if scalar and isinstance(e, TypeError) and "collection" in msg:
        return "estimate/scalar-age-to-dataframe"
    return f"estimate/{form}/unexpected-{type(e).__name__}"


def _judge_frame(ctx, df, rows, ix, feats, n_cols, d, kind, brief, judge_values, where, pd, np, has_dup=False):
    """Structural postconditions of a DataFrame result; `rows` = requested (ID, age) in requested order."""
    tag = "multiindex" if ix is not None else "dict-to-dataframe"
    if not isinstance(df, pd.DataFrame):
        ctx.violation(f"estimate/{tag}/flag-ignored", f"{where} returned {type(df).__name__}, a DataFrame was requested", brief)
        return
    if len(df) != len(rows):
        key = "estimate/multiindex-repeated-age" if (ix is not None and has_dup and len(df) > len(rows)) else f"estimate/{tag}/row-count"
        ctx.violation(key, f"{where}: {len(rows)} rows requested, {len(df)} returned", brief, requested=len(rows), returned=len(df))
        return
    if ix is not None:
        if not (df.index.equals(ix) and list(df.index.names) == list(ix.names)):
            ctx.violation(f"estimate/{tag}/index-differs", f"{where}: result is not indexed on the given index", brief,
                          got=[tuple(map(str, t)) for t in df.index[:8]], want=[tuple(map(str, t)) for t in ix[:8]])
            return
    else:
        if list(df.index.names) != ["ID", "TIME"]:
            ctx.violation(f"estimate/{tag}/index-names", f"{where}: index names {list(df.index.names)}", brief)
            return
        got = [(str(a), float(b)) for a, b in df.index]
        if got != [(s, float(a)) for s, a in rows]:
            ctx.violation(f"estimate/{tag}/row-order", f"{where}: rows are not the requested (ID, age) pairs in the requested order", brief,
                          got=got[:8], want=rows[:8])
            return
    if kind != "joint" and list(df.columns) != list(feats):
        ctx.violation(f"estimate/{tag}/columns", f"{where}: columns {list(df.columns)} != features {feats}", brief)
        return
    if df.shape[1] != n_cols:
        ctx.violation(f"estimate/{tag}/columns", f"{where}: {df.shape[1]} columns, expected {n_cols}", brief)
        return
    if len(rows) == 0:
        return
    vals = df.to_numpy()
    # judge row by row, grouped per individual to reuse the vectorised reference
    per = {}
    for r, (s, a) in enumerate(rows):
        per.setdefault(s, []).append((r, float(a)))
    for s, lst in per.items():
        idx = [r for r, _ in lst]
        judge_values(np.asarray(vals[idx], dtype=np.float64), s, [a for _, a in lst], where)
