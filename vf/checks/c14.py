"""C14 — data ingestion yields one canonical tensor form and rejects malformed input.  DESIGN §2/C14.

Monitor: every generated table is handed to the *real* ``Data.from_dataframe`` -> ``Dataset`` -> ``Dataset.to_pandas`` and
the objects they return are compared with an independent canonicaliser (vf.refmodel.canon14, plain python from the
statement); metamorphic twins (row permutations of the same table) are compared leaspy-vs-leaspy bit for bit; an
icontract post-condition on the real ``Dataset.__init__`` checks the mask / count / ordering invariant of *every* dataset
built during the run; the caller's frame is compared with a deep snapshot after every call (accepted or refused).
Malformed tables (one malformation of a valid, accepted table at a time) must raise ``LeaspyDataInputError``.

Keys of the genuine defects seen on the unchanged tree (repro + patch in /verif/findings/C14_*):
  to_pandas/covariate-columns-nested        covariate columns of to_pandas() are 1-tuples -> re-ingestion KeyError
  order-not-first-appearance/event          event-only layout: individuals sorted by ID (groupby("ID").first())
  event-reader/column-order-assert          EVENT_BOOL column before EVENT_TIME -> bare AssertionError on a valid table
  malformed-wrong-exception/ev_flag_nan     NaN event indicator -> pandas IntCastingNaNError, not LeaspyDataInputError
  reader/categorical-id-unused-category     categorical IDs with an unused category -> TypeError / misleading refusal
When a finding fires the check goes on with the rest of the case (e.g. the nested columns are flattened and the round trip is
still compared), so that a different violation of the same property is still reported under its own key.
"""
from __future__ import annotations

RULE = (
    "valid case = one random table (1-12 subjects, 1-8 visits each incl. one-visit subjects, 1-5 features, ages >= 1.2e-3 apart "
    "within a subject, |values| <= 1e6) of one of the four layouts (visit / joint / covariate / event) with random identifier type "
    "(str, odd strings, numeric-looking str, int, nullable Int64, StringDtype, categorical of str/int with and without unused "
    "categories), column dtypes (float64/float32/int64/bool/Int64/Float64), missing pattern (none, MCAR, whole visits, feature of one "
    "subject, all but one cell, whole subject, whole column), row order (grouped, shuffled, interleaved, reversed), input form "
    "(columns, (ID,TIME) index, (TIME,ID) index, ID index, arbitrary row labels) and column order; each valid case is ingested, "
    "compared cell by cell with the reference canonical form, re-ingested under 3 row permutations and round-tripped through "
    "to_pandas().  malformed case = a valid accepted column-form table + exactly one malformation class.  evaluations = tables handed "
    "to the readers; distinct_nontrivial = distinct (layout, table content, variant) among valid tables whose first-appearance order "
    "differs from sorted order or which contain unsorted visits or missing cells, plus distinct (class, table) malformed tables"
)
REQUIRED = {
    "valid_tables_judged": 80,
    "cells_compared": 5000,
    "order_checks_nontrivial": 100,
    "unsorted_visit_tables": 40,
    "tables_with_missing": 40,
    "permutation_twins": 150,
    "roundtrips": 60,
    "caller_frame_checks": 800,
    "dataset_contract_evaluations": 800,
    "malformed_judged": 300,
    "malformed_rejected_with_data_input_error": 250,
}
ASSUMPTIONS = [
    "judged domain of valid tables: ages of one subject pairwise >= 1e-3 apart (generated >= 1.2e-3), |values| <= 1e6 (float32-injective)",
    "ages are compared after 6-digit rounding with |diff| <= 1e-6 + 1.2e-7*|age| (decimal vs binary half-way rounding + one float32 ulp); "
    "values with 2 float32 ulps; round trip: ages 1e-6 + 2.4e-7*|age| (re-rounding of a float32 age to 6 digits moves it by at most one ulp)",
    "all-NaN rows are dropped by contract (drop_full_nan=True); when that makes 'first appearance' ambiguous the order is not judged (counted)",
    "a valid table = what docs/models.md and the reader docstrings describe; column order of a DataFrame is not part of validity",
    "malformation classes the statement does not clearly promise to reject are run for information only (counters info/<class>/<outcome>)",
    "values stored under mask==0 and padded ages are not judged (C06 covers their influence)",
]

LAYOUTS = ("visit", "joint", "covariate", "event")


def shards(tier, seed):
    quick = tier == "quick"
    plan = [("visit", 3), ("joint", 2), ("covariate", 2), ("event", 1)]
    out = []
    for layout, k in plan:
        for j in range(k):
            n = (400 if layout == "event" else 110) if quick else (6000 if layout == "event" else 2500)
            out.append({"name": f"valid-{layout}-{j}", "kind": "valid", "layout": layout, "k": j, "n": n,
                        "budget_s": 200 if quick else 840})
    for layout, k in plan:
        for j in range(k):
            n = 260 if quick else 9000
            out.append({"name": f"malformed-{layout}-{j}", "kind": "malformed", "layout": layout, "k": j, "n": n,
                        "budget_s": 200 if quick else 840})
    return out


# ----------------------------------------------------------------------------------------------------------------
class DatasetContractBroken(Exception):
    pass


_contract = {"evals": 0, "problems": None}


def install_dataset_contract():
    """icontract post-condition on the real Dataset.__init__: mask / counts / ordering invariant (DESIGN §3)."""
    import icontract
    import torch
    from leaspy.io.data.dataset import Dataset

    if getattr(Dataset, "_vf_c14_contract", False):
        return Dataset

    def dataset_is_internally_consistent(self) -> bool:
        _contract["evals"] += 1
        p = []
        n = self.n_individuals
        if len(self.indices) != n or len(set(self.indices)) != n:
            p.append("indices not unique / wrong length")
        if self.values is not None:
            nv = self.n_visits_per_individual
            m = max(nv) if nv else 0
            d = self.dimension
            if tuple(self.values.shape) != (n, m, d) or tuple(self.mask.shape) != (n, m, d) or tuple(self.timepoints.shape) != (n, m):
                p.append("tensor shapes disagree with (n_individuals, n_visits_max, dimension)")
            else:
                if self.n_visits_max != m or self.n_visits != sum(nv):
                    p.append("n_visits_max / n_visits disagree with n_visits_per_individual")
                if not bool(((self.mask == 0) | (self.mask == 1)).all()):
                    p.append("mask not binary")
                if not bool(torch.isfinite(self.values).all()) or not bool(torch.isfinite(self.timepoints).all()):
                    p.append("non-finite value or age stored")
                pad = torch.arange(m).unsqueeze(0) >= torch.tensor(nv).unsqueeze(1) if n else torch.zeros((0, m), dtype=torch.bool)
                if bool((self.mask[pad] != 0).any()):
                    p.append("mask set on padding")
                if not torch.equal(self.mask.sum(dim=1).long(), self.n_observations_per_ind_per_ft.long()):
                    p.append("n_observations_per_ind_per_ft != mask count")
                if not torch.equal(self.mask.sum(dim=(0, 1)).long(), self.n_observations_per_ft.long()):
                    p.append("n_observations_per_ft != mask count")
                if int(self.mask.sum().item()) != int(self.n_observations):
                    p.append("n_observations != mask count")
                for i, k in enumerate(nv):
                    if k > 1 and not bool((self.timepoints[i, 1:k] > self.timepoints[i, : k - 1]).all()):
                        p.append(f"ages of row {i} not strictly increasing")
                        break
        if self.event_time is not None:
            if self.event_time.shape[0] != n or self.event_bool.shape != self.event_time.shape:
                p.append("event tensors misshaped")
            elif bool((self.event_bool.sum(dim=1) > 1).any()):
                p.append("several observed events for one subject")
        if self.covariates is not None and self.covariates.shape[0] != n:
            p.append("covariates misshaped")
        _contract["problems"] = p
        return not p

    Dataset.__init__ = icontract.ensure(
        dataset_is_internally_consistent, error=lambda self: DatasetContractBroken("; ".join(_contract["problems"][:3]))
    )(Dataset.__init__)
    Dataset._vf_c14_contract = True
    return Dataset


# ----------------------------------------------------------------------------------------------------------------
def _frame_problem(df, snap):
    """None if ``df`` is deeply equal to ``snap`` (values with NaN==NaN, dtypes, index, column order), else a description."""
    import pandas as pd

    if type(df) is not type(snap):
        return "type changed"
    if list(df.columns) != list(snap.columns):
        return f"columns changed: {list(snap.columns)} -> {list(df.columns)}"
    if list(df.dtypes.astype(str)) != list(snap.dtypes.astype(str)):
        return f"dtypes changed: {dict(snap.dtypes.astype(str))} -> {dict(df.dtypes.astype(str))}"
    if list(df.index.names) != list(snap.index.names):
        return f"index names changed: {list(snap.index.names)} -> {list(df.index.names)}"
    try:
        pd.testing.assert_frame_equal(df, snap, check_exact=True, check_dtype=True, check_index_type="equiv",
                                      check_column_type=True, check_categorical=True, check_names=True)
    except AssertionError as e:
        return "content changed: " + str(e)[:300]
    return None


def _ingest(df, call):
    from leaspy.io.data.data import Data

    return Data.from_dataframe(df, call["data_type"], factory_kws=dict(call["factory_kws"]), **dict(call["kws"]))


def _close(a, b, rtol, atol):
    import numpy as np

    a, b = np.asarray(a, dtype=np.float64), np.asarray(b, dtype=np.float64)
    return np.abs(a - b) <= atol + rtol * np.maximum(np.abs(a), np.abs(b))


F32_ULP = 2.0 ** -23


class Monitor:
    """All comparisons of one shard; every finding goes through ``ctx.violation`` with a mechanism key."""

    def __init__(self, ctx):
        self.ctx = ctx

    # ---- caller's frame ------------------------------------------------------------------------------------
    def unmodified(self, df, snap, case, where):
        self.ctx.count("caller_frame_checks")
        pb = _frame_problem(df, snap)
        if pb is not None:
            self.ctx.violation(f"caller-frame-modified/{where}", f"the caller's DataFrame was modified by {where}: {pb}", case)
            return False
        return True

    # ---- one valid table -----------------------------------------------------------------------------------
    def ingest_valid(self, table, case, tag):
        """Hand a valid table to the real code; returns (data, dataset, canon) or None."""
        from leaspy.io.data.dataset import Dataset
        from vf.probes import tables14 as T
        from vf.refmodel import canon14

        ctx = self.ctx
        canon = canon14.canonical(table)
        if not canon14.in_judged_domain(table, canon):
            ctx.count("outside_judged_domain_skipped")
            return None
        df, call = T.build_frame(table)
        # documented reader option: individuals (and visits) sorted by identifier instead of kept in order of first appearance
        ids0 = list(canon["ids"])
        if table["layout"] != "event" and len({type(x_) for x_ in ids0}) == 1 and not canon["order_ambiguous"] and (len(ids0) + len(case.get("label", "")) + int(case.get("index", 0))) % 5 == 0:
            call["kws"]["sort_index"] = True
            canon = dict(canon, ids=sorted(ids0))
            for k_ in list(canon):
                v_ = canon[k_]
                if k_ != "ids" and isinstance(v_, list) and len(v_) == len(ids0) and k_ != "order_ambiguous":
                    order_ = [ids0.index(x_) for x_ in canon["ids"]]
                    canon[k_] = [v_[o_] for o_ in order_]
            ctx.count("valid_tables_read_with_sort_index")
        snap = df.copy(deep=True)
        ctx.evaluated()
        try:
            data = _ingest(df, call)
            ds = Dataset(data)
        except DatasetContractBroken as e:
            self.unmodified(df, snap, case, "from_dataframe")
            ctx.violation(f"dataset-invariant/{table['layout']}", f"Dataset built from a valid table breaks its invariant: {e}", case)
            return None
        except Exception as e:
            self.unmodified(df, snap, case, "from_dataframe(refused)")
            self.classify_refusal(table, e, case, tag)
            return None
        self.unmodified(df, snap, case, "from_dataframe")
        ctx.count(f"accepted_{table['layout']}")
        return data, ds, canon

    def classify_refusal(self, table, exc, case, tag):
        """Differential classification of a valid table that was refused / crashed (mechanism, not values)."""
        from leaspy.io.data.dataset import Dataset
        from vf.probes import tables14 as T

        ctx = self.ctx
        what = f"{type(exc).__name__}: {str(exc)[:200]}"

        def works(t2):
            try:
                Dataset(_ingest(*T.build_frame(t2)))
                return True
            except Exception:
                return False

        swapped = bool(table.get("ev_swapped"))
        cat = str(table.get("id_style", "")).startswith("cat")
        plain_ids = {"id_style": "int" if table.get("id_style") == "cat_int" else "str", "cat_extra": 0}
        msg_swap = f"valid {table['layout']} table refused only because the event-flag column precedes the event-time column ({what})"
        msg_cat = (f"valid {table['layout']} table with categorical identifiers refused/crashed ({what}); the same table with plain "
                   "identifiers is accepted (unused category: declared or left after dropping all-NaN rows)")
        if swapped and works(dict(table, ev_swapped=False)):
            ctx.violation("event-reader/column-order-assert", msg_swap, case)
            return
        if cat and works(dict(table, **plain_ids)):
            ctx.violation("reader/categorical-id-unused-category", msg_cat, case)
            return
        if swapped and cat and works(dict(table, ev_swapped=False, **plain_ids)):
            # both mechanisms block this table (each repair alone is not enough)
            ctx.violation("event-reader/column-order-assert", msg_swap + " [and categorical identifiers with an unused category]", case)
            ctx.violation("reader/categorical-id-unused-category", msg_cat + " [and event columns in flag-time order]", case)
            return
        ctx.violation(f"valid-table-refused/{table['layout']}/{type(exc).__name__}", f"valid table ({tag}) refused: {what}", case)

    def compare(self, table, canon, data, ds, case, tag):
        """Dataset / Data against the reference canonical form.  Returns True when everything judged agreed."""
        import numpy as np
        from vf.refmodel import canon14

        ctx, layout = self.ctx, table["layout"]
        ok = True

        def bad(key, what, **obs):
            nonlocal ok
            ok = False
            ctx.violation(key, f"[{tag}] {what}", case, **obs)

        ids = canon["ids"]
        got = list(ds.indices)
        if len(got) != len(ids) or set(got) != set(ids) or ds.n_individuals != len(ids):
            bad(f"individuals/set-mismatch/{layout}", "set of individuals differs from the table", expected=ids, got=got)
            return False
        if any(isinstance(a, str) != isinstance(b, str) for a, b in zip(sorted(got, key=str), sorted(ids, key=str))):
            bad(f"individuals/id-type-changed/{layout}", "identifier type changed (str <-> int)", expected=ids[:5], got=got[:5])
        if canon["order_ambiguous"]:
            ctx.count("order_ambiguous_not_judged")
        else:
            ctx.count("order_checks")
            if ids != sorted(ids, key=lambda x: (str(type(x)), x)):
                ctx.count("order_checks_nontrivial")
            if got != ids:
                bad(f"order-not-first-appearance/{layout}", "rows of the dataset are not in order of first appearance in the table",
                    expected=ids, got=got, got_is_sorted=got == sorted(got))
        # Data container agrees with Dataset
        if list(data.individuals.keys()) != got or [data.iter_to_idx[k] for k in range(len(got))] != got or data.n_individuals != len(got):
            bad(f"data/iter_to_idx-inconsistent/{layout}", "Data.individuals / iter_to_idx / Dataset.indices disagree")
        pos = {i: a for a, i in enumerate(got)}

        if layout != "event":
            feats = table["features"]
            if list(ds.headers) != feats or ds.dimension != len(feats):
                bad(f"headers-mismatch/{layout}", "headers differ from the feature columns", expected=feats, got=list(ds.headers))
                return False
            cnt = canon14.counts(table, canon)
            perm = [pos[i] for i in ids]  # canonical row a  <->  dataset row perm[a]
            ctx.count("count_checks")
            got_cnt = {
                "n_visits_per_individual": [int(ds.n_visits_per_individual[p]) for p in perm],
                "n_visits_max": int(ds.n_visits_max),
                "n_visits": int(ds.n_visits),
                "n_observations_per_ind_per_ft": [[int(x) for x in ds.n_observations_per_ind_per_ft[p].tolist()] for p in perm],
                "n_observations_per_ft": [int(x) for x in ds.n_observations_per_ft.tolist()],
                "n_observations": int(ds.n_observations),
            }
            for k, v in cnt.items():
                if got_cnt[k] != v:
                    bad(f"counts/{k}", f"{k} differs from the recount", expected=v, got=got_cnt[k])
            if data.n_visits != cnt["n_visits"]:
                bad("counts/data.n_visits", "Data.n_visits differs from the recount", expected=cnt["n_visits"], got=data.n_visits)
            if got_cnt["n_visits_per_individual"] != cnt["n_visits_per_individual"]:
                return False
            ages, vals, mask = canon14.padded(table, canon)
            tp = ds.timepoints.numpy()[perm]
            va = ds.values.numpy()[perm]
            ma = ds.mask.numpy()[perm]
            if tp.shape != ages.shape or va.shape != vals.shape:
                bad(f"shapes/{layout}", "padded tensor shapes differ", expected=list(vals.shape), got=list(va.shape))
                return False
            real = ~np.isnan(ages)
            ctx.count("cells_compared", int(real.sum()) * (1 + len(feats)))
            # ages: sorted, aligned, rounded to 6 digits then cast to float32
            for a in range(len(ids)):
                k = cnt["n_visits_per_individual"][a]
                if k > 1 and not (np.diff(tp[a, :k]) > 0).all():
                    bad(f"visits-not-increasing/{layout}", "visits of a subject are not strictly increasing in age", id=ids[a], got=tp[a, :k])
            exp32 = ages.astype(np.float32).astype(np.float64)
            okt = _close(tp[real], exp32[real], 1.2e-7, 1e-6)
            if not okt.all():
                bad(f"ages-misaligned/{layout}", "ages differ from the table (sorted, 6-digit rounded, float32)", expected=exp32[real][~okt][:5],
                    got=tp[real][~okt][:5])
            # Data level (float64): each age is a 6-digit decimal within 5e-7 of the cell
            # (a float32 TIME column is rounded in float32 by pandas: the result is then within one float32 ulp of the 6-digit grid)
            on_grid = table.get("time_dtype") != "float32"
            for a, i in enumerate(ids):
                t64 = np.asarray(data.individuals[i].timepoints, dtype=np.float64)
                e64 = np.asarray(canon["ind"][i]["ages"], dtype=np.float64)
                tol = 1.0000001e-6 + (0.0 if on_grid else 1.2e-7 * np.abs(e64))
                if t64.shape != e64.shape or not (np.abs(t64 - e64) <= tol).all() or (on_grid and not (
                        np.abs(t64 * 1e6 - np.rint(t64 * 1e6)) <= 1e-3 * np.maximum(1.0, np.abs(t64) / 1e3)).all()):
                    bad(f"data-ages-not-rounded/{layout}", "IndividualData.timepoints are not the table's ages rounded to 6 digits", id=i,
                        expected=e64[:6], got=t64[:6])
                    break
            # mask == indicator of present entries (and 0 on padding)
            if not ((ma != 0) == mask).all() or not np.isin(ma, (0.0, 1.0)).all():
                bad(f"mask-not-indicator/{layout}", "mask differs from the indicator of present table cells",
                    n_expected=int(mask.sum()), n_got=int((ma != 0).sum()))
            else:
                v_exp = vals[mask].astype(np.float32).astype(np.float64)
                okv = _close(va[mask], v_exp, 2 * F32_ULP, 1e-37)
                if not okv.all():
                    bad(f"values-misaligned/{layout}", "values differ from the table cells (float32 cast)", expected=v_exp[~okv][:5],
                        got=va[mask][~okv][:5])
            if not np.isfinite(va).all():
                bad(f"values-nonfinite/{layout}", "non-finite value stored in the dataset")
        else:
            if ds.values is not None or ds.timepoints is not None:
                bad("event-layout-has-values", "event-only table produced longitudinal tensors")

        if layout in ("event", "joint"):
            nb = canon["nb_events"]
            et = ds.event_time.numpy()
            eb = ds.event_bool.numpy()
            ctx.count("event_checks", len(ids))
            if et.shape != (len(ids), nb) or eb.shape != (len(ids), nb):
                bad(f"event-shape/{layout}", "event tensors are not (n_individuals, nb_events)", expected=[len(ids), nb], got=list(et.shape))
            else:
                for i in ids:
                    e = canon["ind"][i]
                    exp_b = [e["ev_flag"] == k + 1 for k in range(nb)]
                    if not (np.abs(et[pos[i]] - e["ev_time"]) <= 1.0000001e-6).all() or [bool(x) for x in eb[pos[i]]] != exp_b:
                        bad(f"event-misaligned/{layout}", "event time / indicator differ from the table", id=i,
                            expected=[e["ev_time"], exp_b], got=[et[pos[i]], eb[pos[i]]])
                        break
            if (ds.event_time_name, ds.event_bool_name) != tuple(table["ev_names"]):
                bad(f"event-names/{layout}", "event column names not kept")
        if layout == "covariate":
            cv = ds.covariates.numpy()
            ctx.count("covariate_checks", len(ids))
            exp = np.array([canon["ind"][i]["covs"] for i in ids], dtype=np.int64)
            if cv.shape != (len(ids), len(table["covs"])) or not (cv[[pos[i] for i in ids]] == exp).all():
                bad("covariates-misaligned", "covariates differ from the table", expected=exp[:5], got=cv[:5])
            if list(ds.covariate_names) != table["covs"]:
                bad("covariate-names", "covariate names not kept")
        return ok

    # ---- metamorphic: leaspy vs leaspy, bit-identical per-individual content ----------------------------------
    def same_content(self, table, ds_a, ds_b, case, how):
        import numpy as np

        ctx, layout = self.ctx, table["layout"]
        ctx.count("permutation_twins")
        if set(ds_a.indices) != set(ds_b.indices):
            ctx.violation(f"row-order-dependence/{layout}", f"[{how}] set of individuals depends on the row order", case)
            return
        pb = {i: k for k, i in enumerate(ds_b.indices)}
        for a, i in enumerate(ds_a.indices):
            b = pb[i]
            diff = None
            if layout != "event":
                ka, kb = ds_a.n_visits_per_individual[a], ds_b.n_visits_per_individual[b]
                if ka != kb:
                    diff = "number of visits"
                elif not np.array_equal(ds_a.timepoints[a, :ka].numpy(), ds_b.timepoints[b, :kb].numpy()):
                    diff = "ages"
                elif not np.array_equal(ds_a.mask[a, :ka].numpy(), ds_b.mask[b, :kb].numpy()):
                    diff = "mask"
                elif not np.array_equal(ds_a.values[a, :ka].numpy(), ds_b.values[b, :kb].numpy()):
                    diff = "values"
            if diff is None and layout in ("event", "joint"):
                if not np.array_equal(ds_a.event_time[a].numpy(), ds_b.event_time[b].numpy()) or not np.array_equal(
                        ds_a.event_bool[a].numpy(), ds_b.event_bool[b].numpy()):
                    diff = "event"
            if diff is None and layout == "covariate" and not np.array_equal(ds_a.covariates[a].numpy(), ds_b.covariates[b].numpy()):
                diff = "covariates"
            if diff:
                ctx.violation(f"row-order-dependence/{layout}", f"[{how}] content of individual {i!r} depends on the row order of the input ({diff})", case)
                return

    # ---- round trip -----------------------------------------------------------------------------------------
    def roundtrip(self, table, ds, case):
        import numpy as np
        from leaspy.io.data.dataset import Dataset
        from vf.probes import tables14 as T

        ctx, layout = self.ctx, table["layout"]
        _, call = T.build_frame(table)
        ctx.count("roundtrips")
        try:
            p = ds.to_pandas()
        except Exception as e:
            ctx.violation(f"to_pandas/raises/{layout}", f"to_pandas() of a dataset built from a valid table raised {type(e).__name__}: {str(e)[:200]}", case)
            return
        if layout != "event" and (p.index.names != ["ID", "TIME"]):
            ctx.violation(f"to_pandas/index-names/{layout}", f"to_pandas() index is {list(p.index.names)}, documented ['ID','TIME']", case)
        if any(isinstance(c, tuple) for c in p.columns):
            ctx.violation("to_pandas/covariate-columns-nested",
                          f"to_pandas() names the covariate columns {[c for c in p.columns if isinstance(c, tuple)]} (tuples from a nested list) "
                          "instead of the covariate names; the table cannot be re-ingested", case)
            p = p.copy()
            p.columns = [c[0] if isinstance(c, tuple) and len(c) == 1 else c for c in p.columns]
            ctx.count("roundtrip_continued_after_flattening_columns")
        if layout != "event":
            # the table itself: one row per visit, NaN exactly on absent entries
            feats = table["features"]
            n_nan = int(p[feats].isna().to_numpy().sum())
            if len(p) != ds.n_visits or n_nan != ds.n_visits * ds.dimension - ds.n_observations:
                ctx.violation(f"to_pandas/nan-pattern/{layout}", "to_pandas() rows / NaN cells do not match n_visits / n_observations", case,
                              rows=len(p), n_visits=ds.n_visits, nan_cells=n_nan, expected_nan=ds.n_visits * ds.dimension - ds.n_observations)
        snap = p.copy(deep=True)
        ctx.evaluated()
        try:
            data2 = _ingest(p, call)
            ds2 = Dataset(data2)
        except Exception as e:
            self.unmodified(p, snap, case, "from_dataframe(roundtrip)")
            ctx.violation(f"roundtrip/re-ingestion-fails/{layout}", f"to_pandas() output refused on re-ingestion: {type(e).__name__}: {str(e)[:200]}", case)
            return
        self.unmodified(p, snap, case, "from_dataframe(roundtrip)")
        order_p = list(dict.fromkeys(p.index.get_level_values("ID").tolist()))
        if list(ds2.indices) != order_p:
            ctx.violation(f"order-not-first-appearance/{layout}", "[roundtrip] re-ingested dataset not in order of first appearance of to_pandas() table",
                          case, expected=order_p, got=list(ds2.indices))
        if set(ds2.indices) != set(ds.indices):
            ctx.violation(f"roundtrip/individuals/{layout}", "round trip changes the set of individuals", case, a=list(ds.indices), b=list(ds2.indices))
            return
        p2 = {i: k for k, i in enumerate(ds2.indices)}
        for a, i in enumerate(ds.indices):
            b = p2[i]
            diff = None
            if type(i) is not type(ds2.indices[b]) and isinstance(i, str) != isinstance(ds2.indices[b], str):
                diff = "identifier type"
            if layout != "event":
                ka, kb = ds.n_visits_per_individual[a], ds2.n_visits_per_individual[b]
                if ka != kb:
                    diff = f"number of visits {ka} -> {kb}"
                else:
                    ta, tb = ds.timepoints[a, :ka].numpy(), ds2.timepoints[b, :kb].numpy()
                    ma, mb = ds.mask[a, :ka].numpy(), ds2.mask[b, :kb].numpy()
                    va, vb = ds.values[a, :ka].numpy(), ds2.values[b, :kb].numpy()
                    if not _close(ta, tb, 2 * F32_ULP, 1e-6).all():
                        diff = "ages beyond float32 rounding"
                    elif not np.array_equal(ma, mb):
                        diff = "mask (missing entries not restored)"
                    elif not _close(va[ma != 0], vb[ma != 0], 2 * F32_ULP, 1e-37).all():
                        diff = "values beyond float32 rounding"
            if diff is None and layout in ("event", "joint"):
                if ds.event_time.shape != ds2.event_time.shape or not (np.abs(ds.event_time[a].numpy() - ds2.event_time[b].numpy()) <= 1e-6).all() \
                        or not np.array_equal(ds.event_bool[a].numpy(), ds2.event_bool[b].numpy()):
                    diff = "event"
            if diff is None and layout == "covariate" and not np.array_equal(ds.covariates[a].numpy(), ds2.covariates[b].numpy()):
                diff = "covariates"
            if diff:
                ctx.violation(f"roundtrip/content-changed/{layout}", f"round trip through to_pandas() changes individual {i!r}: {diff}", case)
                return
        if layout != "event" and (list(ds2.headers) != list(ds.headers) or ds2.n_observations != ds.n_observations or ds2.n_visits != ds.n_visits):
            ctx.violation(f"roundtrip/headers-or-counts/{layout}", "round trip changes headers or counts", case)
        ctx.count("roundtrips_compared")


# ----------------------------------------------------------------------------------------------------------------
def _case(i, spec, table, extra=None):
    from vf.probes import tables14 as T

    c = {"index": i, "shard": spec["name"], "table": T.summary(table), "rows_head": table["rows"][:12]}
    if extra:
        c.update(extra)
    return c


def _run_valid(spec, ctx, mon):
    from vf.probes import tables14 as T

    layout = spec["layout"]
    for i in ctx.cases(spec["n"]):
        rng = ctx.rng("c14-valid", layout, spec["k"], i)
        table = T.gen_valid(rng, layout)
        case = _case(i, spec, table)
        res = mon.ingest_valid(table, case, "base")
        if res is None:
            continue
        data, ds, canon = res
        ctx.count("valid_tables_judged")
        mon.compare(table, canon, data, ds, case, "base")
        # non-triviality accounting (measured on the table)
        ids = canon["ids"]
        unsorted_visits = False
        if layout != "event":
            seen = {}
            for r in table["rows"]:
                if r["id"] in seen and r["time"] < seen[r["id"]]:
                    unsorted_visits = True
                seen[r["id"]] = max(seen.get(r["id"], r["time"]), r["time"])
            if unsorted_visits:
                ctx.count("unsorted_visit_tables")
            if any(v is None for r in table["rows"] for v in r["vals"]):
                ctx.count("tables_with_missing")
            if canon["n_dropped_rows"]:
                ctx.count("tables_with_dropped_all_nan_rows")
            if any(len(e["ages"]) == 1 for e in canon["ind"].values()):
                ctx.count("tables_with_one_visit_subject")
        nontrivial = len(ids) > 1 and (ids != sorted(ids, key=lambda x: (str(type(x)), x)) or unsorted_visits)
        if nontrivial or layout == "event":
            ctx.distinct("valid", layout, table["rows"], table.get("id_style"), table.get("form"), table.get("feat_dtypes"))
        ctx.count(f"idstyle_{table.get('id_style')}")
        ctx.count(f"form_{table.get('form')}")
        if i < 2:
            ctx.sample({"kind": "valid", **T.summary(table), "dataset_indices": list(ds.indices)[:6]}, limit=1)
        # metamorphic twins
        for how in ("shuffled", "interleaved", "reversed"):
            t2 = T.permuted(table, how, ctx.rng("c14-perm", layout, spec["k"], i, how))
            case2 = _case(i, spec, t2, {"twin": how})
            res2 = mon.ingest_valid(t2, case2, f"twin:{how}")
            if res2 is None:
                continue
            data2, ds2, canon2 = res2
            mon.compare(t2, canon2, data2, ds2, case2, f"twin:{how}")
            mon.same_content(table, ds, ds2, case2, how)
        mon.roundtrip(table, ds, case)


def _run_malformed(spec, ctx, mon):
    from leaspy.exceptions import LeaspyDataInputError
    from leaspy.io.data.dataset import Dataset
    from vf.probes import tables14 as T

    layout = spec["layout"]
    judged = T.judged_classes(layout)
    names = sorted(judged)
    info = T.INFO[layout]
    info_names = sorted(info)
    for i in ctx.cases(spec["n"]):
        rng = ctx.rng("c14-malformed", layout, spec["k"], i)
        table = T.gen_valid(rng, layout, simple=True)
        df0, call = T.build_frame(table)
        is_info = rng.random() < 0.12
        cls = info_names[int(rng.integers(len(info_names)))] if is_info else names[(i + int(rng.integers(2)) * 7) % len(names)]
        fn = info[cls] if is_info else judged[cls]
        case = _case(i, spec, table, {"malformation": cls})
        # the un-malformed table must be accepted, otherwise a refusal proves nothing
        try:
            Dataset(_ingest(df0, call))
        except Exception:
            ctx.count("malformed_base_not_accepted_skipped")
            continue
        bad = fn(df0.copy(deep=True), table, rng)
        if bad is None:
            ctx.count("malformation_not_applicable_skipped")
            continue
        variant = "columns"
        if hasattr(bad, "columns"):
            if rng.random() < 0.4 and len(bad) > 1:
                bad = bad.sample(frac=1.0, random_state=int(rng.integers(2 ** 31))).reset_index(drop=True)
                variant += "+shuffled"
            if layout != "event" and rng.random() < 0.3 and {"ID", "TIME"} <= set(bad.columns) and not cls.startswith("id_"):
                bad = bad.set_index(["ID", "TIME"])
                variant = variant.replace("columns", "index")
            snap = bad.copy(deep=True)
        else:
            snap = None
        case["variant"] = variant
        ctx.evaluated()
        outcome, detail = "accepted", ""
        try:
            Dataset(_ingest(bad, call))
        except LeaspyDataInputError as e:
            outcome, detail = "data_input_error", str(e)[:120]
        except DatasetContractBroken as e:  # ingestion accepted the table; the dataset built from it is broken
            outcome, detail = "accepted", f"(dataset invariant broken: {e})"
        except Exception as e:
            outcome, detail = "other_exception", f"{type(e).__name__}: {str(e)[:160]}"
        if snap is not None:
            mon.unmodified(bad, snap, case, f"from_dataframe(malformed,{outcome})")
        if is_info:
            ctx.count(f"info/{cls}/{outcome}")
            ctx.count("info_cases_not_judged")
            continue
        ctx.count("malformed_judged")
        ctx.count(f"malformed/{cls}")
        ctx.distinct("malformed", layout, cls, variant, table["rows"])
        if outcome == "data_input_error":
            ctx.count("malformed_rejected_with_data_input_error")
            if i < 40:
                ctx.sample({"kind": "malformed", "layout": layout, "class": cls, "variant": variant, "refusal": detail}, limit=1)
        elif outcome == "accepted":
            ctx.violation(f"malformed-accepted/{cls}", f"{layout} table with malformation '{cls}' was silently accepted", case)
        else:
            ctx.violation(f"malformed-wrong-exception/{cls}",
                          f"{layout} table with malformation '{cls}' raised {detail} instead of LeaspyDataInputError", case)


def run_shard(spec, ctx):
    import warnings

    warnings.filterwarnings("ignore")
    install_dataset_contract()
    mon = Monitor(ctx)
    if spec["kind"] == "valid":
        _run_valid(spec, ctx, mon)
    else:
        _run_malformed(spec, ctx, mon)
    ctx.count("dataset_contract_evaluations", _contract["evals"])
