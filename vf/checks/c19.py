"""C19 — temperature and proposal-scale schedules stay within their documented envelopes.  DESIGN §2/C19.

Oracle: reference-model comparison + per-event monitors on executions of the real code (vf.refmodel.sched19):
(a) temperature — the real algorithm object (built by algorithm_factory from real AlgorithmSettings) is driven through
    _initialize_annealing() + n_iter x _update_temperature(); the observed (temperature, temperature_inv) trace is judged
    against the exact rational plateau schedule and the envelope of the statement.  The same monitors judge the trace
    recorded inside real short fits / personalizations (class-level taps on _initialize_annealing, _update_temperature and
    on every sampler.sample(): the temperature_inv each sampler actually received is compared with the trace).
(b) proposal scale — every (_update_acceptation_rate, _update_std) pair of real sampler objects (all four kinds, built
    by the real _initialize_algo) is checked against a rolling-window model fed by the recorded acceptance vectors:
    real histories (sample() calls, also inside the fits) and synthetic histories injected at the sampler boundary.
"""
from __future__ import annotations

RULE = (
    "temperature: a case = one configuration (algorithm, n_iter 1..300, annealing n_iter_frac | explicit count incl. 0, counts < "
    "n_plateau-1 and counts > n_iter, initial temperature 1<T<=100 mostly non-dyadic decimals, n_plateau 1..20, annealing off, "
    "refused configurations) driven on the real algorithm object, or one real fit/personalization (n_iter<=40) observed through "
    "class-level taps; distinct = distinct (algorithm, n_iter, annealing iterations, T0, n_plateau, on/off) with annealing on. "
    "proposal scale: a case = one acceptance history on one real sampler object (kind x window length 1..50 x band x factor x "
    "per-block pattern all-accept/all-reject/alternating/exactly-on-band/random, or the real history of sample() calls); "
    "distinct = distinct (sampler kind, block shape, window length, band, factor, patterns | model). evaluations = configurations "
    "+ fits + histories; every temperature update and every std update is one monitor evaluation (counters)."
)
REQUIRED = {
    "temp_configs_driven": 1500, "temp_updates_judged": 100000, "temp_degenerate_configs": 100, "temp_zero_annealing_configs": 40,
    "temp_exact_schedule_configs": 500, "temp_off_configs": 100, "temp_refusals": 20, "temp_second_runs_of_same_object": 300,
    "fit_runs_completed_or_judged": 12, "fit_temperature_updates": 150, "fit_sampler_calls_with_temperature": 500,
    "std_histories": 1000, "std_updates_judged": 30000, "std_adaptations": 2000, "std_blocks_lowered": 500, "std_blocks_raised": 500,
    "std_blocks_inside_band": 500, "std_blocks_exactly_on_band": 100, "std_window_comparisons": 30000,
    "std_kind_PopulationGibbsSampler": 100, "std_kind_PopulationFastGibbsSampler": 100,
    "std_kind_PopulationMetropolisHastingsSampler": 100, "std_kind_IndividualGibbsSampler": 100, "std_real_sample_calls": 1500,
}
ASSUMPTIONS = [
    "plateau length of the documented scheme = floor(annealing iterations / (n_plateau-1)); when it is 0 only the envelope is judged",
    "temps[k] = temperature after k updates = in effect during iteration k+1; 'annealing iterations over' <=> k >= annealing n_iter; "
    "for 0 annealing iterations temps[0] may be T0 or 1 (weakest reading)",
    "n_plateau = 1 is judged by the documented warning ('you will stay at initial temperature'), not by 'exactly 1 afterwards'",
    "oscillating scheme not judged (statement: default scheme); negative annealing counts and T0<=1 are outside the quantifier",
    "temperatures before the end of annealing compared at 1e-11 absolute (<=20 float64 subtractions); after it: exact equality with 1",
    "std ratio compared at 2 float32 ulps (scalar cast + product rounding); 'unchanged' is bit-identity; band decisions on exact "
    "rationals (0/1 acceptances, decimal bounds with <=3 digits => margin >= 2e-5 or exactly 0)",
    "synthetic histories are bounded so that std0*(1-f)^m stays above 1e-30 (float32 range is a representation limit, the underflow "
    "class is run for information only)",
]

T0_POOL = [5, 7, 10, 10.5, 2, 1.5, 3.3, 100, 99.9, 1.1, 2.5, 12.7, 33, 64.25, 1.01, 4.2, 6.6, 8.1, 3, 20.3]
FRAC_POOL = [0.5, 0.3, 0.1, 0.9, 1.0, 0.29, 0.57, 0.05, 0.7, 0.33, 0.01, 0.99]
TEMP_CLASSES = ["frac", "frac", "count", "count", "exact", "exact", "degenerate", "zero", "long", "off", "single", "invalid", "frac-default-plateaus"]
DIV1000 = [2, 4, 5, 8, 10, 20, 25, 40, 50]


def shards(tier, seed):
    q = tier == "quick"
    out = [{"name": f"temp-grid-{k}", "kind": "temp", "k": k, "n": 450 if q else 15000, "budget_s": 240 if q else 840} for k in range(8)]
    out += [{"name": f"temp-fit-{k}", "kind": "fit", "k": k, "n": 14 if q else 220, "budget_s": 240 if q else 840} for k in range(3)]
    out += [{"name": f"std-synth-{k}", "kind": "synth", "k": k, "n": 30 if q else 1500, "budget_s": 240 if q else 840} for k in range(3)]
    out += [{"name": f"std-real-{k}", "kind": "real", "k": k, "n": 16 if q else 400, "budget_s": 240 if q else 840} for k in range(2)]
    return out


def run_shard(spec, ctx):
    {"temp": _temp_grid, "fit": _temp_fit, "synth": _std_synth, "real": _std_real}[spec["kind"]](spec, ctx)


# ======================================================================================================================
# (a) temperature
# ======================================================================================================================
def gen_temp_config(rng, i, max_iter=300, algos=("mcmc_saem", "mcmc_saem", "mcmc_saem", "mcmc_saem", "mcmc_saem", "mean_posterior", "mode_posterior")):
    """One annealing configuration (JSON-able).  `expect` = what the documentation lets us expect from the settings class."""
    cls = TEMP_CLASSES[i % len(TEMP_CLASSES)]
    N = int(rng.integers(1, 31)) if rng.random() < 0.35 else int(rng.integers(1, max_iter + 1))
    P = int(rng.integers(2, 21))
    if rng.random() < 0.6:
        T0 = T0_POOL[int(rng.integers(len(T0_POOL)))]
    else:
        T0 = round(float(rng.uniform(1.01, 100.0)), int(rng.integers(0, 4)))
        T0 = int(T0) if float(T0).is_integer() and rng.random() < 0.5 else T0
        if T0 <= 1:
            T0 = 1.5
    ann = {"do_annealing": True, "initial_temperature": T0, "n_plateau": P}
    expect = "accepted"
    if cls == "frac":
        ann["n_iter_frac"] = FRAC_POOL[int(rng.integers(len(FRAC_POOL)))] if rng.random() < 0.6 else round(float(rng.uniform(0.01, 1.0)), 2)
    elif cls == "frac-default-plateaus":
        ann = {"do_annealing": True}
        if rng.random() < 0.5:
            ann["initial_temperature"] = T0
        T0, P = ann.get("initial_temperature", 10), 10
    elif cls == "count":
        lo = min(P - 1, N)
        ann["n_iter"] = int(rng.integers(lo, N + 1))
        if rng.random() < 0.7:
            ann["n_iter_frac"] = None
    elif cls == "exact":  # annealing iterations = m * (n_plateau-1): number of boundaries = n_plateau-1 exactly
        P = int(rng.integers(2, min(20, N + 1) + 1))
        ann["n_plateau"] = P
        m = int(rng.integers(1, max(1, N // (P - 1)) + 1))
        ann["n_iter"] = m * (P - 1)
        ann["n_iter_frac"] = None
    elif cls == "degenerate":
        P = int(rng.integers(3, 21))
        ann["n_plateau"] = P
        ann["n_iter"] = int(rng.integers(1, P - 1))
        ann["n_iter_frac"] = None
    elif cls == "zero":
        if rng.random() < 0.5:
            ann["n_iter"] = 0
            ann["n_iter_frac"] = None
        else:
            N = int(rng.integers(1, 10))
            ann["n_iter_frac"] = [0.05, 0.1, 0.01][int(rng.integers(3))]  # int(frac*N) == 0
    elif cls == "long":
        ann["n_iter"] = int(rng.integers(N + 1, 2 * N + 2))
        ann["n_iter_frac"] = None
    elif cls == "off":
        mode = int(rng.integers(3))
        ann = None if mode == 0 else ({"do_annealing": False} if mode == 1 else dict(ann, do_annealing=False))
    elif cls == "single":
        P = 1
        ann["n_plateau"] = 1
    elif cls == "invalid":
        mode = int(rng.integers(5))
        if mode == 0:
            ann["initial_temperature"] = [1, 1.0, 0.5, -3][int(rng.integers(4))]
        elif mode == 1:
            ann["n_plateau"] = [0, -2][int(rng.integers(2))]
        elif mode == 2:
            ann["n_plateau"] = [2.0, 3.5][int(rng.integers(2))]
        elif mode == 3:
            ann["n_plateau"] = "3"
        else:
            ann["n_iter"] = None
            ann["n_iter_frac"] = None
        T0, P = ann["initial_temperature"], ann["n_plateau"]
        expect = "refused"
    algo = algos[int(rng.integers(len(algos)))]
    return {"cls": cls, "algo": algo, "n_iter": N, "annealing": ann, "T0": T0, "P": P, "expect": expect,
            "on": bool(ann and ann.get("do_annealing"))}


def build_algo(cfg):
    from leaspy.algo import AlgorithmSettings, algorithm_factory

    kw = dict(n_iter=cfg["n_iter"], progress_bar=False)
    if cfg["annealing"] is not None:
        kw["annealing"] = {k: v for k, v in cfg["annealing"].items()}
    return algorithm_factory(AlgorithmSettings(cfg["algo"], **kw))


def drive(cfg):
    """Drive the real object.  Returns dict(status=refused|ran|raised, temps, invs, A, exc, where)."""
    from leaspy.exceptions import LeaspyAlgoInputError

    out = {"temps": [], "invs": [], "A": None, "exc": None, "where": None}
    try:
        algo = build_algo(cfg)
        out["where"] = "initialize"
        algo._initialize_annealing()
    except LeaspyAlgoInputError as e:
        return dict(out, status="refused", exc=f"{type(e).__name__}: {e}")
    except Exception as e:  # noqa: BLE001  verdict-relevant: judged by the caller
        return dict(out, status="raised", exc=f"{type(e).__name__}: {e}", exc_type=type(e).__name__, where=out["where"] or "construct")
    out["A"] = algo.algo_parameters.get("annealing", {}).get("n_iter")
    out["temps"].append(algo.temperature)
    out["invs"].append(algo.temperature_inv)
    for k in range(1, cfg["n_iter"] + 1):
        algo.current_iteration = k
        try:
            algo._update_temperature()
        except Exception as e:  # noqa: BLE001
            return dict(out, status="raised", exc=f"{type(e).__name__}: {e}", exc_type=type(e).__name__, where=f"update {k}")
        out["temps"].append(algo.temperature)
        out["invs"].append(algo.temperature_inv)
    if cfg.get("rerun"):
        # the SAME algorithm object is run a second time (as `algo.run(model_b, ...)` after `algo.run(model_a, ...)` does): the
        # schedule must restart from the initial temperature and follow the same envelope
        second = {"temps": [], "invs": [], "A": out["A"], "exc": None, "where": None}
        try:
            algo._initialize_annealing()
            second["temps"].append(algo.temperature)
            second["invs"].append(algo.temperature_inv)
            for k in range(1, cfg["n_iter"] + 1):
                algo.current_iteration = k
                algo._update_temperature()
                second["temps"].append(algo.temperature)
                second["invs"].append(algo.temperature_inv)
            second["status"] = "ran"
        except Exception as e:  # noqa: BLE001
            second.update(status="raised", exc=f"{type(e).__name__}: {e}", exc_type=type(e).__name__, where="second run")
        out["second"] = second
    return dict(out, status="ran")


def judge_temperature(ctx, cfg, obs, case, prefix=""):
    """Common verdict for a driven configuration or a tapped fit.  Returns True if a violation was reported."""
    from vf.refmodel import sched19 as ref

    on, N, T0, P = cfg["on"], cfg["n_iter"], cfg["T0"], cfg["P"]
    if obs["status"] == "refused":
        ctx.count("temp_refusals")
        if cfg["expect"] != "refused":
            ctx.violation("annealing/valid-configuration-refused", f"{prefix}documented configuration refused: {obs['exc']}", case)
            return True
        return False
    if cfg["expect"] == "refused":
        ctx.count("temp_invalid_configuration_not_refused")  # outside the quantifier: counted, not judged
        return False
    A = obs["A"]
    if on and isinstance(A, int) and isinstance(P, int):
        if P >= 2 and A < P - 1:
            ctx.count("temp_zero_annealing_configs" if A == 0 else "temp_degenerate_configs")
        elif P >= 2:
            ctx.count("temp_exact_schedule_configs")
            if A <= N:
                ctx.count("temp_configs_reaching_end_of_annealing")
        else:
            ctx.count("temp_single_plateau_configs")
    elif not on:
        ctx.count("temp_off_configs")
    if obs["status"] == "raised":
        if obs.get("exc_type") == "ZeroDivisionError" and on and isinstance(A, int) and isinstance(P, int) and 1 <= A < P - 1:
            key = "annealing/zero-plateau-length"
            what = (f"{prefix}accepted configuration does not run to completion: annealing n_iter={A} < n_plateau-1={P - 1} gives plateau "
                    f"length 0 -> {obs['exc']} at {obs['where']}")
        else:
            key = "annealing/accepted-configuration-raises"
            what = f"{prefix}accepted configuration raised {obs['exc']} at {obs['where']}"
        ctx.violation(key, what, case, annealing_iterations=A, temps_so_far=obs["temps"][:6])
        return True
    if on:
        # the resolved number of annealing iterations is part of the observed state; loose documented relation only
        a = cfg["annealing"]
        if a.get("n_iter") is not None:
            ok = A == a["n_iter"]
        else:
            want = ref.frac(a.get("n_iter_frac", 0.5)) * N
            ok = isinstance(A, int) and want - 1 <= A <= want  # "ratio of n_iter", truncated
        if not ok:
            ctx.violation("annealing/annealing-iterations-count-wrong", f"{prefix}annealing iterations resolved to {A!r}", case)
            return True
    res = ref.check_temperature_trace(obs["temps"], obs["invs"], annealing_on=on, n_iter=N, A=A if on else 0, T0=T0, P=P if on else 1)
    ctx.count("temp_updates_judged", max(len(obs["temps"]) - 1, 0))
    if res is not None:
        key, msg, k = res
        lo = max(0, k - 3)
        ctx.violation(key, prefix + msg, case, annealing_iterations=A, at_update=k, temps_window={str(j): obs["temps"][j] for j in range(lo, min(len(obs["temps"]), k + 3))},
                      last_temperature=obs["temps"][-1])
        return True
    return False


def _temp_grid(spec, ctx):
    for i in ctx.cases(spec["n"]):
        rng = ctx.rng("temp", spec["k"], i)
        cfg = gen_temp_config(rng, i)
        case = {"index": i, **cfg}
        cfg["rerun"] = bool(i % 3 == 0)
        obs = drive(cfg)
        ctx.evaluated()
        ctx.count("temp_configs_driven")
        ctx.count(f"temp_class_{cfg['cls']}")
        bad = judge_temperature(ctx, cfg, obs, case)
        if not bad and obs.get("second") is not None:
            ctx.count("temp_second_runs_of_same_object")
            judge_temperature(ctx, cfg, obs["second"], dict(case, run="second run of the same algorithm object"), prefix="[second run of the same algorithm object] ")
        if cfg["on"] and obs["status"] != "refused":
            ctx.distinct("temp", cfg["algo"], cfg["n_iter"], obs["A"], str(cfg["T0"]), cfg["P"])
        if i < 2:
            ctx.sample({"config": cfg, "annealing_iterations": obs["A"], "status": obs["status"],
                        "distinct_temperatures": sorted({float(t) for t in obs["temps"]}, reverse=True)[:8]}, limit=2)


# ----------------------------------------------------------------------------------------------------------------------
class Taps:
    """Class-level recorders (installed once per shard): annealing mixin, sampler.sample, std adaptation."""

    def __init__(self):
        self.events = []
        self.keep = []  # keeps sampler objects alive so that id() stays unique within a case
        self.installed = False

    def reset(self):
        self.events = []
        self.keep = []

    def install(self):
        if self.installed:
            return
        self.installed = True
        from leaspy.algo.algo_with_annealing import AlgorithmWithAnnealingMixin as M
        from leaspy.samplers.base import AbstractSampler
        from leaspy.samplers.gibbs import AbstractPopulationGibbsSampler, GibbsSamplerMixin, IndividualGibbsSampler

        taps = self
        o_init, o_upd = M._initialize_annealing, M._update_temperature

        def init(a):
            r = o_init(a)
            taps.events.append(("init", a.temperature, a.temperature_inv, a.algo_parameters.get("annealing", {}).get("n_iter")))
            return r

        def upd(a):
            r = o_upd(a)
            taps.events.append(("update", a.current_iteration, a.temperature, a.temperature_inv))
            return r

        M._initialize_annealing, M._update_temperature = init, upd
        for cls in (AbstractPopulationGibbsSampler, IndividualGibbsSampler):
            def make(orig):
                def sample(s, state, *, temperature_inv):
                    taps.events.append(("sample", s.name, temperature_inv))
                    return orig(s, state, temperature_inv=temperature_inv)
                return sample
            cls.sample = make(cls.sample)
        o_uar, o_us = AbstractSampler._update_acceptation_rate, GibbsSamplerMixin._update_std

        def uar(s, acc):
            taps.keep.append(s)
            taps.events.append(("acc_in", id(s), s, s.acceptation_history.clone(), acc.clone()))
            return o_uar(s, acc)

        def us(s):
            before, c0 = s.std.clone(), s._counter
            r = o_us(s)
            taps.events.append(("std_update", id(s), s, c0, s._counter, before, s.std.clone(), s.acceptation_history.clone()))
            return r

        AbstractSampler._update_acceptation_rate, GibbsSamplerMixin._update_std = uar, us


_TAPS = Taps()


def sampler_params(rng, onband=False):
    """(params dict for the settings, decimal strings) — window 1..50, decimal bounds (<=3 digits), factor in (0,1)."""
    if onband:
        # window length dividing 1000 and bounds j/L: window means can sit exactly on a bound, bounds stay short decimals
        L = DIV1000[int(rng.integers(len(DIV1000)))]
        j = int(rng.integers(1, max(2, L - 1)))
        lo = j / L
        hi = (int(rng.integers(j + 1, L)) / L) if j + 1 <= L - 1 else round((lo + 1) / 2, 3)
    else:
        L = int(rng.integers(1, 51)) if rng.random() < 0.5 else int(rng.integers(1, 9))
        lo = round(float(rng.uniform(0.02, 0.6)), int(rng.integers(1, 4)))
        lo = min(max(lo, 0.01), 0.9)
        hi = round(float(rng.uniform(lo + 0.02, 0.98)), int(rng.integers(2, 4)))
        if not lo < hi < 1:
            hi = round((lo + 1) / 2, 3)
        if rng.random() < 0.3:
            lo, hi = 0.2, 0.4
    factor = [0.1, 0.1, 0.05, 0.3, 0.5, 0.25, 0.9, 0.01][int(rng.integers(8))] if rng.random() < 0.7 else round(float(rng.uniform(0.01, 0.95)), 2)
    return {"acceptation_history_length": int(L), "mean_acceptation_rate_target_bounds": (float(lo), float(hi)), "adaptive_std_factor": float(factor)}


class StdWatch:
    """Per-sampler monitor: reference window + adaptation rule against observed (acc_in, std_update) pairs."""

    def __init__(self, ctx, sampler_kind, params, initial_window, case):
        from vf.refmodel.sched19 import WindowModel

        lo, hi = params["mean_acceptation_rate_target_bounds"]
        self.m = WindowModel(params["acceptation_history_length"], lo, hi, params["adaptive_std_factor"], initial_window.numpy())
        self.ctx, self.kind, self.case, self.dead = ctx, sampler_kind, case, False
        self.c_expected = None

    def viol(self, key, what, **obs):
        self.dead = True
        self.ctx.violation(key, f"[{self.kind}] {what}", dict(self.case, sampler=self.kind, call=self.m.calls), **obs)

    def observe(self, acc, c0, c1, before, after, hist_after):
        """One (_update_acceptation_rate(acc); _update_std()) pair as observed on the real object."""
        import numpy as np

        if self.dead:
            return
        ctx, m = self.ctx, self.m
        m.push(acc.numpy())
        ctx.count("std_updates_judged")
        # call counter (anchor state `_counter`) moves in step with the calls
        if self.c_expected is None:
            self.c_expected = c0
        if c0 != self.c_expected or c1 != c0 + 1:
            return self.viol("std/call-counter-out-of-step", f"_counter went {c0} -> {c1} on call #{m.calls} (expected {self.c_expected} -> {self.c_expected + 1})")
        self.c_expected = c1
        # rolling window == last L acceptance vectors
        want = m.window()
        ctx.count("std_window_comparisons")
        if tuple(hist_after.shape) != want.shape or not np.array_equal(hist_after.numpy().astype(np.float64), want):
            return self.viol("std/window-not-last-L-acceptances", f"acceptation_history differs from the last {m.L} acceptance vectors",
                             got=hist_after.flatten()[:12], want=want.flatten()[:12])
        b, a = before.numpy().astype(np.float32), after.numpy().astype(np.float32)
        if not (np.isfinite(a).all() and (a > 0).all()):
            return self.viol("std/non-positive-or-non-finite", "std is not positive and finite after the update", std=after.flatten()[:8])
        same = b.view(np.uint32) == a.view(np.uint32)
        if not m.adaptation_due():
            if not same.all():
                return self.viol("std/changed-off-schedule", f"std changed at call #{m.calls}, not a multiple of the window length {m.L}",
                                 before=before.flatten()[:8], after=after.flatten()[:8])
            return
        dec = m.decisions()
        exp = m.expected_std(b, dec)
        ctx.count("std_adaptations")
        ctx.count("std_blocks_lowered", int((dec < 0).sum()))
        ctx.count("std_blocks_raised", int((dec > 0).sum()))
        ctx.count("std_blocks_inside_band", int((dec == 0).sum()))
        tot = m.window().sum(axis=0)
        onband = (tot == float(m.lower * m.L)) | (tot == float(m.upper * m.L))
        ctx.count("std_blocks_exactly_on_band", int(onband.sum()))
        inside_changed = (dec == 0) & ~same
        if inside_changed.any():
            return self.viol("std/changed-inside-band", f"std changed for a block whose window mean lies in the closed band (on the bound: {bool((inside_changed & onband).any())})",
                             means=(tot / m.L).flatten()[:8], band=[float(m.lower), float(m.upper)], before=before.flatten()[:8], after=after.flatten()[:8])
        outside = dec != 0
        if (outside & same).any():
            return self.viol("std/not-changed-outside-band", "std unchanged for a block whose window mean left the band",
                             means=(tot / m.L).flatten()[:8], band=[float(m.lower), float(m.upper)], before=before.flatten()[:8], after=after.flatten()[:8])
        ulp = np.spacing(np.abs(exp)).astype(np.float64)
        bad = outside & (np.abs(a.astype(np.float64) - exp.astype(np.float64)) > 2 * ulp)
        if bad.any():
            return self.viol("std/wrong-factor", f"std ratio is not 1-/+{m.factor}",
                             ratio=(a.astype(np.float64) / b.astype(np.float64)).flatten()[:8], decisions=dec.flatten()[:8])


def consume_std_events(ctx, events, watches, params_of, case):
    """Feed tapped (acc_in, std_update) events to per-sampler watches (created at a sampler's first event)."""
    pending = {}
    for e in events:
        if e[0] == "acc_in":
            _, sid, s, hist_before, acc = e
            if sid not in watches:
                kind = type(s).__name__
                watches[sid] = StdWatch(ctx, kind, params_of(s), hist_before, case)
                ctx.count("std_histories")
                ctx.count(f"std_kind_{kind}")
            if sid in pending:
                watches[sid].viol("std/update-calls-unpaired", "two acceptance updates without a std update in between")
            pending[sid] = acc
        elif e[0] == "std_update":
            _, sid, s, c0, c1, before, after, hist = e
            if sid not in pending:
                if sid in watches:
                    watches[sid].viol("std/update-calls-unpaired", "std update without acceptance update")
                continue
            watches[sid].observe(pending.pop(sid), c0, c1, before, after, hist)


def judge_tapped_run(ctx, cfg, events, exc, case, prefix):
    """Temperature part of a tapped fit / personalization."""
    from leaspy.exceptions import LeaspyAlgoInputError

    inits = [e for e in events if e[0] == "init"]
    if exc is not None and isinstance(exc, LeaspyAlgoInputError) and not [e for e in events if e[0] == "update"]:
        obs = {"status": "refused", "exc": f"{type(exc).__name__}: {exc}", "temps": [], "invs": [], "A": None}
        return judge_temperature(ctx, cfg, obs, case, prefix)
    temps, invs, A = [], [], None
    if inits:
        temps.append(inits[-1][1])
        invs.append(inits[-1][2])
        A = inits[-1][3]
    its = []
    cur_inv_samples = []
    per_iter_inv = []
    for e in events:
        if e[0] == "sample":
            cur_inv_samples.append(e[2])
        elif e[0] == "update":
            its.append(e[1])
            temps.append(e[2])
            invs.append(e[3])
            per_iter_inv.append(cur_inv_samples)
            cur_inv_samples = []
    if exc is not None:
        obs = {"status": "raised", "exc": f"{type(exc).__name__}: {exc}", "exc_type": type(exc).__name__, "where": f"iteration {len(its) + 1} of the run",
               "temps": temps, "invs": invs, "A": A}
        return judge_temperature(ctx, cfg, obs, case, prefix)
    if not inits or its != list(range(1, cfg["n_iter"] + 1)):
        ctx.inconclusive_because(f"tap did not see one initialisation + n_iter updates ({len(inits)} inits, {len(its)} updates, n_iter={cfg['n_iter']})")
        return False
    ctx.count("fit_temperature_updates", len(its))
    # what the samplers actually received during iteration k is the temperature in effect (after k-1 updates)
    for k, got in enumerate(per_iter_inv, start=1):
        ctx.count("fit_sampler_calls_with_temperature", len(got))
        if any(g != invs[k - 1] for g in got) or not got:
            ctx.violation("annealing/samplers-not-given-current-temperature", f"{prefix}iteration {k}: samplers received temperature_inv {got[:4]}, algorithm holds {invs[k - 1]!r}", case)
            return True
    obs = {"status": "ran", "temps": temps, "invs": invs, "A": A}
    return judge_temperature(ctx, cfg, obs, case, prefix)


def _temp_fit(spec, ctx):
    import random

    import torch

    from vf import gen

    _TAPS.install()
    for i in ctx.cases(spec["n"]):
        rng = ctx.rng("fit", spec["k"], i)
        cfg = gen_temp_config(rng, int(rng.integers(0, 10_000)), max_iter=40, algos=("mcmc_saem",))
        if cfg["n_iter"] > 40:
            cfg["n_iter"] = 40
        personalize = i % 4 == 3
        if personalize:
            cfg["algo"] = ["mean_posterior", "mode_posterior"][int(rng.integers(2))]
        g = gen.MODEL_GRID[int(rng.integers(len(gen.MODEL_GRID)))]
        kind_pop = ["Gibbs", "FastGibbs", "Metropolis-Hastings"][int(rng.integers(3))]
        pp, ip = sampler_params(rng), sampler_params(rng)
        pp["acceptation_history_length"] = min(pp["acceptation_history_length"], int(rng.integers(1, 8)))
        ip["acceptation_history_length"] = min(ip["acceptation_history_length"], int(rng.integers(1, 8)))
        case = {"index": i, **cfg, "model": list(map(str, g)), "sampler_pop": kind_pop, "sampler_pop_params": pp, "sampler_ind_params": ip}
        try:
            model, ds, state0, df = gen.ready_state(rng, *g, n_ind=int(rng.integers(3, 8)))
        except Exception as e:  # noqa: BLE001  data-driven initialisation is outside the property
            ctx.count("setup_skipped")
            ctx.note(f"setup_skipped_{type(e).__name__}", str(e)[:200])
            continue
        seed = int(rng.integers(1 << 30))
        torch.manual_seed(seed)
        random.seed(seed)
        kw = dict(n_iter=cfg["n_iter"], progress_bar=False, seed=seed, sampler_ind_params=dict(ip))
        if cfg["annealing"] is not None:
            kw["annealing"] = dict(cfg["annealing"])
        _TAPS.reset()
        exc = None
        try:
            if personalize:
                model.personalize(ds, cfg["algo"], **kw)
            else:
                model.fit(ds, "mcmc_saem", sampler_pop=kind_pop, sampler_pop_params=dict(pp), **kw)
        except Exception as e:  # noqa: BLE001  verdict-relevant
            exc = e
        events = _TAPS.events
        ctx.evaluated()
        ctx.count("fit_runs_completed_or_judged")
        ctx.count("fit_personalizations" if personalize else "fit_fits")
        prefix = f"[real {'personalization ' + cfg['algo'] if personalize else 'fit'}] "
        if exc is not None and not _is_algo_input_error(exc) and not _raised_in_annealing_code(exc):
            # a crash whose traceback never enters the annealing mixin (data-driven initialisation, sampling numerics ...) is
            # not a statement about the schedules: skipped and counted
            ctx.count("setup_skipped")
            ctx.note(f"fit_error_outside_annealing_{type(exc).__name__}", str(exc)[:200])
            continue
        judge_tapped_run(ctx, cfg, events, exc, case, prefix)
        from leaspy.samplers.base import AbstractIndividualSampler

        watches = {}
        consume_std_events(ctx, events, watches, lambda s: ip if isinstance(s, AbstractIndividualSampler) else pp, case)
        n_std = sum(1 for e in events if e[0] == "std_update")
        ctx.count("std_real_sample_calls", n_std)
        if cfg["on"]:
            ctx.distinct("fit", cfg["algo"], cfg["n_iter"], str(cfg["annealing"]), case["model"])
        if i < 1:
            ctx.sample({"fit": case, "n_events": len(events)}, limit=1)
        _TAPS.reset()


def _is_algo_input_error(e):
    from leaspy.exceptions import LeaspyAlgoInputError

    return isinstance(e, LeaspyAlgoInputError)


def _raised_in_annealing_code(e):
    tb = e.__traceback__
    while tb is not None:
        if tb.tb_frame.f_code.co_filename.endswith("algo_with_annealing.py"):
            return True
        tb = tb.tb_next
    return False


# ======================================================================================================================
# (b) proposal scale
# ======================================================================================================================
PATTERNS = ["all-accept", "all-reject", "alternating", "on-lower", "on-upper", "random", "random", "bursts"]


def block_history(rng, pattern, n_calls, L, lo, hi):
    """0/1 sequence of length n_calls for one block."""
    import numpy as np

    if pattern == "all-accept":
        return np.ones(n_calls)
    if pattern == "all-reject":
        return np.zeros(n_calls)
    if pattern == "alternating":
        return (np.arange(n_calls) + int(rng.integers(2))) % 2.0
    if pattern in ("on-lower", "on-upper"):
        tgt = (lo if pattern == "on-lower" else hi) * L
        j = int(round(tgt))
        period = np.zeros(L)
        period[rng.permutation(L)[:j]] = 1.0
        return np.tile(period, n_calls // L + 1)[:n_calls]
    if pattern == "bursts":
        out = np.zeros(n_calls)
        k = 0
        while k < n_calls:
            ln = int(rng.integers(1, 2 * L + 2))
            out[k:k + ln] = float(rng.integers(2))
            k += ln
        return out
    p = float(rng.choice([lo * 0.5, (lo + hi) / 2, min(0.99, hi * 1.3), rng.uniform(0, 1)]))
    return (rng.random(n_calls) < p).astype(float)


def _std_synth(spec, ctx):
    import numpy as np
    import torch

    from leaspy.samplers.base import AbstractIndividualSampler
    from vf import gen
    from vf.checks.c02 import make_algo
    from vf.probes.samplers import SamplerProbe

    for i in ctx.cases(spec["n"]):
        rng = ctx.rng("synth", spec["k"], i)
        g = gen.MODEL_GRID[int(rng.integers(len(gen.MODEL_GRID)))]
        try:
            model, ds, state0, df = gen.ready_state(rng, *g, n_ind=int(rng.integers(2, 9)))
        except Exception as e:  # noqa: BLE001
            ctx.count("setup_skipped")
            ctx.note(f"setup_skipped_{type(e).__name__}", str(e)[:200])
            continue
        for kind_pop in ("Gibbs", "FastGibbs", "Metropolis-Hastings"):
            onband = rng.random() < 0.5
            pp, ip = sampler_params(rng, onband), sampler_params(rng, onband)
            try:
                algo, state = make_algo(model, ds, rng, sampler_pop=kind_pop, sampler_pop_params=dict(pp), sampler_ind_params=dict(ip))
            except Exception as e:  # noqa: BLE001
                ctx.count("setup_skipped")
                ctx.note(f"setup_skipped_{type(e).__name__}", str(e)[:200])
                continue
            for nm, s in algo.samplers.items():
                prm = ip if isinstance(s, AbstractIndividualSampler) else pp
                L = prm["acceptation_history_length"]
                lo, hi = prm["mean_acceptation_rate_target_bounds"]
                f = prm["adaptive_std_factor"]
                kind = type(s).__name__
                # bound the number of adaptations so that the exact product stays far inside the float32 range (stated domain)
                std_min, std_max = float(s.std.min()), float(s.std.max())
                n_adapt = int(rng.integers(3, 13))
                while n_adapt > 1 and (std_min * (1 - f) ** n_adapt < 1e-30 or std_max * (1 + f) ** n_adapt > 1e30):
                    n_adapt -= 1
                n_calls = L * n_adapt + int(rng.integers(0, L))
                shape = tuple(s.shape_acceptation)
                nblk = int(np.prod(shape)) if shape else 1
                pats = [PATTERNS[int(rng.integers(len(PATTERNS)))] for _ in range(nblk)]
                if onband and rng.random() < 0.7:
                    pats[int(rng.integers(nblk))] = "on-lower" if rng.random() < 0.5 else "on-upper"
                hist = np.stack([block_history(rng, p, n_calls, L, lo, hi) for p in pats], axis=1).reshape((n_calls,) + shape)
                case = {"index": i, "model": list(map(str, g)), "sampler_pop": kind_pop, "variable": nm, "params": prm, "patterns": pats[:12], "n_calls": n_calls}
                probe = SamplerProbe(s)
                watch = StdWatch(ctx, kind, prm, s.acceptation_history.clone(), case)
                ctx.count("std_histories")
                ctx.count(f"std_kind_{kind}")
                ctx.evaluated()
                for c in range(n_calls):
                    start = len(probe.trace)
                    acc = torch.tensor(hist[c], dtype=torch.float32)
                    s._update_acceptation_rate(acc)
                    s._update_std()
                    ev = probe.trace[start:]
                    if [e[0] for e in ev] != ["acc_in", "std_update"]:
                        ctx.inconclusive_because(f"sampler probe recorded {[e[0] for e in ev]} for one injected pair")
                        break
                    (_, acc_seen), (_, c0, c1, before, after, _h) = ev
                    watch.observe(acc_seen, c0, c1, before, after, s.acceptation_history.clone())
                    if watch.dead:
                        break
                del probe.trace[:]
                ctx.distinct("synth", kind, shape, L, lo, hi, f, tuple(pats[:6]))
                if i < 1 and nm == "xi":
                    ctx.sample({"synthetic_history": case, "std_after": s.std.flatten()[:4]}, limit=1)
        # information only: float32 underflow under a forced one-sided history (outside the judged domain, see ASSUMPTIONS)
        if i == 0:
            try:
                algo, state = make_algo(model, ds, rng, sampler_ind_params={"acceptation_history_length": 1, "mean_acceptation_rate_target_bounds": (0.2, 0.4), "adaptive_std_factor": 0.9})
                s = algo.samplers["xi"]
                n0 = None
                for c in range(80):
                    s._update_acceptation_rate(torch.zeros(s.shape_acceptation))
                    s._update_std()
                    if n0 is None and bool((s.std == 0).any()):
                        n0 = c + 1
                ctx.note("info_forced_all_reject_factor_0.9_window_1_std_hits_zero_after_calls", n0)
                ctx.count("info_underflow_probe")
            except Exception as e:  # noqa: BLE001
                ctx.note("info_underflow_probe_error", repr(e)[:200])


def _std_real(spec, ctx):
    import random

    import torch

    from leaspy.samplers.base import AbstractIndividualSampler
    from vf import gen
    from vf.checks.c02 import make_algo
    from vf.probes.samplers import SamplerProbe

    for i in ctx.cases(spec["n"]):
        rng = ctx.rng("real", spec["k"], i)
        g = gen.MODEL_GRID[int(rng.integers(len(gen.MODEL_GRID)))]
        kind_pop = ["Gibbs", "FastGibbs", "Metropolis-Hastings"][i % 3]
        pp, ip = sampler_params(rng), sampler_params(rng)
        pp["acceptation_history_length"] = int(rng.integers(1, 9))
        ip["acceptation_history_length"] = int(rng.integers(1, 9))
        try:
            model, ds, state0, df = gen.ready_state(rng, *g, n_ind=int(rng.integers(3, 9)))
            seed = int(rng.integers(1 << 30))
            torch.manual_seed(seed)
            random.seed(seed)
            algo, state = make_algo(model, ds, rng, sampler_pop=kind_pop, sampler_pop_params=dict(pp), sampler_ind_params=dict(ip))
        except Exception as e:  # noqa: BLE001
            ctx.count("setup_skipped")
            ctx.note(f"setup_skipped_{type(e).__name__}", str(e)[:200])
            continue
        scale = str(rng.choice(["normal", "huge", "tiny", "mixed"]))
        for nm, s in algo.samplers.items():
            if scale == "huge":
                s.std = s.std * 50.0
            elif scale == "tiny":
                s.std = s.std * 1e-3
            elif scale == "mixed" and s.std.ndim >= 1 and s.std.numel() > 1:
                s.std = s.std.clone()
                s.std[0] = s.std[0] * 200.0
        case = {"index": i, "model": list(map(str, g)), "sampler_pop": kind_pop, "sampler_pop_params": pp, "sampler_ind_params": ip, "scale": scale}
        probes = {nm: SamplerProbe(s) for nm, s in algo.samplers.items()}
        watches = {}
        for nm, s in algo.samplers.items():
            prm = ip if isinstance(s, AbstractIndividualSampler) else pp
            watches[nm] = StdWatch(ctx, type(s).__name__, prm, s.acceptation_history.clone(), dict(case, variable=nm))
            ctx.count("std_histories")
            ctx.count(f"std_kind_{type(s).__name__}")
            ctx.evaluated()
        n_it = int(rng.integers(12, 40))
        dead = False
        for it in range(n_it):
            tinv = float(rng.choice([1.0, 1.0, 0.5, 0.1]))
            names = sorted(algo.samplers)
            rng.shuffle(names)
            for nm in names:
                s = algo.samplers[nm]
                try:
                    ev = probes[nm].sample(state, tinv)
                except Exception as e:  # noqa: BLE001  a sampling crash is not about the schedules (C02/C03 judge it)
                    ctx.count("sampling_error_skipped")
                    ctx.note(f"sampling_error_{type(e).__name__}", str(e)[:200])
                    dead = True
                    break
                ctx.count("std_real_sample_calls")
                kinds = [e[0] for e in ev if e[0] in ("acc_in", "std_update")]
                if kinds != ["acc_in", "std_update"]:
                    watches[nm].viol("std/update-calls-unpaired", f"one sample() call made the update calls {kinds}")
                    dead = True
                    break
                acc = [e for e in ev if e[0] == "acc_in"][0][1]
                _, c0, c1, before, after, _h = [e for e in ev if e[0] == "std_update"][0]
                watches[nm].observe(acc, c0, c1, before, after, s.acceptation_history.clone())
                del probes[nm].trace[:]
                if watches[nm].dead:
                    dead = True
                    break
            if dead:
                break
        ctx.distinct("real", case["model"], kind_pop, str(pp), str(ip), scale)
        if i < 1:
            ctx.sample({"real_history": case, "iterations": n_it}, limit=1)
