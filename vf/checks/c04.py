"""C04 — the maximization step is the closed-form maximizer of the sufficient statistics.  DESIGN §2/C04.

Oracle: vf.refmodel.mstep (float64) evaluated at EVERY M-step of real MCMC-SAEM runs from the snapshot taken by
MStepProbe at entry of update_parameters (parameters before, statistics in force, burn-in flag) and an independent
recount of observed entries from the data table.
"""
from __future__ import annotations

RULE = (
    "a case = one real MCMC-SAEM fit (8-40 iterations) of a (model kind, sources, noise) cell on a generated cohort with a missing-data "
    "pattern in {none, mcar, heavy, whole feature for a subject}, with the memory-less boundary placed at {0, 1, mid, n_iter-1, n_iter}; every "
    "parameter after every M-step is compared with the documented closed form. evaluations = parameter comparisons; distinct_nontrivial = "
    "distinct (model cell, parameter, phase in {memoryless, with-memory}, missing pattern) tuples compared at least once"
)
REQUIRED = {"fits_on_a_reconfigured_algorithm_object": 10, "msteps": 300, "cmp_pop_mean": 300, "cmp_ind_mean": 300, "cmp_ind_std_burn_in": 100, "cmp_ind_std_sa": 100,
            "cmp_noise_scalar": 50, "cmp_noise_diagonal": 50, "cmp_mixture_probs": 10, "cmp_together": 100, "boundary_iterations_checked": 15, "mixture_steps_with_a_nearly_empty_cluster": 3, "fits_on_an_algorithm_object_already_run_once": 10}
ASSUMPTIONS = [
    "float32 sums over <= ~500 observations: rtol 2e-4, atol 1e-6",
    "mixture model: per-cluster means/stds use a responsibility weighting the documentation does not pin - inside fits only probabilities (= mean "
    "responsibilities, summing to one), population means and noise are judged for that kind; in the direct M-steps on constructed states the cluster "
    "means of tau / xi are also compared with the responsibility-weighted average of the individuals' values (the repository's own rule), for "
    "clusters whose total responsibility is a normal float32 number (>= 1e-30)",
    "fits aborted by leaspy's own convergence guard (variance collapsed) are skipped and counted",
]
MISSING = ["none", "mcar", "heavy", "feature"]


def shards(tier, seed):
    q = tier == "quick"
    return [{"name": f"mstep-{k}", "k": k, "n": 5 if q else 70, "budget_s": 150 if q else 1500} for k in range(16)]


def fit_with_probe(model, ds, settings_kw, on_step=None, before_suffstats=None, reconfigure=None, prerun=None):
    """What BaseModel.fit does, but with the probe installed on the algorithm instance.
    `reconfigure`: parameters given to the documented ``algorithm.load_parameters`` between construction and run."""
    from leaspy.algo import AlgorithmSettings, algorithm_factory
    from vf.probes.algo import MStepProbe

    settings = AlgorithmSettings("mcmc_saem", progress_bar=False, **settings_kw)
    algo = algorithm_factory(settings)
    if reconfigure:
        import contextlib as _c
        import io as _io

        with _c.redirect_stdout(_io.StringIO()):
            algo.load_parameters(dict(reconfigure))
    if not model.is_initialized:
        model.initialize(ds)
    if prerun is not None:
        # the algorithm object has already served: a complete run on another model (whatever it leaves in the object must not matter)
        import contextlib as _c
        import io as _io

        m0, d0 = prerun
        if not m0.is_initialized:
            m0.initialize(d0)
        with _c.redirect_stdout(_io.StringIO()):
            algo.run(m0, d0)
    probe = MStepProbe(algo, model, on_step=on_step, before_suffstats=before_suffstats)
    import contextlib
    import io

    with contextlib.redirect_stdout(io.StringIO()):
        try:
            algo.run(model, ds)
        finally:
            probe.uninstall()
    return algo, probe


def run_shard(spec, ctx):
    import numpy as np
    import torch

    from leaspy.exceptions import LeaspyConvergenceError
    from leaspy.variables.specs import IndividualLatentVariable, ModelParameter, PopulationLatentVariable
    from vf import gen
    from vf.checks.c15 import install_contract
    from vf.refmodel import mstep as M

    install_contract()
    RTOL, ATOL = 2e-4, 1e-6
    for i in ctx.cases(spec["n"]):
        rng = ctx.rng("mstep", spec["k"], i)
        g = gen.MODEL_GRID[(spec["k"] * 5 + i) % len(gen.MODEL_GRID)]
        kind, dim, src, noise = g
        missing = MISSING[(spec["k"] + i) % 4]
        n_iter = int(rng.integers(8, 41))
        nb = [0, 1, n_iter // 2, n_iter - 1, n_iter][(spec["k"] // 2 + i) % 5]
        events = kind == "joint"
        case = {"index": i, "model": list(map(str, g)), "missing": missing, "n_iter": n_iter, "n_burn_in_iter": nb}
        try:
            n_cl = int(rng.choice([2, 4, 5])) if kind == "mixture_logistic" else None
            df = gen.cohort(rng, n_ind=int(rng.integers(4, 12)) if kind != "mixture_logistic" else int(rng.integers(20, 40)), n_feat=dim, missing=missing, events=events,
                            one_visit_ok=not events, binary=(noise == "bernoulli"), subpops=(max(n_cl - 1, 2) if n_cl else 1))
            ds = gen.to_dataset(df, events=events)
            if kind == "mixture_logistic" and rng.random() < 0.6:
                # the repository's own simulated mixture cohort (heterogeneous sub-populations: clusters do get nearly empty there)
                import os

                import leaspy
                import pandas as pd

                raw = pd.read_csv(os.path.join(os.path.dirname(leaspy.__file__), "datasets", "data", "simulated_data_for_mixture.csv"), sep=";", decimal=",")
                raw["ID"] = raw["ID"].ffill()
                first = int(rng.integers(0, 60))
                ids = raw["ID"].unique()[first: first + int(rng.integers(30, 50))]
                raw = raw[raw["ID"].isin(ids)]
                dim = raw.shape[1] - 2
                from leaspy.io.data.data import Data
                from leaspy.io.data.dataset import Dataset

                ds = Dataset(Data.from_dataframe(raw.set_index(["ID", "TIME"])))
                n_iter = min(n_iter, 12)
                nb = min(nb, n_iter)
                case.update(dataset="leaspy/datasets/data/simulated_data_for_mixture.csv", first_subject=first, n_subjects=len(ids), n_iter=n_iter, n_burn_in_iter=nb)
                ctx.count("mixture_fits_on_bundled_cohort")
            kw = {"n_clusters": n_cl} if kind == "mixture_logistic" else {}
            case["n_clusters"] = kw.get("n_clusters")
            if "dataset" in case:
                kw["features"] = list(ds.headers)
            model = gen.make_model(kind, dim, src, noise, **kw) if noise else gen.make_model(kind, dim, src, **kw)
            model.initialize(ds)
        except Exception as e:
            ctx.count("setup_skipped")
            ctx.note(f"setup_skipped_{type(e).__name__}", str(e)[:160])
            continue
        y = ds.values.numpy().astype(np.float64)
        mask = ds.mask.numpy().astype(bool)
        in_visit_missing = bool((mask.any(axis=-1, keepdims=True) & ~mask).any())
        dag = model.dag
        pop = set(dag.sorted_variables_by_type.get(PopulationLatentVariable, {}))
        ind = set(dag.sorted_variables_by_type.get(IndividualLatentVariable, {}))
        is_mix = kind == "mixture_logistic"
        dead = {"v": False}

        def on_step(rec, state, _case=case):
            if dead["v"]:
                return
            try:
                _on_step(rec, state, _case)
            except Exception:
                import traceback

                dead["v"] = True
                ctx.inconclusive_because("harness error in M-step monitor: " + traceback.format_exc()[-600:])

        def _on_step(rec, state, _case):
            ctx.count("msteps")
            S, before, after = rec["S_used"], rec["params_before"], rec["params_after"]
            # the phase is derived from the iteration index and the configured length of the memory-less phase - NOT from the flag the
            # algorithm hands to the model (a wrong flag at the boundary iteration is exactly what must be seen)
            burn = rec["k"] <= rec["n_burn_in_iter"]
            if bool(rec["burn_in_flag"]) != burn:
                ctx.count("phase_flag_differs_from_iteration_index")
            phase = "memoryless" if burn else "with-memory"
            if rec["k"] == rec["n_burn_in_iter"] + 1:
                ctx.count("boundary_iterations_checked")
            for p, new in after.items():
                got = M.f64(new)[0]
                want, tag, extra_atol = None, None, 0.0
                base = p[: -len("_mean")] if p.endswith("_mean") else (p[: -len("_std")] if p.endswith("_std") else None)
                if p.endswith("_mean") and base in pop:
                    want, tag = M.pop_mean(S[base]), "pop_mean"
                elif p.endswith("_mean") and base in ind and not is_mix:
                    want, tag = M.ind_mean(S[base]), "ind_mean"
                elif p.endswith("_std") and base in ind and not is_mix:
                    if burn:
                        want, tag = M.ind_std_burn_in(S[base]), "ind_std_burn_in"
                    else:
                        mean_is_param = f"{base}_mean" in before
                        mu_old = M.f64(before[f"{base}_mean"] if mean_is_param else state[f"{base}_mean"])[0]
                        want, tag = M.ind_std_sa(S[base], S[f"{base}_sqr"], mu_old), "ind_std_sa"
                        # float32 cancellation in mean(v^2) - 2 mu mean(v) + mu^2 (tau ~ 70 => terms ~ 4900, variance ~ 1)
                        v_, v2_ = M.f64(S[base])[0], M.f64(S[f"{base}_sqr"])[0]
                        mag = np.abs(v2_.mean(axis=0)) + 2 * np.abs(mu_old * v_.mean(axis=0)) + mu_old ** 2
                        extra_atol = float(np.max(4 * 6e-8 * mag / (2 * np.maximum(np.asarray(want), 1e-6))))
                        # "updated together": the pre-step mean must have been used, not the freshly updated one
                        if mean_is_param:
                            mu_new = M.f64(after[f"{base}_mean"])[0]
                            alt = M.ind_std_sa(S[base], S[f"{base}_sqr"], mu_new)
                            if not M.close(alt, want, RTOL, ATOL + extra_atol):
                                ctx.count("cmp_together")  # the two candidates are distinguishable on this step
                elif p in ("tau_mean", "xi_mean") and is_mix and rec.get("nll_regul_ind_sum_ind") is not None and rec.get("direct_mixture"):
                    # the repository's own rule for the mixture: responsibility-weighted average of the individuals' values, cluster by cluster
                    r = M.responsibilities(rec["nll_regul_ind_sum_ind"])
                    x = M.f64(state[base])[0].reshape(-1)
                    mass = r.sum(axis=0)
                    want = (r * x[:, None]).sum(axis=0) / mass
                    tag = "mixture_cluster_mean"
                    judged_cl = mass >= 1e-30  # below: float32 denormal responsibilities, the average is rounding noise
                    if not judged_cl.all():
                        ctx.count("mixture_cluster_means_not_judged_denormal_mass")
                    if (mass[judged_cl] < 1e-7).any():
                        ctx.count("mixture_cluster_means_with_tiny_mass_judged")
                    g_ = np.asarray(got).reshape(-1)
                    if g_.shape == want.shape:
                        got, want = g_[judged_cl], want[judged_cl]
                    extra_atol = 1e-3 * float(np.abs(x).max())
                elif p == "noise_std" and "y_x_model" in S:
                    per_ft = got.size > 1
                    want, tag = M.noise_std(y, mask, S["y_x_model"], S["model_x_model"], per_ft), ("noise_diagonal" if per_ft else "noise_scalar")
                    # float32 cancellation in sum(y^2 - 2 y.model + model^2): the statistics are float32 products (relative error 6e-8 each)
                    # and the residual variance may be orders of magnitude below the terms (nearly noise-free data)
                    yxm_, mxm_ = np.abs(M.f64(S["y_x_model"])[0]), np.abs(M.f64(S["model_x_model"])[0])
                    mag = np.where(mask, y ** 2 + 2 * yxm_ + mxm_, 0.0)
                    mag = mag.sum(axis=(0, 1)) / np.maximum(mask.sum(axis=(0, 1)), 1) if per_ft else mag.sum() / max(mask.sum(), 1)
                    extra_atol = float(np.max(4 * 6e-8 * mag / (2 * np.maximum(np.asarray(want), 1e-6))))
                elif p == "probs" and is_mix and rec.get("nll_regul_ind_sum_ind") is not None:
                    r = M.responsibilities(rec["nll_regul_ind_sum_ind"])
                    want, tag = r.mean(axis=0), "mixture_probs"
                    if float(want.min()) < 1e-2:
                        ctx.count("mixture_steps_with_a_nearly_empty_cluster")
                    if abs(float(got.sum()) - 1.0) > 1e-5:
                        dead["v"] = True
                        ctx.violation("mstep/mixture-probs-not-normalised", f"mixture probabilities sum to {float(got.sum())}", dict(_case, k=rec["k"]))
                        return
                else:
                    ctx.count(f"params_not_modelled_{p}")
                    continue
                ctx.count(f"cmp_{tag}")
                ctx.evaluated()
                ctx.distinct(_case["model"], p, phase, _case["missing"])
                if not M.close(got.reshape(-1), np.asarray(want).reshape(-1), RTOL, ATOL + extra_atol):
                    key = f"mstep/{tag}"
                    if tag == "noise_scalar" and in_visit_missing:
                        # name the mechanism: model^2 summed over every entry of real visits instead of observed entries
                        vm = mask.any(axis=-1, keepdims=True) & np.ones_like(mask)
                        yxm, mxm = M.f64(S["y_x_model"])[0], M.f64(S["model_x_model"])[0]
                        alt = np.sqrt((np.where(mask, y ** 2 - 2 * yxm, 0.0).sum() + np.where(vm, mxm, 0.0).sum()) / mask.sum())
                        if M.close(got.reshape(-1), np.asarray(alt).reshape(-1), RTOL, ATOL):
                            key = "scalar-noise/model-square-unmasked"
                    ctx.violation(key, f"after M-step {rec['k']} ({phase}) parameter '{p}' is not the documented closed form of the statistics in force",
                                  dict(_case, k=rec["k"], parameter=p), got=got.reshape(-1)[:6].tolist(), want=np.asarray(want).reshape(-1)[:6].tolist())
                    if key != "scalar-noise/model-square-unmasked":
                        dead["v"] = True
                        return

        try:
            prerun = None
            if (spec["k"] + i) % 3 == 2 and "dataset" not in case:
                try:
                    m0 = gen.make_model(kind, dim, src, noise, **kw) if noise else gen.make_model(kind, dim, src, **kw)
                    m0.initialize(ds)
                    prerun = (m0, ds)
                    case["algorithm_object_already_run_once"] = True
                    ctx.count("fits_on_an_algorithm_object_already_run_once")
                except Exception:
                    prerun = None
            nb_built, reconf = nb, None
            if (spec["k"] + i) % 4 == 1:
                # the algorithm object is built with another length of the memory-less phase and reconfigured through the documented
                # `load_parameters` before it runs: the phase of every iteration is the one of the parameters in force
                nb_built = [v for v in (n_iter, 0, n_iter // 3) if v != nb][0]
                reconf = {"n_burn_in_iter": nb}
                case["algorithm_built_with_n_burn_in_iter"] = nb_built
                ctx.count("fits_on_a_reconfigured_algorithm_object")
            fit_with_probe(model, ds, dict(n_iter=n_iter, n_burn_in_iter=nb_built, n_burn_in_iter_frac=None, seed=int(rng.integers(1 << 30))), on_step=on_step, prerun=prerun,
                           reconfigure=reconf)
        except LeaspyConvergenceError:
            ctx.count("fit_aborted_by_convergence_guard")
        except Exception as e:
            if not dead["v"]:
                ctx.count("fit_aborted_other")
                ctx.note(f"fit_aborted_{type(e).__name__}", str(e)[:200])
        # ---- direct M-steps on constructed states (mixture): individuals concentrated on one cluster, so that the other clusters are
        # nearly empty - a region fits reach only on a knife edge (iteration 1 of some cohorts) -----------------------------------------
        if is_mix and not dead["v"]:
            try:
                from vf.probes.algo import _cp

                st = model.state.clone()
                with st.auto_fork(None):
                    if not st.is_variable_set("y"):
                        model.put_data_variables(st, ds)
                    n_i = ds.n_individuals
                    for rep in range(3):
                        c = int(rng.integers(0, kw["n_clusters"]))
                        # well separated, narrow clusters (admissible parameter values), all individuals drawn near cluster c
                        tm0 = st["tau_mean"]
                        # far apart (the other clusters' responsibilities fall to the -100 floor) or moderately apart (7-10 prior std-devs: the
                        # other clusters keep a total responsibility of 1e-9 ... 1e-20, small but a normal float32 number)
                        spacing = 40.0 if rep != 1 else float(rng.uniform(6.5, 9.5))
                        st["tau_mean"] = (60.0 + spacing * torch.arange(tm0.numel(), dtype=tm0.dtype)).reshape(tm0.shape)
                        st["tau_std"] = torch.ones_like(st["tau_std"])
                        tm = st["tau_mean"].reshape(-1)
                        xm = st["xi_mean"].reshape(-1)
                        st["tau"] = (tm[c] + torch.tensor(rng.normal(0, 0.5, size=(n_i, 1)))).to(torch.float64)
                        st["xi"] = (xm[c] + torch.tensor(rng.normal(0, 0.05, size=(n_i, 1)))).to(torch.float64)
                        if "sources" in model.individual_variables_names:
                            st["sources"] = torch.tensor(rng.normal(0, 0.3, size=(n_i, src)), dtype=torch.float32)
                        burn = bool(rep % 2)
                        rec = {"k": 1 if burn else 2, "n_burn_in_iter": 1, "burn_in_flag": burn, "direct_mixture": True,
                               "params_before": {p_: _cp(st._values[p_]) for p_ in model.parameters_names},
                               "nll_regul_ind_sum_ind": _cp(st["nll_regul_ind_sum_ind"])}
                        S = model.compute_sufficient_statistics(st)
                        rec["nll_regul_ind_sum_ind"] = _cp(st["nll_regul_ind_sum_ind"])  # after the re-centring done by the statistics step
                        rec["S_used"] = {k_: _cp(v_) for k_, v_ in S.items()}
                        model.update_parameters(st, S, burn_in=burn)
                        rec["params_after"] = {p_: _cp(st._values[p_]) for p_ in model.parameters_names}
                        ctx.count("direct_msteps_concentrated_mixture")
                        on_step(rec, st, dict(case, direct_mstep="individuals concentrated on cluster %d" % c))
            except LeaspyConvergenceError:
                ctx.count("direct_mstep_convergence_guard")
            except Exception as e:
                ctx.count("direct_mstep_skipped")
                ctx.note(f"direct_mstep_skipped_{type(e).__name__}", str(e)[:200])
        # ---- direct M-steps on nearly collapsed states (every kind but the mixture): dispersions of the individual variables and
        # residuals around the variance guard of the update rules (1e-5): the step either refuses (convergence error) or returns the
        # closed form - fits reach that region only on noise-free / very homogeneous cohorts -----------------------------------------
        if not is_mix and not dead["v"]:
            from vf.probes.algo import _cp
            from leaspy.utils.weighted_tensor import WeightedTensor

            y_keep, mask_keep = y, mask
            for rep in range(4):
                try:
                    st = model.state.clone()
                    with st.auto_fork(None):
                        if not st.is_variable_set("y"):
                            model.put_data_variables(st, ds)
                        n_i = ds.n_individuals
                        scale = float(10 ** rng.uniform(-3.3, -1.8))  # std 5e-4 .. 1.6e-2: variance 2.5e-7 .. 2.5e-4
                        for v in sorted(ind):
                            cur = st[v]
                            mu = st[f"{v}_mean"] if f"{v}_mean" in st.dag else torch.zeros(())
                            st[v] = (torch.zeros_like(cur) + mu + scale * torch.tensor(rng.normal(size=tuple(cur.shape)), dtype=cur.dtype)).to(cur.dtype)
                        expect_refusal = False  # (the memory-less rule of the individual std-devs is a plain standard deviation: no guard there)
                        if noise and noise.startswith("gaussian") and rep == 3:
                            # graded (relative, non 0/1) weights on the observed entries, ordinary dispersions: the noise level is the weighted RMS residual
                            yw = st["y"]
                            gw = torch.where(yw.weight.bool(), torch.tensor(rng.choice([0.5, 1.0, 1.5], size=tuple(yw.weight.shape)), dtype=torch.float32), torch.zeros(()))
                            for v in sorted(ind):
                                cur = st[v]
                                st[v] = cur + 0.3 * torch.tensor(rng.normal(size=tuple(cur.shape)), dtype=cur.dtype)
                            st["y"] = WeightedTensor(yw.value, gw)
                            mask = gw.numpy().astype(np.float64)
                            expect_refusal = False
                            ctx.count("direct_msteps_with_graded_observation_weights")
                        elif noise and noise.startswith("gaussian") and rep != 1:
                            # observations = current model values + a tiny residual, on its own scale for every feature
                            yw = st["y"]
                            mod = st["model"]
                            mod = mod.value if isinstance(mod, WeightedTensor) else mod
                            fscale = torch.tensor(10 ** rng.uniform(-3.3, -1.8, size=mod.shape[-1]), dtype=mod.dtype)
                            if rng.random() < 0.35:
                                fscale[int(rng.integers(0, mod.shape[-1]))] = 0.0  # one feature reproduced exactly by the model
                            res = fscale * torch.tensor(rng.normal(size=tuple(mod.shape)), dtype=mod.dtype)
                            newy = torch.where(yw.weight.bool(), mod + res, torch.zeros_like(mod))
                            st["y"] = WeightedTensor(newy, yw.weight)
                            y = newy.numpy().astype(np.float64)
                            r2 = np.where(mask, res.numpy().astype(np.float64) ** 2, 0.0)
                            var_ft = r2.sum(axis=(0, 1)) / np.maximum(mask.sum(axis=(0, 1)), 1)
                            var_ref = var_ft if noise == "gaussian-diagonal" else np.array([r2.sum() / max(mask.sum(), 1)])
                            if float(var_ref.min()) == 0.0:
                                # a noise level of exactly 0 (or the NaN of a rounding-negative variance) is no admissible standard deviation:
                                # the documented behaviour of the update rules is a convergence error
                                expect_refusal = True
                                if float(var_ref.max()) > 3e-5:
                                    ctx.count("direct_msteps_partially_collapsed_noise")
                        elif rep == 3:
                            continue
                        burn = True
                        rec = {"k": 1, "n_burn_in_iter": 1, "burn_in_flag": burn, "params_before": {p_: _cp(st._values[p_]) for p_ in model.parameters_names}}
                        S = model.compute_sufficient_statistics(st)
                        rec["S_used"] = {k_: _cp(v_) for k_, v_ in S.items()}
                        model.update_parameters(st, S, burn_in=burn)
                        rec["params_after"] = {p_: _cp(st._values[p_]) for p_ in model.parameters_names}
                        ctx.count("direct_msteps_nearly_collapsed")
                        if expect_refusal:
                            # documented domain of the std-dev rules: a variance below the guard (1e-5) in ANY component is a convergence error
                            dead["v"] = True
                            ctx.violation("mstep/collapsed-variance-accepted", "a maximisation step whose noise variance is exactly 0 for one component (feature reproduced exactly) "
                                          "was accepted instead of being refused with the documented convergence error", dict(case, direct_mstep="nearly collapsed dispersions", scale=scale),
                                          noise_std=[float(x_) for x_ in np.atleast_1d(M.f64(rec["params_after"].get("noise_std", torch.zeros(())))[0]).reshape(-1)[:6]])
                            break
                        on_step(rec, st, dict(case, direct_mstep="nearly collapsed dispersions" if rep != 3 else "graded observation weights", scale=scale))
                except LeaspyConvergenceError:
                    ctx.count("direct_msteps_refused_by_convergence_guard")
                except Exception as e:
                    ctx.count("direct_mstep_skipped")
                    ctx.note(f"direct_mstep_skipped_{type(e).__name__}", str(e)[:200])
                finally:
                    y, mask = y_keep, mask_keep
        if i < 1:
            ctx.sample(case, limit=1)
