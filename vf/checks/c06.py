"""C06 — missing and padded observations never influence any result.  DESIGN §2/C06.

Oracle: metamorphic twin executions of the real code.  Twin (a): same tensors, garbage (0, +-1e30, +-inf, NaN, random) written
at masked positions of Dataset.values and in the padding of Dataset.timepoints after the loader ran -> every monitored
quantity must be BIT-identical.  Twin (b): padding widened by extra all-masked visit columns -> state-level quantities,
statistics, one M-step and optimisation-based personalisation agree at 5e-6 relative (reduction order may change).
Monitored: nll_attach(_ind), model at real visits, n_obs*, y_L2*, every sufficient statistic (where weight>0), parameters
after one M-step, personalize outputs (scipy_minimize, mean/mode posterior), parameters of a short seeded fit.
"""
from __future__ import annotations

RULE = (
    "a case = (generated cohort with a missing-data pattern, model kind, garbage class | padding width); the real code is executed on the "
    "loader's dataset and on its twin and every monitored quantity is compared. evaluations = quantity comparisons; distinct_nontrivial = "
    "distinct (model cell, missing pattern, twin kind, garbage value class / width, quantity family) tuples for cohorts that really have masked "
    "entries inside real visits or padding"
)
REQUIRED = {"cmp_state_terms": 150, "cmp_suffstats": 150, "cmp_mstep": 60, "cmp_personalize": 20, "cmp_fit": 10, "twins_garbage": 30, "twins_widened": 12,
            "masked_in_visit_entries_cases": 8, "padding_cases": 12, "cmp_reput": 100, "cmp_noise_recount": 15, "cmp_noise_recount_frozen_state_averaged_steps": 20, "algebra_compared": 300, "fit_initialisations_checked": 60, "cmp_benchmark_padding": 100, "cmp_used_dataset_with_entries_hidden_in_place": 10,
            "algebra_compared_int_weights": 40, "algebra_compared_graded_weights": 40}
ASSUMPTIONS = [
    "garbage twins: bit-identity demanded (same shapes and op order; masked numbers must never enter a sum)",
    "widened twins: 5e-6 relative; MCMC-based personalisation and fits are not judged under widening (a one-ulp change may legitimately flip a "
    "Metropolis decision) - only under garbage, where bit-identity makes the chains identical",
    "event tensors have no padding; for the joint model the longitudinal block is what is monitored",
]
GARBAGE = {"zero": 0.0, "huge": 1e30, "-huge": -1e30, "inf": float("inf"), "-inf": float("-inf"), "nan": float("nan"), "rand": None, "binary-flip": "flip"}
GRID = [("logistic", 1, 0, "gaussian-scalar"), ("logistic", 3, 1, "gaussian-scalar"), ("logistic", 3, 2, "gaussian-diagonal"), ("linear", 2, 1, "gaussian-diagonal"),
        ("linear", 3, 0, "gaussian-scalar"), ("shared_speed_logistic", 3, 1, None), ("joint", 3, 1, None), ("logistic", 2, 1, "bernoulli"),
        ("mixture_logistic", 3, 2, None), ("logistic", 2, 0, "gaussian-diagonal")]
MISSING = ["mcar", "heavy", "feature", "none"]


def shards(tier, seed):
    q = tier == "quick"
    return ([{"name": f"twins-{k}", "k": k, "n": 4 if q else 60, "budget_s": 170 if q else 1500} for k in range(16)]
            + [{"name": f"algebra-{k}", "kind": "algebra", "k": k, "n": 400 if q else 6000, "budget_s": 60 if q else 600} for k in range(2)])


def _benchmark_padding(spec, ctx):
    """Benchmark (constant) model: what it predicts for an individual does not depend on how much padding its row gets, i.e. on how many visits
    the OTHER individuals of the cohort have - whatever the origin of the time axis (ages, or years before / after an event)."""
    import warnings

    import numpy as np
    import pandas as pd

    from leaspy.io.data import Data, Dataset
    from leaspy.models import ConstantModel

    for j in range(12):
        r = ctx.rng("bench-pad", spec["k"], j)
        nf = int(r.integers(1, 4))
        feats = [f"F{k}" for k in range(nf)]
        origin = float(r.choice([70.0, 0.0, -30.0]))
        rows = []
        n_short = int(r.integers(1, 4))
        t0 = np.sort(np.round(origin + r.uniform(-8, 8, size=n_short), 2))
        t0 = np.unique(t0)
        for t in t0:
            rows.append(["target", float(t)] + [float(x) if r.random() > 0.25 else np.nan for x in r.random(nf)])
        alone = pd.DataFrame(rows, columns=["ID", "TIME"] + feats)
        if alone[feats].isna().all(axis=None):
            alone.loc[0, feats[0]] = 0.5
        others = []
        for s_ in range(int(r.integers(1, 4))):
            for t in np.unique(np.round(origin + r.uniform(-10, 10, size=int(r.integers(len(t0) + 1, len(t0) + 5))), 2)):
                others.append([f"other{s_}", float(t)] + list(r.random(nf)))
        cohort = pd.concat([alone, pd.DataFrame(others, columns=["ID", "TIME"] + feats)], ignore_index=True)
        for ptype in ("last", "last_known", "max", "mean"):
            with warnings.catch_warnings():
                warnings.simplefilter("ignore")
                try:
                    a = ConstantModel("constant").personalize(Dataset(Data.from_dataframe(alone, drop_full_nan=False)), "constant_prediction", prediction_type=ptype)["target"]
                    b = ConstantModel("constant").personalize(Dataset(Data.from_dataframe(cohort, drop_full_nan=False)), "constant_prediction", prediction_type=ptype)["target"]
                except Exception as e:
                    ctx.note(f"benchmark_padding_skipped_{type(e).__name__}", str(e)[:160])
                    continue
            ctx.count("cmp_benchmark_padding")
            ctx.evaluated()
            va = np.array([np.asarray(a[f], dtype=float).reshape(-1)[0] for f in feats])
            vb = np.array([np.asarray(b[f], dtype=float).reshape(-1)[0] for f in feats])
            if not np.array_equal(va, vb, equal_nan=True):
                ctx.violation("masked/benchmark/padding", f"constant model ({ptype}): the prediction for an individual changes when it is personalised inside a cohort whose "
                              "other individuals have more visits (its row gets padded)", {"index": -1 - j, "model": ["constant"], "prediction_type": ptype, "time_origin": origin},
                              alone=va.tolist(), in_cohort=vb.tolist(), ages=t0.tolist())
                break


def _algebra(spec, ctx):
    """The masked-tensor layer itself: whatever sits at entries of weight 0 of an operand (finite, huge, NaN, inf) never shows in a weighted result -
    for boolean, integer and float weights, for operands whose weights have the same or another (broadcastable) shape. An operation the layer
    refuses (documented: weights that differ) is fine; an accepted one must be blind to the garbage."""
    import numpy as np
    import torch

    from leaspy.utils.weighted_tensor import WeightedTensor, sum_dim, wsum_dim

    GARB = [7.5, -3.0, 1e30, float("nan"), float("inf"), float("-inf")]
    for i in ctx.cases(spec["n"]):
        r = ctx.rng("algebra", spec["k"], i)
        n, T, F = int(r.integers(1, 5)), int(r.integers(1, 6)), int(r.integers(1, 4))
        wkind = ["bool", "int", "float01", "graded"][i % 4]

        def weights(shape):
            m = r.random(shape) < 0.65
            if wkind == "bool":
                return torch.tensor(m)
            if wkind == "int":
                return torch.tensor(m.astype(np.int64) * r.integers(1, 3, size=shape))
            if wkind == "float01":
                return torch.tensor(m.astype(np.float32))
            return torch.tensor((m * r.choice([0.5, 1.0, 1.5], size=shape)).astype(np.float32))

        layout = ["same-weights", "per-visit-vs-per-entry", "other-mask-same-shape", "weighted-vs-plain", "per-entry-vs-per-visit"][int(r.integers(5))]
        va = torch.tensor(r.normal(size=(n, T, F)), dtype=torch.float32)
        vb = torch.tensor(r.normal(size=(n, T, F)) + 2.5, dtype=torch.float32)
        wa = weights((n, T, F))
        if layout == "same-weights":
            wb = wa.clone()
        elif layout == "per-visit-vs-per-entry":
            wa, wb = weights((n, T, 1)), weights((n, T, F))
            va = va[..., :1]
        elif layout == "per-entry-vs-per-visit":
            wb = weights((n, T, 1))
            vb = vb[..., :1]
        elif layout == "other-mask-same-shape":
            wb = weights((n, T, F))
        else:
            wb = None
        g = GARB[int(r.integers(len(GARB)))]
        case = {"index": i, "weights": wkind, "layout": layout, "garbage": repr(g), "shape": [n, T, F]}

        def operands(garbage):
            a_v = torch.where(wa != 0, va, torch.full_like(va, garbage))
            b_v = vb if wb is None else torch.where(wb != 0, vb, torch.full_like(vb, garbage))
            return WeightedTensor(a_v, wa.clone()), (b_v if wb is None else WeightedTensor(b_v, wb.clone()))

        op = ["add", "sub", "mul", "truediv", "radd", "rsub", "unary"][int(r.integers(7))]

        def outputs(garbage):
            a, b = operands(garbage)
            if op == "unary":
                res = a
            elif op == "add":
                res = a + b
            elif op == "sub":
                res = a - b
            elif op == "mul":
                res = a * b
            elif op == "truediv":
                res = a / b
            elif op == "radd":
                res = b + a
            else:
                res = b - a
            if not isinstance(res, WeightedTensor):
                res = WeightedTensor(res)
            ws, wn = res.wsum(dim=(1, 2)) if res.ndim == 3 else res.wsum()
            return {"sum": res.sum(), "sum_dim": sum_dim(res, but_dim=0), "wsum": ws, "wsum_weights": wn.double(), "wsum_dim": wsum_dim(res, but_dim=-1)[0],
                    "weighted_value": res.weighted_value, "filled": res.filled(0.0)}

        ctx.evaluated()
        outs, errs = [], []
        for garbage in (0.0, g):
            try:
                outs.append(outputs(garbage))
                errs.append(None)
            except NotImplementedError as e:
                outs.append(None)
                errs.append("refused")
            except Exception as e:
                outs.append(None)
                errs.append(f"{type(e).__name__}: {str(e)[:120]}")
        if errs[0] != errs[1]:
            ctx.violation("masked/algebra/acceptance-depends-on-masked-values", f"{op} on {layout} operands: {errs[0]!r} with zeros at masked entries, {errs[1]!r} with {g!r} there", dict(case, op=op))
            continue
        if errs[0] is not None:
            ctx.count("algebra_refused" if errs[0] == "refused" else "algebra_raised_other")
            continue
        ctx.count("algebra_compared")
        ctx.count(f"algebra_compared_{wkind}_weights")
        if layout in ("per-visit-vs-per-entry", "per-entry-vs-per-visit", "other-mask-same-shape"):
            ctx.count("algebra_accepted_with_differing_weights")
        for name, ref in outs[0].items():
            got = outs[1][name]
            same = ref.shape == got.shape and bool(torch.equal(torch.nan_to_num(ref.double(), nan=1e300), torch.nan_to_num(got.double(), nan=1e300)))
            if not same:
                ctx.violation("masked/algebra/garbage", f"{op} on {layout} operands with {wkind} weights: '{name}' of the result depends on the number ({g!r}) stored at entries of "
                              "weight 0", dict(case, op=op, output=name), with_zero=ref.flatten()[:6].tolist(), with_garbage=got.flatten()[:6].tolist())
                break
        else:
            ctx.distinct("algebra", wkind, layout, op, repr(g))


def make_twin(ds, rng, kind, garbage=None, widen=0):
    import copy

    import torch

    tw = copy.deepcopy(ds)
    n, T, F = ds.values.shape
    if kind == "garbage":
        masked = ds.mask == 0
        pad_t = torch.zeros((n, T), dtype=torch.bool)
        for i, nv in enumerate(ds.n_visits_per_individual):
            pad_t[i, nv:] = True
        g = GARBAGE[garbage]
        if g is None:
            vals = torch.tensor(rng.normal(0, 50, size=(n, T, F)), dtype=tw.values.dtype)
            tvals = torch.tensor(rng.normal(70, 50, size=(n, T)), dtype=tw.timepoints.dtype)
        elif g == "flip":  # stays inside {0,1}: admissible support for the Bernoulli observation model
            vals = torch.ones((n, T, F), dtype=tw.values.dtype)
            tvals = torch.full((n, T), 55.0, dtype=tw.timepoints.dtype)
        else:
            vals = torch.full((n, T, F), g, dtype=tw.values.dtype)
            tvals = torch.full((n, T), g, dtype=tw.timepoints.dtype)
        tw.values = torch.where(masked, vals, ds.values)
        tw.timepoints = torch.where(pad_t, tvals, ds.timepoints)
    else:
        w = widen
        tw.values = torch.cat([ds.values, torch.tensor(rng.normal(0, 5, size=(n, w, F)), dtype=ds.values.dtype)], dim=1)
        tw.mask = torch.cat([ds.mask, torch.zeros((n, w, F), dtype=ds.mask.dtype)], dim=1)
        tw.timepoints = torch.cat([ds.timepoints, torch.tensor(rng.normal(70, 20, size=(n, w)), dtype=ds.timepoints.dtype)], dim=1)
        tw.n_visits_max = ds.n_visits_max + w
    return tw


def run_shard(spec, ctx):
    import contextlib
    import io

    import numpy as np
    import torch

    from leaspy.utils.weighted_tensor import WeightedTensor
    from vf import gen
    from vf import stateharness as sh
    from vf.checks.c15 import install_contract

    if spec.get("kind") == "algebra":
        return _algebra(spec, ctx)
    if spec.get("k", 99) < 4:
        _benchmark_padding(spec, ctx)
    install_contract()

    def tensors_of(v):
        if isinstance(v, WeightedTensor):
            return v.value, v.weight
        return v, None

    def compare(label, family, a, b, exact, case, real_visits=None, extra_atol=0.0):
        """a: base, b: twin. exact -> bit identity (where weight>0 for weighted values / on real visits for `model`)."""
        va, wa = tensors_of(a)
        vb, wb = tensors_of(b)
        ctx.evaluated()
        ctx.count(f"cmp_{family}")
        if wa is not None or wb is not None:
            if wa is None or wb is None:
                return _bad(label, family, "weights present on one side only", case)
            if wa.shape != wb.shape:
                wb = wb[tuple(slice(0, s) for s in wa.shape)]
                vb = vb[tuple(slice(0, s) for s in va.shape)]
            if not torch.equal(wa, wb):
                return _bad(label, family, "weights differ", case)
            sel = wa != 0
            va, vb = va[sel], vb[sel]
        elif va.shape != vb.shape:
            if real_visits is None and va.ndim == vb.ndim and all(x <= y for x, y in zip(va.shape, vb.shape)):
                vb = vb[tuple(slice(0, s) for s in va.shape)]
            elif real_visits is not None:
                vb = vb[tuple(slice(0, s) for s in va.shape)]
            else:
                return _bad(label, family, f"shapes differ {tuple(va.shape)} vs {tuple(vb.shape)}", case)
        if real_visits is not None and va.ndim >= 2:
            rv = real_visits
            while rv.ndim < va.ndim:
                rv = rv.unsqueeze(-1)
            rv = rv.expand(va.shape)
            va, vb = va[rv], vb[rv]
        if exact:
            ok = sh.same(va, vb, rtol=0.0)
        else:
            ok = sh.same(va, vb, rtol=5e-6, atol=1e-7 + extra_atol)
        if not ok:
            nonfin = bool((~torch.isfinite(vb.double())).any() and torch.isfinite(va.double()).all())
            return _bad(label, family, "non-finite value appears only with the twin" if nonfin else "value differs between dataset and twin", case,
                        base=va.flatten()[:6].tolist(), twin=vb.flatten()[:6].tolist())
        return True

    def _attach_magnitude(st, names):
        """Sum over the observed entries of the magnitudes of the terms that make up the attachment (Gaussian: |log sigma| + log(2 pi)/2 + r^2 / 2 sigma^2);
        other observation models: sum of the magnitudes of the individuals' terms."""
        try:
            if "noise_std" in names and "y" in names and "model" in names:
                yv, yw = tensors_of(st["y"])
                mv, _ = tensors_of(st["model"])
                sig = st["noise_std"].double().reshape(-1)
                sig = sig if sig.numel() == yv.shape[-1] else sig.expand(yv.shape[-1])
                obs = (yw != 0) if yw is not None else torch.ones_like(yv, dtype=torch.bool)
                r2 = torch.where(obs, ((yv.double() - mv.double()) / sig) ** 2, torch.zeros((), dtype=torch.float64))
                per = torch.where(obs, sig.log().abs() + 0.9189385 + 0.5 * r2, torch.zeros((), dtype=torch.float64))
                tot = float(per.sum())
                return tot if np.isfinite(tot) else 0.0
            if "nll_attach_ind" in names:
                tot = float(tensors_of(st["nll_attach_ind"])[0].double().abs().sum())
                return tot if np.isfinite(tot) else 0.0
        except Exception:
            ctx.count("attach_magnitude_not_measurable")
        return 0.0

    def _bad(label, family, why, case, **obs):
        key = f"masked/{family}/{case['twin']}"
        if case["model"][3] == "bernoulli":
            key = f"masked/bernoulli/{family}/{case['twin']}"
        ctx.violation(key, f"{label}: {why} ({case['twin']} = {case.get('garbage') or case.get('widen')})", case, **obs)
        return False

    for i in ctx.cases(spec["n"]):
        rng = ctx.rng("twins", spec["k"], i)
        g = GRID[(spec["k"] * 3 + i) % len(GRID)]
        kind, dim, src, noise = g
        missing = MISSING[(spec["k"] + i) % 4]
        events = kind == "joint"
        try:
            df = gen.cohort(rng, n_ind=int(rng.integers(4, 10)), n_feat=dim, missing=missing, events=events, one_visit_ok=not events,
                            binary=(noise == "bernoulli"), max_visits=int(rng.choice([4, 8, 12])))
            ds = gen.to_dataset(df, events=events)
            kw = {"n_clusters": 2} if kind == "mixture_logistic" else {}

            def new_model():
                return gen.make_model(kind, dim, src, noise, **kw) if noise else gen.make_model(kind, dim, src, **kw)

            model = new_model()
            model.initialize(ds)
        except Exception as e:
            ctx.count("setup_skipped")
            continue
        real_vis = ds.mask.to(torch.bool).any(dim=-1)
        has_in_visit = bool((real_vis.unsqueeze(-1) & (ds.mask == 0)).any())
        has_pad = min(ds.n_visits_per_individual) < ds.n_visits_max
        if has_in_visit:
            ctx.count("masked_in_visit_entries_cases")
        if has_pad:
            ctx.count("padding_cases")
        # latent values shared by both twins
        base_state = model.state.clone()
        with base_state.auto_fork(None):
            model.put_data_variables(base_state, ds)
        torch.manual_seed(int(rng.integers(1 << 30)))
        model.put_individual_parameters(base_state, ds)
        latents = {v: base_state[v] for v in model.individual_variables_names}

        def state_for(dataset):
            st = model.state.clone()
            with st.auto_fork(None):
                model.put_data_variables(st, dataset)
                for v, val in latents.items():
                    st[v] = val
            return st

        twins = []
        gnames = list(GARBAGE)
        if noise == "bernoulli":
            order = ["binary-flip", "zero", "huge", "nan"]
        else:
            order = [gnames[(spec["k"] + i + j) % 7] for j in range(2 if ctx.tier == "quick" else 4)]
        for gname in order:
            twins.append(("garbage", gname, 0))
        for w in ((1, 7, 2 * ds.n_visits_max)[(spec["k"] + i) % 3],) if ctx.tier == "quick" else (1, 7, 2 * ds.n_visits_max):
            twins.append(("widened", None, int(w)))
        seed_p = int(rng.integers(1 << 30))
        base_cache = {}
        for twin_kind, gname, w in twins:
            case = {"index": i, "model": list(map(str, g)), "missing": missing, "twin": twin_kind, "garbage": gname, "widen": w}
            tw = make_twin(ds, ctx.rng("twin", spec["k"], i, gname, w), twin_kind, gname, w)
            ctx.count(f"twins_{twin_kind}")
            exact = twin_kind == "garbage"
            ok = True
            try:
                sa = base_cache.get("state") or state_for(ds)
                base_cache["state"] = sa
                sb = state_for(tw)
                names = set(sa.dag.sorted_variables_names)
                # a widened table changes the order in which float32 sums run: totals of terms of both signs (log sigma < 0, residuals > 0) may
                # cancel, so their rounding is measured against the sum of the magnitudes of the entries' terms, not against the total
                tot_atol = 0.0 if exact else 32 * 6e-8 * _attach_magnitude(sa, names)
                for node in ("nll_attach_ind", "nll_attach", "nll_attach_y_ind", "n_obs", "n_obs_per_ft", "y_L2", "y_L2_per_ft", "model"):
                    if node in names:
                        ok &= bool(compare(f"state['{node}']", "state_terms", sa[node], sb[node], exact, case, real_visits=real_vis if node == "model" else None,
                                           extra_atol=tot_atol if node.startswith("nll_attach") else 0.0))
                # sufficient statistics + one M-step on clones
                ca, cb = sa.clone(), sb.clone()
                with ca.auto_fork(None), cb.auto_fork(None):
                    Sa, Sb = model.compute_sufficient_statistics(ca), model.compute_sufficient_statistics(cb)
                    for kname in Sa:
                        ok &= bool(compare(f"statistic '{kname}'", "suffstats", Sa[kname], Sb[kname], exact, case,
                                           real_visits=real_vis if kname in ("model_x_model",) else None,
                                           extra_atol=tot_atol if kname in ("nll_attach", "nll_tot") else 0.0))
                    try:
                        model.update_parameters(ca, Sa, burn_in=True)
                        model.update_parameters(cb, Sb, burn_in=True)
                        if "noise_std" in model.parameters_names and "noise_recount_done" not in base_cache:
                            # observation counts and noise estimates use observed entries only: RMS residual over the table's observed entries
                            base_cache["noise_recount_done"] = True
                            mod = sa["model"]
                            mod = (mod.weighted_value if isinstance(mod, WeightedTensor) else mod).double().numpy()
                            yy, mm = ds.values.double().numpy(), ds.mask.numpy().astype(bool)
                            got = ca["noise_std"].double().numpy().reshape(-1)
                            res2 = np.where(mm, (yy - mod) ** 2, 0.0)
                            want = np.sqrt(res2.sum(axis=(0, 1)) / mm.sum(axis=(0, 1))) if got.size > 1 else np.sqrt(res2.sum() / mm.sum()).reshape(1)
                            ctx.count("cmp_noise_recount")
                            ctx.evaluated()
                            if not np.allclose(got, want, rtol=5e-4, atol=1e-6):
                                ctx.violation("masked/noise-estimate-not-over-observed-entries",
                                              "noise level after a memory-less M-step is not the RMS residual over the observed entries of the table",
                                              dict(case, twin="none"), got=got.tolist(), want=want.tolist())
                        for pn in model.parameters_names:
                            ok &= bool(compare(f"parameter '{pn}' after one M-step", "mstep", ca[pn], cb[pn], exact, case))
                    except Exception as e:
                        from leaspy.exceptions import LeaspyConvergenceError

                        if not isinstance(e, LeaspyConvergenceError):
                            raise
                        ctx.count("mstep_convergence_guard")
            except Exception as e:
                ok = False
                key = "bernoulli/support-validation-on-masked-entries" if (noise == "bernoulli" and isinstance(e, ValueError)) else f"masked/exception/{twin_kind}"
                ctx.violation(key, f"evaluating the twin ({twin_kind}: {gname or w}) raised {type(e).__name__}: {str(e)[:160]} while the loader's dataset evaluates fine", case)
            if not ok:
                continue
            # personalisation (all three families under garbage; optimisation-based only under widening)
            algos = ["scipy_minimize", "mean_posterior", "mode_posterior"] if exact else ["scipy_minimize"]
            if kind in ("joint", "mixture_logistic"):
                algos = [a for a in algos if a != "scipy_minimize"] if exact else []
            for algo_name in algos[: 2 if ctx.tier == "quick" else 3]:
                kws = dict(seed=seed_p, progress_bar=False)
                if algo_name != "scipy_minimize":
                    kws.update(n_iter=12, n_burn_in_iter=4)
                else:
                    kws.update(use_jacobian=False)
                try:
                    with contextlib.redirect_stdout(io.StringIO()):
                        key_a = ("ip", algo_name)
                        if key_a not in base_cache:
                            base_cache[key_a] = model.personalize(ds, algo_name, **kws).to_pytorch()[1]
                        ipa = base_cache[key_a]
                        ipb = model.personalize(tw, algo_name, **kws).to_pytorch()[1]
                    for pname in ipa:
                        compare(f"personalize[{algo_name}]['{pname}']", "personalize", ipa[pname], ipb[pname], exact, case)
                except Exception as e:
                    ctx.count("personalize_skipped")
                    ctx.note(f"personalize_skipped_{algo_name}_{type(e).__name__}", str(e)[:160])
            # short seeded fit (garbage only)
            if exact and gname == order[0]:
                try:
                    with contextlib.redirect_stdout(io.StringIO()):
                        if "fit" not in base_cache:
                            ma = new_model()
                            ma.fit(ds, "mcmc_saem", n_iter=10, n_burn_in_iter=3, n_burn_in_iter_frac=None, seed=seed_p, progress_bar=False)
                            base_cache["fit"] = {k: v.clone() for k, v in ma.parameters.items()}
                        mb = new_model()
                        mb.fit(tw, "mcmc_saem", n_iter=10, n_burn_in_iter=3, n_burn_in_iter_frac=None, seed=seed_p, progress_bar=False)
                    for pn, va in base_cache["fit"].items():
                        compare(f"fitted parameter '{pn}' (10 iterations, 7 of them with memory, same seed)", "fit", va, mb.parameters[pn], True, case)
                except Exception as e:
                    ctx.count("fit_skipped")
                    ctx.note(f"fit_skipped_{type(e).__name__}", str(e)[:160])
            if has_in_visit or has_pad:
                for fam in ("state_terms", "suffstats", "mstep", "personalize"):
                    ctx.distinct(case["model"], missing, twin_kind, gname or w, fam)
        # ---- a Dataset object that already served, whose missing-data pattern is then changed by the caller (entries hidden in place): every
        # consumer - the table-based ones included - must see the new pattern, i.e. answer like a dataset freshly built with those entries missing
        if kind not in ("joint", "mixture_logistic") and noise != "bernoulli":
            try:
                import pandas as _pd

                from leaspy.io.data import Data as _Data, Dataset as _Dataset

                rr2 = ctx.rng("used-dataset", spec["k"], i)
                used_ds = gen.to_dataset(df)
                with contextlib.redirect_stdout(io.StringIO()):
                    model.personalize(used_ds, "scipy_minimize", seed=seed_p, progress_bar=False, use_jacobian=False)  # the dataset has served once
                obs_ = used_ds.mask != 0
                hide = obs_ & torch.tensor(rr2.random(tuple(used_ds.mask.shape)) < 0.3)
                for f_ in range(used_ds.mask.shape[-1]):
                    if (obs_[..., f_] & ~hide[..., f_]).sum() < 2:
                        hide[..., f_] = False
                used_ds.mask[hide] = 0  # in place, on the very object
                rows_ = []
                for a_, sid_ in enumerate(used_ds.indices):
                    for v_ in range(int(used_ds.n_visits_per_individual[a_])):
                        rows_.append([sid_, float(used_ds.timepoints[a_, v_])] + [float(used_ds.values[a_, v_, f_]) if used_ds.mask[a_, v_, f_] != 0 else float("nan")
                                                                                for f_ in range(used_ds.mask.shape[-1])])
                fresh_df = _pd.DataFrame(rows_, columns=["ID", "TIME"] + list(used_ds.headers))
                fresh_ds = _Dataset(_Data.from_dataframe(fresh_df, drop_full_nan=False))
                with contextlib.redirect_stdout(io.StringIO()):
                    ip_u = model.personalize(used_ds, "scipy_minimize", seed=seed_p, progress_bar=False, use_jacobian=False).to_pytorch()
                    ip_f = model.personalize(fresh_ds, "scipy_minimize", seed=seed_p, progress_bar=False, use_jacobian=False).to_pytorch()
                ctx.count("cmp_used_dataset_with_entries_hidden_in_place")
                ctx.evaluated()
                if ip_u[0] != ip_f[0] or any(not sh.same(ip_u[1][k_], ip_f[1][k_], rtol=1e-5, atol=1e-6) for k_ in ip_u[1]):
                    ctx.violation("masked/personalize/hidden-entries-still-used", "scipy_minimize on a dataset that already served, after entries were hidden in place (mask set to 0), "
                                  "differs from the result on a dataset freshly built with those entries missing",
                                  {"index": i, "model": list(map(str, g)), "missing": missing, "twin": "used-dataset-mask-edited"})
            except Exception as e:
                ctx.count("used_dataset_relation_skipped")
                ctx.note(f"used_dataset_relation_skipped_{type(e).__name__}", str(e)[:200])

        # ---- what the FIT itself loads (its own initialisation path): every observed entry, whatever the padding / trailing empty visits -------
        try:
            from vf.checks.c02 import make_algo as _mk

            want_n = float((ds.mask != 0).sum())
            want_l2 = float((ds.values.double() ** 2 * (ds.mask != 0)).sum())
            for label, tw_ in (("as loaded", ds), ("widened", make_twin(ds, ctx.rng("fitload", spec["k"], i), "widened", None, int(rng.integers(1, 4)))),
                               ("garbage", make_twin(ds, ctx.rng("fitload2", spec["k"], i), "garbage", "rand", 0))):
                m4 = new_model()
                m4.initialize(ds)
                _a4, st4 = _mk(m4, tw_, ctx.rng("fitload3", spec["k"], i), n_iter=3)
                names4 = set(st4.dag.sorted_variables_names)
                ctx.count("fit_initialisations_checked")
                ctx.evaluated()
                got_n = float((st4["y"].weight != 0).sum()) if "y" in names4 and st4["y"].weight is not None else None
                if "n_obs" in names4:
                    got_n = float(st4["n_obs"])
                if got_n is not None and abs(got_n - want_n) > 0.5:
                    ctx.violation("masked/fit/observations-dropped-or-added", f"the state prepared by the fit for the {label} dataset counts {got_n:.0f} observations, the table "
                                  f"has {want_n:.0f}", {"index": i, "model": list(map(str, g)), "missing": missing, "twin": label})
                    break
                if "y_L2" in names4 and noise and noise.startswith("gaussian"):
                    got_l2 = float(st4["y_L2"])
                    if abs(got_l2 - want_l2) > 1e-4 * max(1.0, abs(want_l2)):
                        ctx.violation("masked/fit/observations-dropped-or-added", f"the state prepared by the fit for the {label} dataset has sum of squared observations "
                                      f"{got_l2:.6g}, the table's observed entries give {want_l2:.6g}", {"index": i, "model": list(map(str, g)), "missing": missing, "twin": label})
                        break
        except Exception as e:
            ctx.count("fit_initialisation_check_skipped")
            ctx.note(f"fit_initialisation_check_skipped_{type(e).__name__}", str(e)[:200])

        # ---- noise recount across the real maximisation steps of one algorithm object on a FROZEN state (no sampling in between): the
        # residuals do not move, so after every step - memory-less, first with memory, averaged - the noise level must be the RMS residual
        # over the observed entries of the table (a twin comparison is blind to an error both twins share) --------------------------------
        if "noise_std" in model.parameters_names and noise and noise.startswith("gaussian"):
            try:
                from vf.checks.c02 import make_algo

                m3 = new_model()
                m3.initialize(ds)
                nb = int(rng.integers(0, 4))
                algo, st3 = make_algo(m3, ds, ctx.rng("frozen", spec["k"], i), n_iter=12, n_burn_in_iter=nb, n_burn_in_iter_frac=None)
                mod = st3["model"]
                mod = (mod.weighted_value if isinstance(mod, WeightedTensor) else mod).double().numpy()
                yy, mm = ds.values.double().numpy(), ds.mask.numpy().astype(bool)
                res2 = np.where(mm, (yy - mod) ** 2, 0.0)
                for it in range(1, nb + 5):
                    algo.current_iteration = it
                    algo._maximization_step(m3, st3)
                    got = st3["noise_std"].double().numpy().reshape(-1)
                    want = np.sqrt(res2.sum(axis=(0, 1)) / mm.sum(axis=(0, 1))) if got.size > 1 else np.sqrt(res2.sum() / mm.sum()).reshape(1)
                    ctx.count("cmp_noise_recount_frozen_state")
                    if it > nb + 1:
                        ctx.count("cmp_noise_recount_frozen_state_averaged_steps")
                    ctx.evaluated()
                    if not np.allclose(got, want, rtol=5e-4, atol=1e-6):
                        ctx.violation("masked/noise-estimate-not-over-observed-entries",
                                      f"noise level after maximisation step {it} of a run on a frozen state (memory-less phase = {nb} iterations) is not the RMS "
                                      "residual over the observed entries of the table",
                                      {"index": i, "model": list(map(str, g)), "missing": missing, "twin": "none", "frozen_state_step": it, "n_burn_in_iter": nb},
                                      got=got.tolist(), want=want.tolist())
                        break
            except Exception as e:
                from leaspy.exceptions import LeaspyConvergenceError

                ctx.count("frozen_recount_skipped")
                if not isinstance(e, LeaspyConvergenceError):
                    ctx.note(f"frozen_recount_skipped_{type(e).__name__}", str(e)[:200])

        # ---- re-put relation: a state that already holds dataset A (fully evaluated) then receives dataset B must equal a fresh state
        # loaded with B - in particular when B's numbers are those of A and only its mask differs (entries that became missing)
        try:
            import copy as _copy

            rr = ctx.rng("reput", spec["k"], i)
            tw_mask = _copy.deepcopy(ds)
            obs = (ds.mask != 0)
            drop = obs & torch.tensor(rr.random(tuple(ds.mask.shape)) < 0.3)
            for f_ in range(ds.mask.shape[-1]):  # keep at least two observations per feature
                if (obs[..., f_] & ~drop[..., f_]).sum() < 2:
                    drop[..., f_] = False
            tw_mask.mask = torch.where(drop, torch.zeros_like(ds.mask), ds.mask)
            candidates = [("mask-reduced", tw_mask), ("garbage", make_twin(ds, rr, "garbage", "rand", 0)), ("widened", make_twin(ds, rr, "widened", None, 3))]
            for label, B in candidates:
                case = {"index": i, "model": list(map(str, g)), "missing": missing, "twin": f"reput-{label}", "garbage": None, "widen": None}
                used = state_for(ds)
                names = set(used.dag.sorted_variables_names)
                for node in ("nll_attach_ind", "nll_attach", "n_obs", "n_obs_per_ft", "y_L2", "y_L2_per_ft", "model"):
                    if node in names:
                        used[node]
                with used.auto_fork(None):
                    model.put_data_variables(used, B)
                fresh = state_for(B)
                for v_, val_ in latents.items():
                    pass
                for node in ("nll_attach_ind", "nll_attach", "nll_attach_y_ind", "n_obs", "n_obs_per_ft", "y_L2", "y_L2_per_ft", "model", "y", "t"):
                    if node in names:
                        compare(f"state['{node}'] after re-putting a {label} dataset into a used state", "reput", fresh[node], used[node], True, case)
                ctx.distinct(case["model"], missing, "reput", label)
        except Exception as e:
            ctx.count("reput_skipped")
            ctx.note(f"reput_skipped_{type(e).__name__}", str(e)[:200])
        if i < 1:
            ctx.sample({"model": list(map(str, g)), "missing": missing, "twins": [[a, b, c] for a, b, c in twins], "n_visits": ds.n_visits_per_individual}, limit=1)
