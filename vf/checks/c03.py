"""C03 — every sampler step is a Metropolis-Hastings transition for the documented target.  DESIGN §2/C03.

Oracle: vf.refmodel.mh.verify_call — for every observed sample() call of the real samplers (driven by the real
MCMC-SAEM iteration), the recorded normal / uniform draws (RngTap), proposals, acceptance ratios and decisions
(SamplerProbe) are checked against a recomputation from scratch: proposal = std_block * fresh normal on the block only,
alpha = exp(-(d attach + temperature_inv * d regularity)), decision = [fresh uniform < alpha], one uniform per decision,
final value = accepted ? proposed : previous.
"""
from __future__ import annotations

RULE = (
    "a case = one short real MCMC-SAEM run (3-10 iterations, M-step included so states move) on a generated cohort for a (model kind, "
    "population sampler kind, proposal-scale regime, temperature schedule) cell; every sample() call of every latent variable is verified "
    "decision by decision. evaluations = decisions verified; distinct_nontrivial = distinct (model, sampler kind, variable) cells in which "
    "BOTH an acceptance and a rejection were observed and alpha was recomputed from scratch"
)
REQUIRED = {"cohorts_of_a_single_individual": 3, "decisions": 3000, "alpha_recomputed": 2000, "accepted": 300, "rejected": 300, "sample_calls": 500,
            "cells_gibbs": 3, "cells_fastgibbs": 3, "cells_metropolis-hastings": 3, "cells_ind": 3, "alpha_plus_inf_decisions": 5, "alpha_recomputed_mixture": 50, "sweeps_without_mstep": 10, "scales_rebound_between_uses": 8}
ASSUMPTIONS = [
    "attachment = nodes nll_attach / nll_attach_ind, regularity = each latent variable's own prior node (nll_regul_<v>[_ind]); both re-evaluated from "
    "scratch through the variables' own definitions (the densities themselves are C08's job)",
    "mixture model: the regularity of an individual in a state is taken as the responsibility-weighted per-cluster regularity of THAT state "
    "(responsibilities = softmax of -per-cluster total regularity, clamped at -100, as the model's own update rules define them)",
    "decisions within 1e-4 relative of the threshold are ties: counted, not judged",
]

KINDS = ["Gibbs", "FastGibbs", "Metropolis-Hastings"]


def shards(tier, seed):
    q = tier == "quick"
    return [{"name": f"mh-{k}", "k": k, "n": 5 if q else 60, "budget_s": 120 if q else 1500} for k in range(16)]


def run_shard(spec, ctx):
    import torch

    from vf import gen
    from vf import stateharness as sh
    from vf.checks.c02 import make_algo
    from vf.checks.c15 import install_contract
    from vf.probes.samplers import SamplerProbe, hook_sample
    from vf.refmodel import mh

    install_contract()
    cells = {}
    for i in ctx.cases(spec["n"]):
        rng = ctx.rng("mh", spec["k"], i)
        # deterministic coverage of the grid across (shard, case) then random
        gi = (spec["k"] * 7 + i) % len(gen.MODEL_GRID)
        g = gen.MODEL_GRID[gi]
        kind_pop = KINDS[(spec["k"] + i) % 3]
        regime = ["normal", "huge", "tiny", "mixed", "badstart"][(spec["k"] // 3 + i) % 5]
        try:
            single = regime != "badstart" and (spec["k"] + 2 * i) % 5 == 0 and g[0] not in ("joint", "mixture_logistic")
            model, ds, state0, df = gen.ready_state(rng, *g, n_ind=(1 if single else int(rng.integers(3, 9))) if regime != "badstart" else int(rng.integers(25, 40)))
            if ds.n_individuals == 1:
                ctx.count("cohorts_of_a_single_individual")  # what personalising one patient is
            torch.manual_seed(int(rng.integers(1 << 30)))
            algo, state = make_algo(model, ds, rng, sampler_pop=kind_pop, n_iter=20)
        except Exception as e:
            ctx.count("setup_skipped")
            ctx.note(f"setup_skipped_{type(e).__name__}", str(e)[:160])
            continue
        is_mix = g[0] == "mixture_logistic"
        pop_names, ind_names = list(model.population_variables_names), list(model.individual_variables_names)
        case = {"index": i, "model": list(map(str, g)), "sampler_pop": kind_pop, "regime": regime}
        stats = {}
        dead = {"v": False}

        def callback(probe, st, tinv, before, events, _case=case):
            if dead["v"]:
                return
            nm = probe.s.name
            cell = (tuple(_case["model"]), "ind" if probe.is_ind else kind_pop.lower(), nm)
            loc = {}

            def report(key, what, **obs):
                dead["v"] = True
                ctx.violation(key, what, dict(_case, variable=nm, temperature_inv=tinv, iteration=algo.current_iteration), **obs)

            mh.verify_call(probe, st, tinv, before, events, pop_names, ind_names, report, loc, is_mixture=is_mix and probe.is_ind)
            for k, v in loc.items():
                stats[k] = stats.get(k, 0) + v
            c = cells.setdefault(cell, {"acc": 0, "rej": 0, "alpha": 0})
            c["acc"] += loc.get("accepted", 0)
            c["rej"] += loc.get("rejected", 0)
            c["alpha"] += loc.get("alpha_recomputed", 0)
            stats["sample_calls"] = stats.get("sample_calls", 0) + 1

        if regime == "badstart":
            # a state far from the data on a larger cohort: moves back improve the likelihood by > 89 nats, exp(-D) overflows to +inf in
            # float32 (and some moves give NaN) - the "always draw" rule must hold there too
            with state.auto_fork(None):
                for pv, off in (("log_v0", 2.5), ("log_g", -2.0), ("g", 0.5)):
                    if pv in pop_names:
                        state[pv] = state[pv] + off
        for nm, s in algo.samplers.items():
            if regime == "badstart":
                s.std = s.std * 40.0
            if regime == "huge":
                s.std = s.std * 100.0
            elif regime == "tiny":
                s.std = s.std * 1e-4
            elif regime == "mixed" and s.std.ndim >= 1 and s.std.numel() > 1:
                s.std = s.std.clone()
                s.std[0] = s.std[0] * 300.0
            hook_sample(SamplerProbe(s), callback)
        temps = [1.0, 0.5, 0.1, 1.0 / 7.0, float(rng.uniform(0.05, 1.0))]
        no_mstep = (spec["k"] + i) % 4 == 3 or (is_mix and i % 2 == 1)
        n_it = int(rng.integers(3, 11))
        try:
            for it in range(1, n_it + 1):
                algo.current_iteration = it
                if it in (2, 4) and (spec["k"] + i) % 3 == 1:
                    # the caller re-tunes the (public) proposal scales of samplers that already served: new tensors, not in-place writes
                    for s_ in algo.samplers.values():
                        s_.std = (s_.std * float(rng.choice([0.1, 0.3, 3.0]))).clone()
                    stats["scales_rebound_between_uses"] = stats.get("scales_rebound_between_uses", 0) + 1
                algo.temperature_inv = temps[it % len(temps)]
                algo.temperature = 1.0 / algo.temperature_inv
                if no_mstep:
                    # as the sampling-based personalisations do: sweeps of the individual samplers only, parameters never updated in between
                    for v in sorted(ind_names):
                        algo.samplers[v].sample(state, temperature_inv=algo.temperature_inv)
                    stats["sweeps_without_mstep"] = stats.get("sweeps_without_mstep", 0) + 1
                else:
                    algo._iteration(model, state)
                if dead["v"]:
                    break
        except Exception as e:
            if not dead["v"]:
                # a crash of the iteration itself under adversarial scales (e.g. definitions refusing NaN) is not C03's subject
                ctx.count("iteration_aborted")
                ctx.note(f"iteration_aborted_{type(e).__name__}", str(e)[:160])
        for k, v in stats.items():
            ctx.count(k, v)
        ctx.evaluated(stats.get("decisions", 0))
        if i < 1:
            ctx.sample(dict(case, decisions=stats.get("decisions", 0), accepted=stats.get("accepted", 0), rejected=stats.get("rejected", 0)), limit=1)
    for cell, c in cells.items():
        if c["acc"] and c["rej"] and (c["alpha"] or cell[0][0] == "mixture_logistic"):
            ctx.distinct(*cell)
            ctx.count(f"cells_{cell[1]}")
