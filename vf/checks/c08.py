"""C08 — likelihood terms are the negative log-densities of the documented distributions.  DESIGN §2/C08.

Oracle (runtime monitors on executions of the real code):
  (a) icontract postconditions (vf.probes.c08contracts) on NormalFamily._nll (+jacobian variants), the torch-distribution
      ``_nll`` used by BernoulliFamily, AbstractWeibullRightCensoredFamily._nll / compute_log_survival /
      compute_log_likelihood_hazard and the two ``_extract_reparametrized_nu``: every call's result is compared entry by entry
      with vf.refmodel.dens08 (numpy float64 textbook formulas);
  (b) the same comparison made by the harness on what the public entry points return (Family.nll, Family.regularization,
      SymbolicDistribution.get_func_nll / get_func_regularization) — the level that is reached whatever is bound where;
  (c) whole-state: every nll_attach*_ind / nll_attach* / nll_regul_* node of real models with data loaded and perturbed latent
      values, against the reference computed from the state's own inputs (model, y, noise_std, event, nu, rho, xi, tau, sources,
      zeta, prior parameters) — once with the contracts installed (proves the patched attributes are reached through
      NamedInputFunction: 0 evaluations => inconclusive) and once on plain leaspy (node-level monitor alone);
  (d) contracts active during short real fits / personalisations.
Penalty monitor: an observed event at t < tau (density 0) must give a finite value >= 1e300, never NaN/inf; at t == tau finite
(and >= 1e300 when rho > 1, where the density is 0 under any convention); a censored one contributes exactly -log S (0 for t <= tau).
"""
from __future__ import annotations

RULE = (
    "direct: one case = one generated (value, parameters, weights) tuple handed to the real family through every public path "
    "(nll, regularization, symbolic get_func_nll / get_func_regularization, jacobian variants, compute_log_survival, "
    "compute_log_likelihood_hazard); Normal in the models' layouts ((n,1)/(1,), (n,1)/()/(1,), (n,T,F)/(n,T,F)/(F,)|(1,), (n,k)/(k,)/(), "
    "pop (F,), (d,k), scalar) x dtype {f32, f64, value f64 + params f32, value f32 + loc f64}; Bernoulli p in (0,1) incl. 1e-7, 1-1e-7, "
    "eps32, 1-eps32 in f32 and f64; Weibull nu,rho in [0.2,5] (incl. rho=1), xi in [-3,3], tau {far before, just before (1e-9..1e-2), "
    "equal, after, just after} the event, censoring flags, 1-3 events, with/without survival shifts, float64 events, f32|f64 parameters; "
    "1 case in 20 uses a very peaked law rho in [30,1000] (outside the design domain, kept because leaspy's own data-driven start of the "
    "joint model produces such values, e.g. rho=2.8e22 on a 5-subject cohort). "
    "state: one case = one real model (joint / logistic gaussian-scalar|diagonal / logistic bernoulli / linear / shared-speed) with a "
    "generated cohort loaded, all latent values, prior parameters and noise level perturbed, every nll node compared. fit: short real "
    "mcmc_saem fits + personalisations with the contracts on. distinct = distinct (family, layout, dtype class, path, which "
    "tau-classes / censoring classes / special probabilities occurred) resp. (model grid point, dtype of latents, tau classes); "
    "non-trivial = at least one entry judged against the reference"
)
REQUIRED = {
    "contract_evaluations": 5000,
    "normal_contract_calls": 1000,
    "bernoulli_contract_calls": 200,
    "weibull_nll_contract_calls": 500,
    "weibull_log_survival_contract_calls": 500,
    "weibull_log_hazard_contract_calls": 500,
    "weibull_reparam_contract_calls": 500,
    "outer_results_compared": 3000,
    "weibull_observed_event_at_or_before_reference_entries": 300,
    "weibull_at_tau_entries": 30,
    "weibull_censored_entries": 500,
    "state_nodes_compared_with_contracts": 300,
    "state_nodes_compared_plain": 300,
    "state_contract_evaluations": 300,
    "state_event_nodes_compared": 20,
    "state_event_reference_inputs_taken_from_the_dataset": 20,
    "state_bernoulli_nodes_compared": 10,
    "fit_contract_evaluations": 1000,
}
ASSUMPTIONS = [
    "judged domain of the event density: float64 event times (Dataset always builds float64 event tensors; float32 events make "
    "torch.where(..., -1e307) raise an overflow error — outside the models' domain)",
    "float32 Bernoulli probabilities are judged on [eps32, 1-eps32] (eps32=1.19e-7): torch clamps probabilities to that interval "
    "before taking logits, so below/above it the value saturates at -log(eps32)=15.94; such entries are counted "
    "(bernoulli_saturated_not_judged) and only required to be finite, >= 0 and <= the true value; float64 probabilities are judged "
    "on [2.2e-16, 1-2.2e-16], i.e. 1e-7 and 1-1e-7 are judged exactly there",
    "the design domain of the Weibull shape is rho in [0.2,5]; there the hazard stays inside the float64 range for every float64 age. "
    "Outside it (rho >~ 30) the genuine defect 'weibull/log-hazard-lost-when-hazard-leaves-float64-range' is reached (finding C08_weibull-"
    "log-hazard-float-range): it has its own key so that any other mismatch is still reported",
    "at t == tau exactly with rho <= 1 the textbook density is a matter of convention (open support): only finiteness is required",
    "tolerances: any float32 tensor involved -> rtol 2e-4, atol 1e-5; all float64 -> rtol 1e-6, atol 1e-6 (leaspy adds a float32 "
    "constant 1/2 log 2pi, abs error 3e-8); summed nodes: atol + rtol * sum|terms|",
    "entries whose reference value is non-finite because an input is outside the distribution's domain are not judged (counted)",
    "MultivariateNormalFamily / MixtureNormalFamily are not among the distributions named in the statement (DESIGN C08): not judged",
]


def shards(tier, seed):
    q = tier == "quick"
    b = {"budget_s": 75 if q else 600}
    out = []
    out += [{"name": f"direct-normal-{k}", "kind": "normal", "k": k, "n": 4000 if q else 150000, **b} for k in range(2)]
    out += [{"name": f"direct-bernoulli-{k}", "kind": "bernoulli", "k": k, "n": 3000 if q else 150000, **b} for k in range(1)]
    out += [{"name": f"direct-weibull-{k}", "kind": "weibull", "k": k, "n": 2500 if q else 60000, **b} for k in range(3)]
    out += [{"name": f"state-contract-{k}", "kind": "state", "contracts": True, "k": k, "n": 50 if q else 1500, **b} for k in range(3)]
    out += [{"name": f"state-plain-{k}", "kind": "state", "contracts": False, "k": k, "n": 50 if q else 1500, **b} for k in range(3)]
    out += [{"name": f"fit-{k}", "kind": "fit", "k": k, "n": 10 if q else 300, **b} for k in range(4)]
    return out


# ======================================================================================================
def run_shard(spec, ctx):
    kind = spec["kind"]
    if kind in ("normal", "bernoulli", "weibull"):
        from vf.probes import c08contracts as cc

        # each direct workload builds its symbolic NamedInputFunctions BEFORE installing the contracts: they hold references bound
        # at that time (as models built before a late install would) and must still reach the patched methods
        {"normal": _direct_normal, "bernoulli": _direct_bernoulli, "weibull": _direct_weibull}[kind](spec, ctx, cc)
        _flush_stats(ctx, cc)
    elif kind == "state":
        cc = None
        if spec["contracts"]:
            from vf.probes import c08contracts as cc

            cc.install()
        _state_cases(spec, ctx, cc)
        if cc is not None:
            ctx.count("state_contract_evaluations", cc.evaluations())
            _flush_stats(ctx, cc)
    elif kind == "fit":
        from vf.probes import c08contracts as cc

        cc.install()
        _fit_cases(spec, ctx, cc)
        ctx.count("fit_contract_evaluations", cc.evaluations())
        _flush_stats(ctx, cc)


def _flush_stats(ctx, cc):
    S = cc.STATS
    ctx.count("contract_evaluations", cc.evaluations())
    ctx.count("normal_contract_calls", S["normal._nll::calls"] + S["normal._nll_and_jacobian::calls"])
    ctx.count("bernoulli_contract_calls", S["bernoulli._nll::calls"])
    ctx.count("weibull_nll_contract_calls", S["weibull._nll::calls"])
    ctx.count("weibull_log_survival_contract_calls", S["weibull.compute_log_survival::calls"])
    ctx.count("weibull_log_hazard_contract_calls", S["weibull.compute_log_likelihood_hazard::calls"])
    ctx.count("weibull_reparam_contract_calls", S["weibull._extract_reparametrized_nu::calls"])
    ctx.count("weibull_observed_event_at_or_before_reference_entries", S["weibull::observed_event_at_or_before_reference_entries"])
    ctx.count("weibull_censored_entries", S["weibull::censored_entries"])
    ctx.count("bernoulli_saturated_not_judged", S["bernoulli._nll::entries_saturated_not_judged"])
    ctx.count("entries_judged_by_contracts", sum(v for k, v in S.items() if k.endswith("::entries_judged")))
    ctx.count("entries_not_judged_by_contracts", sum(v for k, v in S.items() if k.endswith("::entries_not_judged")))
    ctx.count("other_torch_family_not_judged", S["torchfamily._nll::other_family_not_judged"])


# ------------------------------------------------------------------------------------------------------
# helpers shared by the direct workloads
# ------------------------------------------------------------------------------------------------------
def _call(ctx, cc, case, label, fn, fam_counter):
    """Run one real call; a broken contract becomes a violation; returns the result or None.
    The contract counter of the family must advance during the call, else the patched attribute was bypassed."""
    before = cc.STATS[fam_counter]
    try:
        res = fn()
    except cc.DensityPostBroken as e:
        ctx.violation(e.key, f"[{label}] {e.what}", case, **e.detail)
        return None
    except Exception as e:  # the real density refused admissible inputs
        ctx.violation(f"density/{case['family']}/exception", f"[{label}] {type(e).__name__}: {e}", case)
        return None
    if cc.STATS[fam_counter] == before:
        ctx.inconclusive_because(f"contract '{fam_counter}' not evaluated through path {label} (patched attribute bypassed)")
    ctx.count("direct_calls")
    return res


def _outer(ctx, cc, case, label, key, got_t, want, tol, judged=None, alt=None, atol=None):
    """Harness-level comparison of what the public entry point returned."""
    import numpy as np

    got = cc._np(got_t)
    ctx.count("outer_results_compared")
    if got.shape != want.shape:
        ctx.violation(key + "/shape", f"[{label}] result shape {got.shape} != broadcast shape {want.shape}", case)
        return False
    if tol is cc.TOL32:
        j32 = np.abs(want) < cc.BIG32
        judged = j32 if judged is None else (judged & j32)
    bad, j = cc.bad_entries(got, want, tol[0], tol[1] if atol is None else atol, judged)
    ctx.count("outer_entries_judged", int(j.sum()))
    if bad.any():
        if alt is not None and (bad & alt[0]).any():  # a separately classified mechanism
            idx = tuple(int(k) for k in np.argwhere(bad & alt[0])[0])
            ctx.violation(alt[1], f"[{label}] {alt[2]}", case, index=list(idx), got=float(got[idx]), want=float(want[idx]), n_bad=int((bad & alt[0]).sum()))
            bad = bad & ~alt[0]
        if bad.any():
            idx = tuple(int(k) for k in np.argwhere(bad)[0])
            ctx.violation(key, f"[{label}] returned entry differs from the textbook negative log-density", case,
                          index=list(idx), got=float(got[idx]), want=float(want[idx]), n_bad=int(bad.sum()))
        return False
    return bool(j.any())


# ------------------------------------------------------------------------------------------------------
# direct: Normal
# ------------------------------------------------------------------------------------------------------
NORMAL_LAYOUTS = ["ind(n,1)/(1,)/(1,)", "ind(n,1)/()/(1,)", "attach(n,T,F)/(n,T,F)/(F,)", "attach(n,T,F)/(n,T,F)/(1,)",
                  "scalar", "sources(n,k)/(k,)/()", "pop(F,)/(F,)/()", "pop(d,k)/(d,k)/()"]
NORMAL_DTYPES = ["f32", "f64", "value64-params32", "value32-loc64"]
NORMAL_PATHS = ["nll", "regularization-tensor", "regularization-weighted", "symbolic-nll", "symbolic-regularization",
                "nll_and_jacobian", "nll_jacobian"]


def _direct_normal(spec, ctx, cc):
    import numpy as np
    import torch

    from leaspy.utils.weighted_tensor import WeightedTensor
    from leaspy.variables.distributions import Normal, NormalFamily
    from vf.refmodel import dens08 as ref

    sym = Normal("the_loc", "the_scale")
    f_nll, f_reg = sym.get_func_nll("the_value"), sym.get_func_regularization("the_value")
    cc.install()
    for i in ctx.cases(spec["n"]):
        r = ctx.rng("normal", i)
        layout = NORMAL_LAYOUTS[i % len(NORMAL_LAYOUTS)]
        dmode = NORMAL_DTYPES[(i // len(NORMAL_LAYOUTS)) % len(NORMAL_DTYPES)]
        if dmode == "value32-loc64" and not layout.startswith("attach"):
            # float32 value with a float64 location only occurs as (y, model) of the joint model: both full-shaped.  (A 0-dim float64
            # location next to a float32 value is demoted to float32 by torch's type promotion: not a layout of the models.)
            dmode = "f32"
        n, T, F, k, d = (int(r.integers(1, 9)), int(r.integers(1, 7)), int(r.integers(1, 5)), int(r.integers(1, 4)), int(r.integers(1, 5)))
        shp = {
            "ind(n,1)/(1,)/(1,)": ((n, 1), (1,), (1,)), "ind(n,1)/()/(1,)": ((n, 1), (), (1,)),
            "attach(n,T,F)/(n,T,F)/(F,)": ((n, T, F), (n, T, F), (F,)), "attach(n,T,F)/(n,T,F)/(1,)": ((n, T, F), (n, T, F), (1,)),
            "scalar": ((), (), ()), "sources(n,k)/(k,)/()": ((n, k), (k,), ()), "pop(F,)/(F,)/()": ((F,), (F,), ()),
            "pop(d,k)/(d,k)/()": ((d, k), (d, k), ()),
        }[layout]
        centre = float(r.choice([0.0, 0.5, 70.0, -4.0, 1000.0]))
        loc = centre + r.normal(size=shp[1]) * float(r.choice([0.0, 0.1, 5.0]))
        scale = 10.0 ** r.uniform(-6, 2, size=shp[2])  # incl. noise levels / prior stds far below 1e-3 (a loaded model may hold them)
        zs = float(r.choice([0.0, 1.0, 5.0, 30.0]))
        x = np.broadcast_to(loc, shp[0]) + np.broadcast_to(scale, shp[0]) * r.normal(size=shp[0]) * zs
        x = np.asarray(x, dtype=np.float64).reshape(shp[0])
        dv, dl, ds = {"f32": (torch.float32,) * 3, "f64": (torch.float64,) * 3, "value64-params32": (torch.float64, torch.float32, torch.float32),
                      "value32-loc64": (torch.float32, torch.float64, torch.float32)}[dmode]
        xt, lt, st = torch.tensor(x, dtype=dv), torch.tensor(loc, dtype=dl), torch.tensor(scale, dtype=ds)
        wmode = str(r.choice(["none", "mask", "allzero"])) if len(shp[0]) else "none"
        w = None if wmode == "none" else torch.tensor((r.random(shp[0]) < 0.7) & (wmode != "allzero"))
        case = {"index": i, "family": "normal", "layout": layout, "dtype": dmode, "weights": wmode, "shapes": [list(s) for s in shp],
                "x": x.flatten()[:6], "loc": np.asarray(loc).flatten()[:6], "scale": np.asarray(scale).flatten()[:6]}
        ctx.evaluated()
        want = ref.normal_nll(cc._np(xt), cc._np(lt), cc._np(st))
        want_dx = ref.normal_nll_dx(cc._np(xt), cc._np(lt), cc._np(st))
        tol = cc.tol_of(xt, lt, st)
        wt = WeightedTensor(xt, w)
        nontrivial = False
        for path in NORMAL_PATHS:
            counter = {"nll_and_jacobian": "normal._nll_and_jacobian::calls", "nll_jacobian": "normal._nll_jacobian::calls"}.get(path, "normal._nll::calls")
            fn = {
                "nll": lambda: NormalFamily.nll(wt, lt, st),
                "regularization-tensor": lambda: NormalFamily.regularization(xt, lt, st),
                "regularization-weighted": lambda: NormalFamily.regularization(wt, lt, st),
                "symbolic-nll": lambda: f_nll(the_value=wt, the_loc=lt, the_scale=st),
                "symbolic-regularization": lambda: f_reg(the_value=xt, the_loc=lt, the_scale=st),
                "nll_and_jacobian": lambda: NormalFamily.nll_and_jacobian(wt, lt, st),
                "nll_jacobian": lambda: NormalFamily.nll_jacobian(wt, lt, st),
            }[path]
            res = _call(ctx, cc, dict(case, path=path), f"normal/{path}", fn, counter)
            if res is None:
                continue
            if path == "nll_jacobian":
                ok = _outer(ctx, cc, dict(case, path=path), f"normal/{path}", "normal/nll-jacobian-mismatch", res.value, want_dx, tol)
            elif path == "nll_and_jacobian":
                ok = _outer(ctx, cc, dict(case, path=path), f"normal/{path}", "normal/nll-entry-mismatch", res[0].value, want, tol)
                _outer(ctx, cc, dict(case, path=path), f"normal/{path}", "normal/nll-jacobian-mismatch", res[1].value, want_dx, tol)
            else:
                ok = _outer(ctx, cc, dict(case, path=path), f"normal/{path}", "normal/nll-entry-mismatch", res.value, want, tol)
                expect_w = None if path in ("regularization-tensor", "symbolic-regularization") else w
                if (res.weight is None) != (expect_w is None) or (expect_w is not None and not torch.equal(res.weight, expect_w)):
                    ctx.violation("normal/nll-weights-changed", f"[normal/{path}] weights of the result differ from the value's weights", dict(case, path=path))
            nontrivial |= ok
            if ok:
                ctx.distinct("normal", layout, dmode, path, wmode, zs == 0.0)
        if nontrivial:
            ctx.count("direct_nontrivial_cases")
        if i < 2:
            ctx.sample(case)


# ------------------------------------------------------------------------------------------------------
# direct: Bernoulli
# ------------------------------------------------------------------------------------------------------
BERN_LAYOUTS = ["(n,T,F)/(n,T,F)", "scalar", "(n,T,F)/(F,)"]
BERN_SPECIALS = [1e-7, 1.0 - 1e-7, 1.1920929e-07, 1.0 - 1.1920929e-07, 0.5, 1e-3, 1.0 - 1e-3, 3e-7, 1.0 - 3e-7]


def _direct_bernoulli(spec, ctx, cc):
    import numpy as np
    import torch

    from leaspy.utils.weighted_tensor import WeightedTensor
    from leaspy.variables.distributions import Bernoulli, BernoulliFamily
    from vf.refmodel import dens08 as ref

    f_nll = Bernoulli("the_p").get_func_nll("the_value")
    cc.install()
    for i in ctx.cases(spec["n"]):
        r = ctx.rng("bernoulli", i)
        layout = BERN_LAYOUTS[i % 3]
        dmode = ["f32", "f64", "value32-p64"][(i // 3) % 3]
        n, T, F = int(r.integers(1, 9)), int(r.integers(1, 7)), int(r.integers(1, 5))
        xs, ps = {"(n,T,F)/(n,T,F)": ((n, T, F), (n, T, F)), "scalar": ((), ()), "(n,T,F)/(F,)": ((n, T, F), (F,))}[layout]
        p = 1.0 / (1.0 + np.exp(-r.normal(size=ps) * float(r.choice([1.0, 4.0, 10.0]))))
        p = np.clip(p, 1e-12, 1 - 1e-12)
        flat = np.asarray(p, dtype=np.float64).reshape(-1).copy()
        specials = []
        for _ in range(int(r.integers(0, 4))):
            s = float(BERN_SPECIALS[int(r.integers(len(BERN_SPECIALS)))])
            flat[int(r.integers(flat.size))] = s
            specials.append(s)
        p = flat.reshape(ps)
        x = (r.random(xs) < 0.5).astype(float)
        dx, dp = {"f32": (torch.float32, torch.float32), "f64": (torch.float64, torch.float64), "value32-p64": (torch.float32, torch.float64)}[dmode]
        xt, pt = torch.tensor(x, dtype=dx), torch.tensor(p, dtype=dp)
        if ((pt <= 0) | (pt >= 1)).any():  # float32 rounding of 1-1e-12: keep p strictly inside (0,1) (the documented support)
            pt = pt.clamp(min=1e-30, max=float(np.nextafter(np.float32(1), np.float32(0))) if dp == torch.float32 else 1 - 1e-16)
        # saturated predictions: a float32 logistic returns EXACTLY 1.0 (0.0) once |logit| > ~17 (fast progressor, long follow-up).  With a
        # matching outcome the exact density is 0: the monitor requires a finite value <= 1e-6 there (mismatching outcome: +inf, not judged)
        if len(ps) == len(xs) and len(xs) and i % 5 == 0:
            k = int(r.integers(1, 4))
            idx = r.integers(0, pt.numel(), size=k)
            flat_p, flat_x = pt.reshape(-1).clone(), xt.reshape(-1).clone()
            for j in idx:
                side = float(r.integers(2))
                flat_p[int(j)] = side
                flat_x[int(j)] = side if r.random() < 0.8 else 1.0 - side
            pt, xt = flat_p.reshape(pt.shape), flat_x.reshape(xt.shape)
            x = xt.double().numpy()
            specials = specials + [-1.0]  # marker: exactly saturated probability present
            ctx.count("bernoulli_exactly_saturated_cases")
        wmode = str(r.choice(["none", "mask"])) if len(xs) else "none"
        w = None if wmode == "none" else torch.tensor(r.random(xs) < 0.7)
        case = {"index": i, "family": "bernoulli", "layout": layout, "dtype": dmode, "specials": specials, "weights": wmode,
                "p": cc._np(pt).flatten()[:6], "x": x.flatten()[:6]}
        ctx.evaluated()
        want = ref.bernoulli_nll(cc._np(xt), cc._np(pt))
        inside = cc.bernoulli_judged_mask(np.broadcast_to(cc._np(pt), want.shape), dp)
        if w is not None:  # entries of weight 0 are meaningless (never enter a sum): not judged (correction after the C06 repair)
            inside = inside & np.broadcast_to(cc._np(w) != 0, want.shape)
        tol = cc.tol_of(xt, pt)
        wt = WeightedTensor(xt, w)
        for path, fn in (("nll", lambda: BernoulliFamily.nll(wt, pt)), ("symbolic-nll", lambda: f_nll(the_value=wt, the_p=pt))):
            res = _call(ctx, cc, dict(case, path=path), f"bernoulli/{path}", fn, "bernoulli._nll::calls")
            if res is None:
                continue
            ok = _outer(ctx, cc, dict(case, path=path), f"bernoulli/{path}", "bernoulli/nll-entry-mismatch", res.value, want, tol, judged=inside)
            if (res.weight is None) != (w is None) or (w is not None and not torch.equal(res.weight, w)):
                ctx.violation("bernoulli/nll-weights-changed", f"[bernoulli/{path}] weights of the result differ from the value's weights", dict(case, path=path))
            if ok:
                ctx.distinct("bernoulli", layout, dmode, path, wmode, tuple(sorted(set(specials))), bool((~inside).any()))
        if i < 2:
            ctx.sample(case)


# ------------------------------------------------------------------------------------------------------
# direct: right-censored Weibull
# ------------------------------------------------------------------------------------------------------
TAU_CLASSES = ["far-before", "just-before", "equal", "after", "just-after"]


def gen_weibull_inputs(r, n=None, n_events=None, with_shifts=None, peaked=False):
    """(numpy float64 arrays) t (n,E), observed (n,E) bool, nu (E,), rho (E,), xi (n,1), tau (n,1), shifts (n,E)|None, classes."""
    import numpy as np

    n = int(n if n is not None else r.integers(1, 9))
    E = int(n_events if n_events is not None else r.choice([1, 1, 2, 3]))
    t = np.round(r.uniform(40, 95, size=(n, E)), 3)
    obs = r.random((n, E)) < 0.55
    nu = np.exp(r.uniform(np.log(0.2), np.log(5.0), size=E))
    rho = np.exp(r.uniform(np.log(0.2), np.log(5.0), size=E))
    for e in range(E):
        c = r.random()
        if c < 0.12:
            rho[e] = 1.0
        elif c < 0.2:
            rho[e] = 0.2
        elif c < 0.28:
            rho[e] = 5.0
    if peaked:  # outside the design domain [0.2, 5]: very peaked laws (leaspy's own data-driven start can produce rho ~ 1e22)
        rho = np.exp(r.uniform(np.log(30.0), np.log(1000.0), size=E))
    xi = np.clip(r.normal(0, 1.2, size=(n, 1)), -3, 3)
    for j in range(n):
        if r.random() < 0.1:
            xi[j] = float(r.choice([-3.0, 3.0, 0.0]))
    classes = [TAU_CLASSES[int(r.integers(len(TAU_CLASSES)))] for _ in range(n)]
    tau = np.zeros((n, 1))
    for j, c in enumerate(classes):
        t_ref = t[j, int(r.integers(E))]
        tau[j, 0] = {
            "far-before": t_ref - r.uniform(5, 40),  # reference time far before the event (the usual case)
            "just-before": t_ref - 10.0 ** r.uniform(-9, -2),
            "equal": t_ref,
            "after": t_ref + 10.0 ** r.uniform(-6, 1.3),  # event BEFORE the reference time
            "just-after": t_ref + 10.0 ** r.uniform(-9, -6),
        }[c]
    shifts = None
    if with_shifts if with_shifts is not None else (r.random() < 0.5):
        shifts = r.normal(0, 1.0, size=(n, E)) * float(r.choice([0.0, 0.3, 1.5]))
    return t, obs, nu, rho, xi, tau, shifts, classes


def _direct_weibull(spec, ctx, cc):
    import numpy as np
    import torch

    from leaspy.utils.weighted_tensor import WeightedTensor
    from leaspy.variables.distributions import (
        WeibullRightCensored, WeibullRightCensoredFamily, WeibullRightCensoredWithSources, WeibullRightCensoredWithSourcesFamily,
    )
    from vf.refmodel import dens08 as ref

    sym0 = WeibullRightCensored("nu", "rho", "xi", "tau").get_func_nll("event")
    sym1 = WeibullRightCensoredWithSources("nu", "rho", "xi", "tau", "survival_shifts").get_func_nll("event")
    cc.install()
    for i in ctx.cases(spec["n"]):
        r = ctx.rng("weibull", i)
        peaked = (i % 20) == 7
        t, obs, nu, rho, xi, tau, shifts, classes = gen_weibull_inputs(r, with_shifts=bool(i % 2), peaked=peaked)
        if peaked:
            ctx.count("weibull_peaked_rho_cases")
        dmode = ["params32", "params64", "latents64-pop32"][(i // 2) % 3]
        dpop = torch.float64 if dmode == "params64" else torch.float32
        dind = torch.float32 if dmode == "params32" else torch.float64
        tau_t = torch.tensor(tau, dtype=dind)
        # "equal" must be exact in the dtype actually used
        tt = torch.tensor(t, dtype=torch.float64)
        for j, c in enumerate(classes):
            if c == "equal":
                col = int(np.argmin(np.abs(t[j] - tau[j, 0])))
                tt[j, col] = tau_t[j, 0].double()
        ob = torch.tensor(obs)
        # the censoring indicator is the weight of the event tensor: boolean as the readers build it, or 0/1 numbers (accepted weights)
        ind_dtype = (torch.bool, torch.bool, torch.int64, torch.float32)[(i // 3) % 4]
        if ind_dtype is not torch.bool:
            ob = ob.to(ind_dtype)
            ctx.count("weibull_cases_with_numeric_censoring_indicator")
        x = WeightedTensor(tt, ob)
        nu_t, rho_t, xi_t = torch.tensor(nu, dtype=dpop), torch.tensor(rho, dtype=dpop), torch.tensor(xi, dtype=dind)
        sh_t = None if shifts is None else torch.tensor(shifts, dtype=torch.float32 if dmode != "params64" else torch.float64)
        fam = WeibullRightCensoredFamily if sh_t is None else WeibullRightCensoredWithSourcesFamily
        params = (nu_t, rho_t, xi_t, tau_t) + (() if sh_t is None else (sh_t,))
        named = dict(event=x, nu=nu_t, rho=rho_t, xi=xi_t, tau=tau_t, **({} if sh_t is None else {"survival_shifts": sh_t}))
        case = {"index": i, "family": "weibull", "with_shifts": sh_t is not None, "dtype": dmode, "indicator_dtype": str(ind_dtype), "tau_classes": classes, "peaked_rho": peaked,
                "t": cc._np(tt), "observed": obs, "nu": cc._np(nu_t), "rho": cc._np(rho_t), "xi": cc._np(xi_t), "tau": cc._np(tau_t),
                "shifts": None if sh_t is None else cc._np(sh_t)}
        ctx.evaluated()
        T = ref.weibull_terms(cc._np(tt), obs, cc._np(nu_t), cc._np(rho_t), cc._np(xi_t), cc._np(tau_t), None if sh_t is None else cc._np(sh_t))
        tol = cc.tol_of(tt, *params)
        atol_w = cc._weibull_atol(tol, cc._np(rho_t), T)  # conditioning of (t/nu)^rho: see the contract module
        early = T["observed"] & ~T["after"]
        ctx.count("weibull_at_tau_entries", int((T["at_tau"]).sum()))
        ctx.count("weibull_censored_before_reference_entries", int((~T["observed"] & ~T["after"]).sum()))
        rho_b = np.broadcast_to(cc._np(rho_t), early.shape)
        alt = (T["observed"] & T["after"] & (np.abs(T["log_pow"]) > cc.POW_UNDERFLOW), cc.KEY_UNDERFLOW,
               "the hazard underflows in float64 and the log-hazard of an observed event is lost")
        ctx.count("weibull_hazard_underflow_entries", int(alt[0].sum()))
        for path in ("nll", "symbolic-nll", "compute_log_survival", "compute_log_likelihood_hazard"):
            fn = {"nll": lambda: fam.nll(x, *params), "symbolic-nll": lambda: (sym0 if sh_t is None else sym1)(**named),
                  "compute_log_survival": lambda: fam.compute_log_survival(x, *params),
                  "compute_log_likelihood_hazard": lambda: fam.compute_log_likelihood_hazard(x, *params)}[path]
            counter = {"compute_log_survival": "weibull.compute_log_survival::calls",
                       "compute_log_likelihood_hazard": "weibull.compute_log_likelihood_hazard::calls"}.get(path, "weibull._nll::calls")
            c2 = dict(case, path=path)
            res = _call(ctx, cc, c2, f"weibull/{path}", fn, counter)
            if res is None:
                continue
            if path == "compute_log_survival":
                ok = _outer(ctx, cc, c2, f"weibull/{path}", "weibull/log-survival-mismatch", res, -T["neg_log_S"], tol, atol=atol_w)
            elif path == "compute_log_likelihood_hazard":
                want = np.where(T["observed"], np.where(T["after"], T["log_h"], np.nan), 0.0)
                ok = _outer(ctx, cc, c2, f"weibull/{path}", "weibull/log-hazard-mismatch", res, want, tol, alt=alt, atol=atol_w)
                _penalty_outer(ctx, cc, c2, -cc._np(res), early, T, rho_b, f"weibull/{path}")
            else:
                got = cc._np(res.value)
                ok = _outer(ctx, cc, c2, f"weibull/{path}", "weibull/nll-entry-mismatch", res.value, np.where(early, np.nan, T["nll"]), tol, alt=alt, atol=atol_w)
                _penalty_outer(ctx, cc, c2, got, early, T, rho_b, f"weibull/{path}")
                cens = ~T["observed"]
                if got.shape == cens.shape and cens.any():
                    bad, _ = cc.bad_entries(got, T["neg_log_S"], tol[0], atol_w, cens)
                    if bad.any():
                        ctx.violation("weibull/censored-not-survival-only", f"[weibull/{path}] a censored individual contributes something else than -log S(t)", c2)
            if ok:
                ctx.distinct("weibull", sh_t is not None, dmode, path, tuple(sorted(set(classes))), bool(obs.all()), bool((~obs).all()),
                             tt.shape[1], tuple(sorted(set(np.round(cc._np(rho_t), 6)) & {0.2, 1.0, 5.0})))
        if i < 2:
            ctx.sample(case)


def _penalty_outer(ctx, cc, case, got_pos, early, T, rho_b, label):
    """got_pos: the value in the 'penalty is positive' orientation (nll, or minus the log-hazard)."""
    import numpy as np

    from vf.refmodel import dens08 as ref

    if got_pos.shape != early.shape or not early.any():
        return
    ctx.count("outer_early_event_entries", int(early.sum()))
    g = got_pos[early]
    if not np.isfinite(g).all():
        ctx.violation("weibull/event-before-reference-not-finite", f"[{label}] observed event at/before the reference time gives NaN/inf instead of a finite penalty", case,
                      got=g[~np.isfinite(g)][:3])
        return
    must = T["observed"] & (T["before"] | (T["at_tau"] & (rho_b > 1.0)))
    if must.any() and (got_pos[must] < ref.PENALTY_MIN).any():
        ctx.violation("weibull/event-before-reference-not-penalised", f"[{label}] observed event before the reference time (density 0) is not given a prohibitive penalty (>= 1e300)",
                      case, got=got_pos[must][:4])


# ------------------------------------------------------------------------------------------------------
# whole-state
# ------------------------------------------------------------------------------------------------------
STATE_GRID = [
    ("joint", 1, 0, None), ("joint", 2, 1, None), ("joint", 3, 1, None), ("joint", 4, 2, None),
    ("logistic", 1, 0, "gaussian-scalar"), ("logistic", 3, 1, "gaussian-scalar"), ("logistic", 3, 2, "gaussian-diagonal"),
    ("logistic", 2, 1, "bernoulli"), ("logistic", 3, 0, "bernoulli"), ("linear", 2, 1, "gaussian-diagonal"),
    ("shared_speed_logistic", 3, 1, None), ("joint", 3, 2, None),
    ("joint", 2, 1, "events2"), ("joint", 1, 0, "events2"),  # two competing events
]


def perturb_state(model, state, r, kind):
    """Move every settable latent value / prior parameter / noise level away from its initial value.  Returns info dict."""
    import numpy as np
    import torch

    from leaspy.variables.specs import IndividualLatentVariable, ModelParameter, PopulationLatentVariable

    info = {}
    n = state["xi"].shape[0]
    ind_dtype = {"keep": None, "f32": torch.float32, "f64": torch.float64}[str(r.choice(["keep", "f32", "f64"]))]
    info["ind_dtype"] = str(ind_dtype)

    def noise(v, s):
        return torch.tensor(r.normal(size=tuple(v.shape)) * s, dtype=v.dtype)

    with state.auto_fork(None):
        for name, var in state.dag.variables.items():
            if isinstance(var, PopulationLatentVariable):
                v = state[name]
                if name == "log_rho":
                    state[name] = torch.tensor(r.uniform(np.log(0.2), np.log(5.0), size=tuple(v.shape)), dtype=v.dtype)
                elif name == "n_log_nu":
                    state[name] = torch.tensor(-r.uniform(np.log(0.5), np.log(40.0), size=tuple(v.shape)), dtype=v.dtype)
                elif name == "zeta":
                    state[name] = noise(v, 0.7)
                else:
                    state[name] = v + noise(v, 0.02 if r.random() < 0.5 else 0.3)
            elif isinstance(var, ModelParameter):
                v = state[name]
                if name.endswith("_std"):
                    state[name] = v * torch.exp(noise(v, 0.5))
                elif name == "tau_mean":
                    state[name] = v + noise(v, 3.0)
                else:
                    state[name] = v + noise(v, 0.2)
        classes = None
        for name, var in state.dag.variables.items():
            if not isinstance(var, IndividualLatentVariable):
                continue
            v = state[name]
            dt = (ind_dtype or v.dtype) if name in ("xi", "tau") else v.dtype  # sources enter a matmul with float32 matrices
            if name == "xi":
                new = np.clip(r.normal(0, 0.7, size=tuple(v.shape)), -3, 3)
            elif name == "tau":
                new = float(state["tau_mean"].reshape(-1)[0]) + r.normal(0, 7.0, size=tuple(v.shape))
                if kind == "joint":
                    ev = state["event"].value.double().numpy()
                    classes = []
                    for j in range(n):
                        c = str(r.choice(["far-before", "far-before", "just-before", "equal", "after", "usual"]))
                        classes.append(c)
                        t_ref = float(ev[j, 0])
                        new[j, 0] = {"far-before": t_ref - r.uniform(5, 40), "just-before": t_ref - 10.0 ** r.uniform(-6, -2), "equal": t_ref,
                                     "after": t_ref + 10.0 ** r.uniform(-4, 1.0), "usual": t_ref - r.uniform(0.3, 8)}[c]
            else:
                new = r.normal(0, 1.0, size=tuple(v.shape))
            state[name] = torch.tensor(new, dtype=dt)
    info["tau_classes"] = classes
    return info


def _sum_ind(a, w=None):
    """Sum every axis but the first; entries with weight False contribute 0 (and may hold anything)."""
    import numpy as np

    if w is not None:
        a = np.where(w, a, 0.0)
    return a.reshape(a.shape[0], -1).sum(axis=1) if a.ndim > 1 else a


def reference_nodes(model, state, cc, ds=None):
    """name -> dict(want=np array (inf marks 'penalty expected'), scale=sum|terms|, f32=bool, fam=str, skip=mask|None)."""
    import numpy as np
    import torch

    from leaspy.utils.weighted_tensor import WeightedTensor
    from leaspy.variables import distributions as D
    from leaspy.variables.specs import IndividualLatentVariable, LatentVariable
    from vf.refmodel import dens08 as ref

    out = {}
    dag = state.dag

    def val(name):
        v = state[name]
        return v

    def is32(*ts):
        return cc.tol_of(*[t.value if isinstance(t, WeightedTensor) else t for t in ts]) is cc.TOL32

    named = len(model.obs_models) > 1
    attach_parts = []
    for om in model.obs_models:
        fam, pn = om.dist.dist_family, om.dist.parameters_names
        node = f"nll_attach_{om.name}_ind" if named else "nll_attach_ind"
        data = val(om.name)
        w = None if data.weight is None else cc._np(data.weight) != 0
        if fam is D.NormalFamily:
            loc, scale = val(pn[0]), val(pn[1])
            e = ref.normal_nll(cc._np(data.value), cc._np(loc), cc._np(scale))
            e = np.broadcast_to(e, data.value.shape)
            out[node] = dict(want=_sum_ind(e, w), scale=_sum_ind(np.abs(e), w), f32=is32(data, loc, scale), fam="normal", skip=None)
        elif fam is D.BernoulliFamily:
            p = val(pn[0])
            e = ref.bernoulli_nll(cc._np(data.value), cc._np(p))
            inside = cc.bernoulli_judged_mask(np.broadcast_to(cc._np(p), e.shape), p.dtype)
            sat_ind = _sum_ind((~inside).astype(float), w) > 0  # individuals with a saturated weighted entry: not judged
            out[node] = dict(want=_sum_ind(e, w), scale=_sum_ind(np.abs(e), w), f32=is32(data, p), fam="bernoulli", skip=sat_ind)
        elif issubclass(fam, D.AbstractWeibullRightCensoredFamily):
            ps = [val(k) for k in pn]
            shifts = cc._np(ps[4]) if len(ps) > 4 else None
            ev_t = cc._np(data.value)
            if ds is not None and getattr(ds, "event_bool", None) is not None and getattr(ds, "event_time", None) is not None:
                # event times and censoring indicators as ingested (one column per kind of event): the table is the truth, the state's
                # `event` variable is something the model builds from it
                w_ds, t_ds = cc._np(ds.event_bool) != 0, cc._np(ds.event_time)
                if w is not None and w_ds.shape == np.shape(w) and t_ds.shape == ev_t.shape:
                    out["__event_inputs_from_dataset__"] = True
                    w, ev_t = w_ds, t_ds
            T = ref.weibull_terms(ev_t, w, *[cc._np(q) for q in ps[:4]], shifts)
            out[node] = dict(want=_sum_ind(T["nll"]), scale=_sum_ind(np.where(np.isfinite(T["nll"]), np.abs(T["nll"]), 0.0)),
                             f32=is32(data, *ps), fam="weibull", skip=None,
                             extra_atol=_sum_ind(cc._weibull_atol(cc.TOL32 if is32(data, *ps) else cc.TOL64, cc._np(ps[1]), T)),  # conditioning of (t/nu)^rho
                             at_tau_only=_sum_ind((T["observed"] & T["at_tau"] & (np.broadcast_to(cc._np(ps[1]), T["nll"].shape) <= 1.0)).astype(float)) > 0,
                             underflow=_sum_ind((T["observed"] & T["after"] & (np.abs(T["log_pow"]) > cc.POW_UNDERFLOW)).astype(float)) > 0)
            if "survival_shifts" in pn and "sources" in dag and "zeta" in dag:
                s, z = val("sources"), val("zeta")
                u = cc._np(s) @ cc._np(z)
                out["survival_shifts"] = dict(want=u, scale=np.abs(cc._np(s)) @ np.abs(cc._np(z)), f32=True, fam="link", skip=None)
            if "n_log_nu" in dag and "log_rho" in dag:
                out["nu"] = dict(want=np.exp(-cc._np(val("n_log_nu"))), scale=np.exp(-cc._np(val("n_log_nu"))), f32=True, fam="link", skip=None)
                out["rho"] = dict(want=np.exp(cc._np(val("log_rho"))), scale=np.exp(cc._np(val("log_rho"))), f32=True, fam="link", skip=None)
        else:
            continue
        attach_parts.append(node)
    if named and len(attach_parts) == len(model.obs_models):
        out["nll_attach_ind"] = _combine(out, attach_parts)
        for om in model.obs_models:
            out[f"nll_attach_{om.name}"] = _total(out[f"nll_attach_{om.name}_ind"])
    if "nll_attach_ind" in out:
        out["nll_attach"] = _total(out["nll_attach_ind"])

    ind_parts = []
    all_ind_ok = True
    for name, var in dag.variables.items():
        if not isinstance(var, LatentVariable):
            continue
        prior = var.prior
        if prior.dist_family is not D.NormalFamily:
            if isinstance(var, IndividualLatentVariable):
                all_ind_ok = False
            continue
        m, s = val(prior.parameters_names[0]), val(prior.parameters_names[1])
        v = val(name)
        e = ref.normal_nll(cc._np(v), cc._np(m), cc._np(s))
        e = np.broadcast_to(e, v.shape)
        f32 = is32(v, m, s)
        if isinstance(var, IndividualLatentVariable):
            out[f"nll_regul_{name}_ind"] = dict(want=_sum_ind(e), scale=_sum_ind(np.abs(e)), f32=f32, fam="normal-prior", skip=None)
            out[f"nll_regul_{name}"] = _total(out[f"nll_regul_{name}_ind"])
            ind_parts.append(f"nll_regul_{name}_ind")
        else:
            out[f"nll_regul_{name}"] = dict(want=np.asarray(e.sum()), scale=np.asarray(np.abs(e).sum()), f32=f32, fam="normal-prior", skip=None)
    if ind_parts and all_ind_ok:
        out["nll_regul_ind_sum_ind"] = _combine(out, ind_parts)
        out["nll_regul_ind_sum"] = _total(out["nll_regul_ind_sum_ind"])
    return out


def _combine(out, parts):
    import numpy as np

    d = dict(want=sum(out[p]["want"] for p in parts), scale=sum(out[p]["scale"] for p in parts), f32=any(out[p]["f32"] for p in parts),
             fam="+".join(sorted({out[p]["fam"] for p in parts})), skip=None)
    for p in parts:
        if out[p].get("skip") is not None:
            d["skip"] = out[p]["skip"] if d["skip"] is None else (d["skip"] | out[p]["skip"])
        if out[p].get("at_tau_only") is not None:
            d["at_tau_only"] = out[p]["at_tau_only"]
            d["underflow"] = out[p]["underflow"]
        if out[p].get("extra_atol") is not None:
            d["extra_atol"] = d.get("extra_atol", 0.0) + out[p]["extra_atol"]
    return d


def _total(d):
    import numpy as np

    t = dict(want=np.asarray(d["want"].sum()), scale=np.asarray(d["scale"].sum()), f32=d["f32"], fam=d["fam"], skip=None)
    if d.get("skip") is not None and d["skip"].any():
        t["skip"] = np.asarray(True)
    if d.get("at_tau_only") is not None:
        t["at_tau_only"] = np.asarray(bool(d["at_tau_only"].any()))
        t["underflow"] = np.asarray(bool(d["underflow"].any()))
    if d.get("extra_atol") is not None:
        t["extra_atol"] = np.asarray(np.sum(d["extra_atol"]))
    return t


def compare_node(ctx, cc, case, name, got_t, d):
    """Returns True if at least one entry was judged."""
    import numpy as np

    from leaspy.utils.weighted_tensor import WeightedTensor
    from vf.refmodel import dens08 as ref

    if isinstance(got_t, WeightedTensor):
        got_t = got_t.value
    got, want, scale = cc._np(got_t), np.asarray(d["want"], dtype=np.float64), np.asarray(d["scale"], dtype=np.float64)
    fam = d["fam"]
    key = "state/" + ("link-mismatch" if fam == "link" else ("regularity-node-mismatch" if fam == "normal-prior" else f"attachment-node-mismatch/{fam}"))
    if got.shape != want.shape:
        ctx.violation(key + "/shape", f"state['{name}'] has shape {got.shape}, reference {want.shape}", case)
        return False
    rtol, atol = cc.TOL32 if d["f32"] else cc.TOL64
    judged = np.ones(want.shape, dtype=bool)
    if d.get("skip") is not None:
        judged &= ~np.broadcast_to(d["skip"], want.shape)
        ctx.count("state_entries_not_judged_bernoulli_saturation", int((~judged).sum()))
    penal = np.isposinf(want)  # an observed event at/before the reference time is part of the sum
    if penal.any():
        ctx.count("state_penalty_entries", int(penal.sum()))
        loose = np.broadcast_to(d.get("at_tau_only", False), want.shape) if d.get("at_tau_only") is not None else np.zeros(want.shape, bool)
        g = got[penal & judged]
        if not np.isfinite(g).all():
            ctx.violation("weibull/event-before-reference-not-finite", f"state['{name}']: observed event at/before the reference time gives NaN/inf", case, got=g[:4])
            return False
        strict = penal & judged & ~loose
        if strict.any() and (got[strict] < ref.PENALTY_MIN).any():
            ctx.violation("weibull/event-before-reference-not-penalised", f"state['{name}']: observed event before the reference time not given a prohibitive penalty (>= 1e300)",
                          case, got=got[strict][:4])
            return False
    j = judged & np.isfinite(want)
    with np.errstate(all="ignore"):
        extra = np.nan_to_num(np.asarray(d.get("extra_atol", 0.0), dtype=np.float64), nan=0.0, posinf=np.inf)
        bad = j & ((np.abs(got - want) > atol + extra + rtol * np.maximum(scale, np.abs(want))) | ~np.isfinite(got))
    ctx.count("state_entries_judged", int(j.sum()))
    if bad.any() and d.get("underflow") is not None:
        under = bad & np.broadcast_to(d["underflow"], want.shape)
        if under.any():
            idx = tuple(int(k) for k in np.argwhere(under)[0])
            ctx.violation(cc.KEY_UNDERFLOW, f"state['{name}']: the hazard of an observed event underflows in float64 and its log-hazard is lost", case,
                          node=name, index=list(idx), got=float(got[idx]), want=float(want[idx]))
            bad = bad & ~under
            if not bad.any():
                return False
    if bad.any():
        idx = tuple(int(k) for k in np.argwhere(bad)[0])
        ctx.violation(key, f"state['{name}'] differs from the reference computed from the state's own inputs", case,
                      node=name, index=list(idx), got=float(got[idx]), want=float(want[idx]), n_bad=int(bad.sum()))
        return False
    return bool(j.any() or penal.any())


def _state_cases(spec, ctx, cc_or_none):
    import numpy as np
    import torch

    from vf import gen
    from vf.probes import c08contracts as cc  # helpers only; contracts installed iff spec['contracts']

    with_c = cc_or_none is not None
    tag = "with_contracts" if with_c else "plain"
    for i in ctx.cases(spec["n"]):
        r = ctx.rng("state", i)
        g = STATE_GRID[(i * 3 + spec["k"]) % len(STATE_GRID)] if i < 2 * len(STATE_GRID) else STATE_GRID[int(r.integers(len(STATE_GRID)))]
        kind, dim, src, noise = g
        case = {"index": i, "model": list(g), "contracts": with_c}
        try:
            model, ds, state, df = gen.ready_state(r, kind, dim, src, noise, n_ind=int(r.integers(3, 10)),
                                                   missing=str(r.choice(["mcar", "none", "heavy"])))
        except Exception as e:  # data-driven initialisation is outside the property
            ctx.count("setup_skipped")
            ctx.note(f"setup_skipped_{type(e).__name__}", str(e)[:200])
            continue
        ctx.evaluated()
        for rep in range(3):  # initial values, then two perturbations
            if rep > 0:
                try:
                    info = perturb_state(model, state, r, kind)
                except Exception as e:
                    ctx.count("perturb_skipped")
                    ctx.note(f"perturb_skipped_{type(e).__name__}", str(e)[:200])
                    break
            else:
                info = {"ind_dtype": "initial", "tau_classes": None}
            c2 = dict(case, rep=rep, **info)
            ev0 = cc.evaluations() if with_c else 0
            try:
                refs = reference_nodes(model, state, cc, ds=ds)
                if refs.pop("__event_inputs_from_dataset__", False):
                    ctx.count("state_event_reference_inputs_taken_from_the_dataset")
            except cc.DensityPostBroken as e:  # reading 'model' etc. never runs a density, but be safe
                ctx.violation(e.key, f"[state inputs] {e.what}", c2, **e.detail)
                continue
            n_ok = 0
            for name, d in refs.items():
                if name not in state.dag:
                    ctx.count("state_reference_node_absent")
                    continue
                try:
                    got = state[name]
                except cc.DensityPostBroken as e:
                    ctx.violation(e.key, f"[state['{name}'] of {kind}] {e.what}", dict(c2, node=name), **e.detail)
                    continue
                except Exception as e:
                    ctx.violation("state/nll-node-exception", f"reading state['{name}'] raised {type(e).__name__}: {e}", dict(c2, node=name))
                    continue
                if compare_node(ctx, cc, dict(c2, node=name), name, got, d):
                    n_ok += 1
                    ctx.count(f"state_nodes_compared_{tag}")
                    if "weibull" in d["fam"]:
                        ctx.count("state_event_nodes_compared")
                    if "bernoulli" in d["fam"]:
                        ctx.count("state_bernoulli_nodes_compared")
            # every nll node of the graph must have been covered by the reference
            uncovered = [nm for nm in state.dag.variables if nm.startswith("nll_") and nm not in refs]
            if uncovered:
                ctx.count("state_nll_nodes_without_reference", len(uncovered))
                ctx.note(f"uncovered_{kind}", uncovered)
            if with_c and cc.evaluations() == ev0:
                ctx.inconclusive_because(f"no density contract evaluated while reading the nll nodes of {g} (bound reference bypasses the patched attribute)")
            if n_ok:
                ctx.distinct("state", g, with_c, rep, info["ind_dtype"], tuple(sorted(set(info["tau_classes"] or ()))))
        if i < 1:
            ctx.sample({"model": list(g), "n_ind": int(state["xi"].shape[0]), "nodes": sorted(refs)[:40]}, limit=1)


# ------------------------------------------------------------------------------------------------------
# contracts during real fits / personalisations
# ------------------------------------------------------------------------------------------------------
FIT_GRID = [("joint", 1, 0, None), ("joint", 3, 1, None), ("logistic", 2, 1, "bernoulli"), ("logistic", 3, 2, "gaussian-diagonal"),
            ("logistic", 1, 0, "gaussian-scalar"), ("joint", 2, 1, None), ("linear", 2, 1, "gaussian-diagonal")]


def _fit_cases(spec, ctx, cc):
    import numpy as np
    import torch

    from leaspy.algo import AlgorithmSettings, algorithm_factory
    from vf import gen

    for i in ctx.cases(spec["n"]):
        r = ctx.rng("fit", i)
        g = FIT_GRID[(i * 4 + spec["k"]) % len(FIT_GRID)]
        kind, dim, src, noise = g
        case = {"index": i, "model": list(g)}
        try:
            model, ds, state, df = gen.ready_state(r, kind, dim, src, noise, n_ind=int(r.integers(4, 10)))
        except Exception as e:
            ctx.count("setup_skipped")
            ctx.note(f"setup_skipped_{type(e).__name__}", str(e)[:200])
            continue
        ctx.evaluated()
        ev0 = cc.evaluations()
        n_iter = int(r.integers(4, 13))
        try:
            settings = AlgorithmSettings("mcmc_saem", n_iter=n_iter, seed=int(r.integers(1 << 30)), progress_bar=False)
            algorithm_factory(settings).run(model, ds)
            ctx.count("fits_completed")
        except cc.DensityPostBroken as e:
            ctx.violation(e.key, f"[during mcmc_saem fit of {g}] {e.what}", case, **e.detail)
            continue
        except Exception as e:  # not C08's business (other properties judge fits)
            ctx.count("fit_error_outside_property")
            ctx.note(f"fit_error_{type(e).__name__}", str(e)[:200])
            continue
        if cc.evaluations() == ev0:
            ctx.inconclusive_because(f"no density contract evaluated during a fit of {g}")
        ctx.count("fit_iterations", n_iter)
        ctx.distinct("fit", g, n_iter)
        if i % 2 == 0:
            algo = "scipy_minimize" if r.random() < 0.5 else "mode_posterior"
            try:
                kw = dict(use_jacobian=False) if algo == "scipy_minimize" else dict(n_iter=int(r.integers(5, 15)))
                settings = AlgorithmSettings(algo, seed=int(r.integers(1 << 30)), progress_bar=False, **kw)
                algorithm_factory(settings).run(model, ds)
                ctx.count("personalizations_completed")
                ctx.distinct("personalize", g, algo)
            except cc.DensityPostBroken as e:
                ctx.violation(e.key, f"[during {algo} personalisation of {g}] {e.what}", case, **e.detail)
            except Exception as e:
                ctx.count("personalize_error_outside_property")
                ctx.note(f"personalize_error_{algo}_{type(e).__name__}", str(e)[:200])
