"""C12 — a fitted model is self-consistent and survives save/load unchanged.  DESIGN §2/C12.

Monitors (all on executions of the real fit / save / load / estimate):
 (a) self-consistency : every population latent variable of ``model.state`` equals the mode of its declared prior under the
     model's parameters; every population-level derived node (v0, g, metric, orthonormal basis, mixing matrix ...) and the
     trajectories returned by ``estimate`` on a fixed probe set agree with a from-scratch evaluation (vf.stateharness.scratch_eval)
     that starts from the parameters *written to the file* only, and (logistic / linear) with the documented closed form in float64.
     Evaluated on the fitted / hand-built model and again on the reloaded model.
 (s) the file says what the model holds (kind-independent fields, parameters at single precision, mixing matrix).
 (b) load(save(m)) succeeds and agrees in kind, name, dimension, features, source dimension, obs-models, cluster / event counts,
     LME flag, parameters and hyperparameters (1e-6 relative on reshape(-1)), trajectories (1e-5).
 (c) save(load(f)) == f as parsed JSON (keys, nesting, strings / ints / bools exactly, numbers to single precision) and
     save(load(.)) is byte-idempotent from the second round.
"""
from __future__ import annotations

import json
import os
import shutil
import tempfile

RULE = (
    "a case = one model built by one route (short seeded MCMC-SAEM / LME fit on a vf.gen.cohort; documented quick-start form "
    "Model(name) without dimension; hand-written JSON file; constructor + load_parameters with hand-written values; constant "
    "model via personalize) and pushed through save -> load -> save -> load -> save in a private temp dir.  Configurations are "
    "drawn from the full grid kind x dimension 1-5 x sources 0-2 x noise (scalar / diagonal / bernoulli where the kind takes it) "
    "walked in a seed-permuted order over the shards, crossed at random with feature naming (plain, spaces, underscores, unicode, "
    "numeric-looking; never in sorted order when dimension>1), instance name (= kind, 'my-model', 'Logistic', 'joint v2', another "
    "kind's name ...), save options (with/without mixing matrix, pathlib path).  evaluations = cases that reached the save/load "
    "monitors; distinct_nontrivial = distinct (kind, dimension, sources, noise, feature style, instance-name class, route) tuples"
)
REQUIRED = {  # about 35 cases' worth: below that the run says nothing about the grid (a heavily loaded machine cuts the quick tier by its time budget)
    "fits": 15,
    "prior_mode_checks": 80,
    "derived_node_checks": 80,
    "trajectory_scratch_checks": 40,
    "trajectory_closed_form_checks": 12,
    "file_vs_model_checks": 35,
    "load_roundtrips": 35,
    "roundtrip_trajectory_checks": 35,
    "resave_compares": 35,
    "idempotence_checks": 35,
    "names_differing_from_kind": 8,
    "quickstart_univariate": 3,
}
ASSUMPTIONS = [
    "mixture models are only built with >= 1 source and >= 2 features (the kind refuses / cannot initialise the others): outside the workload",
    "joint models with > 1 feature, 0 sources and diagonal noise are not built (the constructor registers two observation models named 'y'; initialisation fails): outside the workload",
    "numbers 'equal to single precision' = relative difference <= 1.2e-7 (one float32 ulp); parameters/hyperparameters 1e-6 relative; trajectories 1e-5 absolute-or-relative",
    "the prior of a population variable is read from the model's own declaration (SymbolicDistribution family + parameter names); only Normal priors occur, mode = loc",
    "hand-written files use the layout of the repository's stored files (tests/_data/model_parameters/hardcoded)",
]

N_SHARDS = 16
KINDS = ("logistic", "linear", "shared_speed_logistic", "joint", "mixture_logistic", "lme", "constant")


def shards(tier, seed):
    q = tier == "quick"
    return [{"name": f"models-{k}", "k": k, "n": 14 if q else 2000, "budget_s": 75 if q else 800, "timeout": 600 if q else 3000} for k in range(N_SHARDS)]


# --------------------------------------------------------------------------------------
# configuration grid
# --------------------------------------------------------------------------------------
def grid():
    g = []
    for kind, noises in (("logistic", ("gaussian-scalar", "gaussian-diagonal", "bernoulli")), ("linear", ("gaussian-scalar", "gaussian-diagonal")),
                         ("shared_speed_logistic", ("gaussian-scalar", "gaussian-diagonal", "bernoulli")), ("joint", ("gaussian-scalar", "gaussian-diagonal"))):
        for dim in range(1, 6):
            for src in range(0, min(2, dim - 1) + 1):
                for noise in noises:
                    if kind == "joint" and dim > 1 and src == 0 and noise == "gaussian-diagonal":
                        continue  # JointModel adds a second, scalar, observation model named 'y' there and cannot be initialised (outside C12)
                    g.append((kind, dim, src, noise))
    for dim in range(2, 6):
        for src in range(1, min(2, dim - 1) + 1):
            for ncl in (2, 3):
                g.append(("mixture_logistic", dim, src, f"gaussian-diagonal/{ncl}"))
    g += [("lme", 1, 0, "slope"), ("lme", 1, 0, "no-slope")] * 2
    g += [("constant", dim, 0, "-") for dim in range(1, 6)]
    return g


FEATURE_POOLS = {
    "plain": ["MMSE", "ADAS", "CDRSB", "FAQ", "RAVLT", "TMTB"],
    "spaces": ["mmse total", "adas cog 13", "cdr sum of boxes", " faq", "trail making b ", "clock  drawing"],
    "underscores": ["adas_cog", "mds_updrs_3", "_private", "a__b", "score_", "x_1_2"],
    "unicode": ["mémoire", "得分", "β-amyloid", "Größe", "naïve score", "τ/ξ"],
    "numeric": ["10", "9", "007", "3.5", "1e3", "-1"],
}
OTHER_NAMES = ["my-model", "Logistic", "joint v2", "test-model-logistic", "modèle α", "model.json", "LINEAR ", " "]


# --------------------------------------------------------------------------------------
def run_shard(spec, ctx):
    import numpy as np

    from vf.checks.c15 import install_contract

    install_contract()
    g = grid()
    perm = np.random.default_rng([int(ctx.seed), 12]).permutation(len(g))
    for i in ctx.cases(spec["n"]):
        cfg = g[int(perm[(i * N_SHARDS + spec["k"]) % len(g)])]
        if i == 0:  # every shard starts with the documented univariate quick-start form / an LME, so these classes are always reached
            k = spec["k"]
            cfg = [("logistic", 1, 0, "gaussian-scalar"), ("linear", 1, 0, "gaussian-scalar"), ("joint", 1, 0, "gaussian-scalar"),
                   ("shared_speed_logistic", 1, 0, "gaussian-scalar"), ("lme", 1, 0, "no-slope"), ("lme", 1, 0, "slope")][k % 6]
        tmp = tempfile.mkdtemp(prefix="c12-")
        try:
            _one_case(ctx, spec, i, cfg, tmp)
        finally:
            shutil.rmtree(tmp, ignore_errors=True)


# --------------------------------------------------------------------------------------
# model construction routes
# --------------------------------------------------------------------------------------
def _model_class(kind):
    from leaspy import models as M

    return {"logistic": M.LogisticModel, "linear": M.LinearModel, "shared_speed_logistic": M.SharedSpeedLogisticModel, "joint": M.JointModel,
            "mixture_logistic": M.LogisticMultivariateMixtureModel, "lme": M.LMEModel, "constant": M.ConstantModel}[kind]


def _hand_parameters(rng, kind, dim, src, noise, n_clusters):
    """Random admissible parameter values, python lists / floats as a person would type them (some extreme but finite)."""
    import numpy as np

    def vec(n, loc, scale, lo=None, hi=None):
        v = rng.normal(loc, scale, size=n)
        if rng.random() < 0.15 and n:
            v[int(rng.integers(n))] += float(rng.choice([-4.0, 4.0]))
        if lo is not None:
            v = np.clip(v, lo, hi)
        return [round(float(x), int(rng.integers(2, 9))) for x in v]

    def one(lo, hi):
        x = round(float(rng.uniform(lo, hi)), int(rng.integers(1, 8)))
        return x if rng.random() < 0.5 else [x]  # the stored files use both spellings for (1,)-shaped parameters

    p = {}
    K = n_clusters
    if kind == "mixture_logistic":
        p["tau_mean"] = [round(float(x), 3) for x in rng.uniform(55, 90, size=K)]
        p["tau_std"] = [round(float(x), 3) for x in rng.uniform(1, 12, size=K)]
        p["xi_mean"] = [round(float(x), 4) for x in rng.normal(0, 0.3, size=K)]
        p["xi_std"] = [round(float(x), 4) for x in rng.uniform(0.1, 1.2, size=K)]
        pr = rng.dirichlet(np.ones(K) * 3)
        p["probs"] = [float(x) for x in pr]
        p["sources_mean"] = [[round(float(x), 4) for x in row] for row in rng.normal(0, 1, size=(src, K))]
    else:
        p["tau_mean"] = one(50, 92)
        p["tau_std"] = one(0.5, 15)
        p["xi_std"] = one(0.05, 1.5)
    if kind in ("logistic", "joint", "mixture_logistic"):
        p["log_g_mean"] = vec(dim, 0.5, 1.0, -6, 6)
        p["log_v0_mean"] = vec(dim, -3.0, 1.0, -9, 1)
    elif kind == "linear":
        p["g_mean"] = vec(dim, 0.4, 0.4)
        p["log_v0_mean"] = vec(dim, -3.0, 1.0, -9, 1)
    elif kind == "shared_speed_logistic":
        p["log_g_mean"] = one(-2, 3)
        p["xi_mean"] = one(-4, -1)
        p["deltas_mean"] = vec(dim - 1, 0.0, 1.5)
    if kind == "joint":
        p["log_rho_mean"] = one(0.0, 1.5)
        p["n_log_nu_mean"] = one(-5.0, -3.5)
        if src:
            p["zeta_mean"] = [[round(float(rng.normal(0, 0.5)), 4)] for _ in range(src)]
    if src:
        p["betas_mean"] = [[round(float(x), int(rng.integers(2, 8))) for x in row] for row in rng.normal(0, 0.4, size=(dim - 1, src))]
    if noise == "gaussian-scalar":
        p["noise_std"] = one(0.005, 0.4)
    elif noise.startswith("gaussian-diagonal"):
        nv = [round(float(x), 5) for x in rng.uniform(0.005, 0.4, size=dim)]
        p["noise_std"] = nv if dim > 1 else (nv if rng.random() < 0.5 else nv[0])
    keys = list(p)
    rng.shuffle(keys)  # a hand-written file has no canonical key order
    return {k: p[k] for k in keys}


def _lme_hand_parameters(rng, slope):
    import numpy as np

    n = 2 if slope else 1
    a = rng.normal(size=(n, n))
    cov = a @ a.T + 0.05 * np.eye(n)
    ns = float(rng.uniform(0.02, 0.3))
    return {
        "ages_mean": round(float(rng.uniform(60, 80)), 4), "ages_std": round(float(rng.uniform(2, 9)), 4),
        "fe_params": [float(x) for x in rng.normal(0.4, 0.2, size=2)], "cov_re": cov.tolist(),
        "cov_re_unscaled_inv": np.linalg.inv(cov / ns ** 2).tolist(), "noise_std": ns,
        "bse_fe": [float(x) for x in rng.uniform(0.01, 0.1, size=2)], "bse_re": [float(x) for x in rng.uniform(0.01, 0.4, size=n * (n + 1) // 2)],
    }


def _features(rng, style, dim):
    pool = list(FEATURE_POOLS[style])
    for _ in range(50):
        names = [pool[int(j)] for j in rng.permutation(len(pool))[:dim]]
        if dim == 1 or names != sorted(names):
            return names
    return names


def _build(ctx, rng, case, tmp):
    """Returns (model, info) or None (setup skipped).  info: dict(dataframe=..., kind-specific)."""
    import numpy as np
    import torch

    from leaspy.models import BaseModel, model_factory
    from vf import gen

    kind, dim, src, noise, route, name, feats = (case[k] for k in ("kind", "dim", "src", "noise", "route", "name", "features"))
    n_clusters = case.get("n_clusters")
    cls = _model_class(kind)
    info = {}

    def cohort():
        events = kind == "joint"
        df = gen.cohort(rng, n_ind=int(rng.integers(6, 13)), n_feat=dim, missing=str(rng.choice(["mcar", "none", "feature"])) if kind not in ("lme",) else "none",
                        events=events, one_visit_ok=not (events or kind == "lme"), binary=(noise == "bernoulli"))
        df = df.rename(columns={f"Y{k}": feats[k] for k in range(dim)})
        return df, gen.to_dataset(df, events=events)

    hyper = {}
    if kind in ("logistic", "linear", "shared_speed_logistic", "joint", "mixture_logistic"):
        hyper = dict(dimension=dim, source_dimension=src)
        if kind == "mixture_logistic":
            hyper["n_clusters"] = n_clusters
        elif noise != "default":
            hyper["obs_models"] = noise
        if rng.random() < 0.5:
            hyper["features"] = list(feats)
            if rng.random() < 0.5:
                hyper.pop("dimension")
    torch.manual_seed(int(rng.integers(1 << 30)))
    np.random.seed(int(rng.integers(1 << 30)))

    if route in ("fit", "quickstart"):
        df, ds = cohort()
        if route == "quickstart":  # documented form: Model(name) and nothing else
            model = cls(name)
        elif rng.random() < 0.5:
            model = cls(name, **hyper)
        else:
            model = model_factory(kind, name, **hyper)
        n_iter = int(rng.integers(5, 31))
        case["n_iter"] = n_iter
        data = ds if rng.random() < 0.7 or kind == "joint" else df.set_index(["ID", "TIME"])
        model.fit(data, "mcmc_saem", n_iter=n_iter, seed=int(rng.integers(1 << 30)), progress_bar=False)
        ctx.count("fits")
        info["fitted"] = True
        if rng.random() < 0.3 and kind != "mixture_logistic":
            # history on the same object: trajectories are computed, then the calibration is resumed (second fit); everything the model
            # reports afterwards must follow the parameters of the LAST fit
            _warm_trajectories(model, kind)
            model.fit(data, "mcmc_saem", n_iter=int(rng.integers(3, 12)), seed=int(rng.integers(1 << 30)), progress_bar=False)
            ctx.count("refits_after_trajectory_calls")
            case["refit"] = True
    elif route == "lme-fit":
        df, ds = cohort()
        slope = noise == "slope"
        model = cls(name, with_random_slope_age=slope) if (not slope or rng.random() < 0.5) else cls(name)
        model.fit(ds, "lme_fit")
        ctx.count("fits")
        info["fitted"] = True
    elif route == "constant-personalize":
        df, ds = cohort()
        model = cls(name)
        model.personalize(ds, "constant_prediction", prediction_type=str(rng.choice(["last", "last-known", "max", "mean"])))
    elif route == "constant-ctor":
        model = cls(name, features=list(feats)) if rng.random() < 0.5 else cls(name, features=list(feats), dimension=dim)
    elif route == "hand-ctor":
        params = _lme_hand_parameters(rng, noise == "slope") if kind == "lme" else _hand_parameters(rng, kind, dim, src, noise, n_clusters)
        case["hand_parameters"] = params
        if kind == "lme":
            model = cls(name, with_random_slope_age=(noise == "slope"), features=list(feats))
        else:
            hyper.setdefault("features", list(feats))
            model = cls(name, **hyper)
        model.load_parameters(params)
        if kind not in ("lme", "constant") and rng.random() < 0.4:
            # documented "instantiate or UPDATE": a second hand-written vector is loaded into the live model after it was used
            model._is_initialized = True
            _warm_trajectories(model, kind)
            params = _hand_parameters(rng, kind, dim, src, noise, n_clusters)
            case["hand_parameters"] = params
            model.load_parameters(params)
            ctx.count("parameters_updated_on_live_model")
            case["updated_live"] = True
    elif route == "hand-file":
        if kind == "lme":
            params = _lme_hand_parameters(rng, noise == "slope")
        elif kind == "constant":
            params = {}
        else:
            params = _hand_parameters(rng, kind, dim, src, noise, n_clusters)
        case["hand_parameters"] = params
        import leaspy

        d = {"leaspy_version": leaspy.__version__, "name": kind, "features": list(feats), "dimension": dim}
        if kind not in ("lme", "constant"):
            d["source_dimension"] = src
            obs = noise.split("/")[0]
            if kind == "joint":
                d["obs_models"] = {"y": obs, "event": "weibull-right-censored-with-sources" if (src and dim > 1) else "weibull-right-censored"}
                if rng.random() < 0.5:
                    d["nb_events"] = 1
            elif kind == "mixture_logistic":
                d["obs_models"] = {"y": obs}
                d["n_clusters"] = n_clusters
            else:
                d["obs_models"] = obs if rng.random() < 0.5 else {"y": obs}
        if kind == "lme" and noise == "no-slope":
            d["with_random_slope_age"] = False  # every non-reserved top-level key of the file is a hyperparameter of the kind
        d["parameters"] = params
        if rng.random() < 0.5:
            path = os.path.join(tmp, "hand.json")
            with open(path, "w") as fp:
                json.dump(d, fp, indent=int(rng.integers(0, 5)))
            model = BaseModel.load(path)
        else:
            # documented: settings may be given as a dict. The caller's dict must survive the call (it is "the file") and stay loadable
            mine = json.loads(json.dumps(d))
            model = BaseModel.load(mine)
            ctx.count("dict_loads_with_caller_dict_compared")
            if mine != json.loads(json.dumps(d)):
                ctx.violation("load/caller-dict-modified", f"BaseModel.load(dict) modified the caller's dict (keys now {sorted(mine)})", dict(case))
            else:
                try:
                    BaseModel.load(mine)
                except Exception as e:
                    ctx.violation("load/dict-not-loadable-twice", f"the same dict could not be loaded a second time: {type(e).__name__}: {str(e)[:120]}", dict(case))
    else:
        raise AssertionError(route)
    return model, info


def _warm_trajectories(model, kind):
    """Use the model through its public API (population-level derived values read, one trajectory estimated)."""
    try:
        from leaspy.io.outputs import IndividualParameters

        k = int(getattr(model, "source_dimension", 0) or 0)
        ip = IndividualParameters()
        ip.add_individual_parameters("warm", {"xi": [0.1], "tau": [70.0], **({"sources": [0.2] * k} if k >= 1 else {})})
        model.estimate({"warm": [65.0, 75.0]}, ip)
        if k >= 1:
            model.state["mixing_matrix"]
    except Exception:
        pass


# --------------------------------------------------------------------------------------
# probe set + trajectories
# --------------------------------------------------------------------------------------
def _probe_set(rng, kind, src_dim, features, slope=True):
    import numpy as np

    from leaspy.io.outputs import IndividualParameters

    ip = IndividualParameters()
    raw, tps = {}, {}
    for j in range(3):
        sid = f"P{j}"
        tau = float(np.float32(70 + rng.normal(0, 6)))
        if kind == "lme":
            d = {"random_intercept": np.float64(rng.normal(0, 0.2))}
            if slope:
                d["random_slope_age"] = np.float64(rng.normal(0, 0.05))
        elif kind == "constant":
            d = {f: float(rng.uniform(0, 1)) for f in features}
        else:
            d = {"xi": float(np.float32(rng.normal(0, 0.5))), "tau": tau}
            if src_dim:
                d["sources"] = [float(np.float32(x)) for x in rng.normal(0, 1, size=src_dim)]
        ip.add_individual_parameters(sid, d)
        raw[sid] = d
        tps[sid] = [float(np.float32(x)) for x in (tau - 14.5, tau - 2.25, tau, tau + 3.75, tau + 19.0)][: int(rng.integers(2, 6))]
    return ip, raw, tps


def _estimate(model, tps, ip):
    import numpy as np

    est = model.estimate(tps, ip)
    return {k: np.asarray(v, dtype=np.float64) for k, v in est.items()}


def _traj_close(a, b, tol):
    import numpy as np

    if a.shape != b.shape:
        return False
    if not np.array_equal(np.isnan(a), np.isnan(b)):
        return False
    m = ~np.isnan(a)
    return bool((np.abs(a[m] - b[m]) <= tol * np.maximum(1.0, np.maximum(np.abs(a[m]), np.abs(b[m])))).all())


# --------------------------------------------------------------------------------------
# monitor (a): self-consistency of a stateful model w.r.t. a parameter dict (as written to / read from a file)
# --------------------------------------------------------------------------------------
def _saved_tensors(model, saved_params):
    """Saved parameters -> float32 tensors of the declared shape (what 'the parameters that get saved' denote)."""
    import torch

    from leaspy.variables.specs import ModelParameter

    out = {}
    for n, spec in model.dag.sorted_variables_by_type[ModelParameter].items():
        if n in saved_params:
            shape = spec.shape if isinstance(spec.shape, (tuple, list)) else (spec.shape,)  # the mixture's `probs` declares an int
            out[n] = torch.tensor(saved_params[n], dtype=torch.float32).reshape(tuple(shape))
    return out


def _self_consistency(ctx, case, model, saved_params, who, probe, viol):
    """who: 'fitted' | 'built' | 'reloaded'.  Returns False when a violation was reported."""
    import numpy as np
    import torch

    from leaspy.utils.weighted_tensor import WeightedTensor
    from leaspy.variables.specs import DataVariable, Hyperparameter, IndividualLatentVariable, LinkedVariable, ModelParameter, PopulationLatentVariable
    from vf import stateharness as sh
    from vf.refmodel import c12_ref

    ok = True
    dag, state = model.dag, model.state
    P = _saved_tensors(model, saved_params)
    hyper = {n: v.value for n, v in dag.sorted_variables_by_type[Hyperparameter].items()}
    indep = dict(hyper)
    indep.update(P)
    prefix = {"fitted": "fit", "built": "load_parameters", "reloaded": "load"}[who]
    # (a1) population latent variables at the mode of their prior
    for n, spec in dag.sorted_variables_by_type[PopulationLatentVariable].items():
        fam = getattr(spec.prior.dist_family, "__name__", str(spec.prior.dist_family))
        if "Normal" not in fam or len(spec.prior.parameters_names) != 2:
            ctx.count("prior_family_not_judged")
            continue
        loc_n, scale_n = spec.prior.parameters_names
        try:
            got = state[n]
        except Exception as e:
            viol(f"{prefix}/population-variable-unset", f"[{who}] population variable '{n}' cannot be read from model.state: {e!r}")
            return False
        if loc_n not in indep or scale_n not in indep:
            ctx.count("prior_parameter_missing_not_judged")
            continue
        mode_saved = c12_ref.normal_mode(indep[loc_n].double().numpy(), indep[scale_n].double().numpy())
        mode_live = c12_ref.normal_mode(state[loc_n].double().numpy(), state[scale_n].double().numpy())
        g = got.double().numpy()
        ctx.count("prior_mode_checks")
        for label, mode in (("live parameters", mode_live), ("saved parameters", mode_saved)):
            if g.shape != mode.shape or not np.allclose(g, mode, rtol=1e-6, atol=1e-30):
                viol(f"{prefix}/population-variable-not-at-prior-mode",
                     f"[{who}] population variable '{n}' differs from the mode of its prior Normal({loc_n}, {scale_n}) under the {label}",
                     variable=n, got=g.reshape(-1)[:6].tolist(), mode=mode.reshape(-1)[:6].tolist())
                ok = False
                break
        indep[n] = torch.tensor(mode_saved, dtype=torch.float32)
    if not ok:
        return False
    # (a2) population-level derived nodes re-evaluated from the saved parameters only
    pop_types = (Hyperparameter, ModelParameter, PopulationLatentVariable)
    pop_nodes = [n for n, v in dag.variables.items() if isinstance(v, LinkedVariable)
                 and all(isinstance(dag[a], pop_types + (LinkedVariable,)) for a in dag.sorted_ancestors[n])
                 and not any(isinstance(dag[a], (DataVariable, IndividualLatentVariable)) for a in dag.sorted_ancestors[n])]
    want = sh.scratch_eval(dag, indep, pop_nodes)
    for n in pop_nodes:
        w = want[n]
        if isinstance(w, (sh.Unset, sh.Raised)):
            ctx.count("derived_not_evaluable_not_judged")
            continue
        try:
            got = state[n]
        except Exception as e:
            viol(f"{prefix}/derived-node-unreadable", f"[{who}] derived '{n}' cannot be read from model.state: {e!r}")
            return False
        ctx.count("derived_node_checks")
        gv, wv = (x.value if isinstance(x, WeightedTensor) else x for x in (got, w))
        if tuple(gv.shape) != tuple(wv.shape) or not sh.same(gv.float(), wv.float(), rtol=1e-5, atol=1e-6):
            viol(f"{prefix}/derived-{n}-inconsistent-with-saved-parameters",
                 f"[{who}] derived '{n}' in model.state differs from its re-evaluation from the saved parameters", node=n, got=sh.brief(gv), want=sh.brief(wv))
            ok = False
    # the mixing matrix written to the file is the one of the state, hence of the saved parameters
    if "mixing_matrix" in saved_params and "mixing_matrix" in dag.variables and not isinstance(want.get("mixing_matrix"), (sh.Unset, sh.Raised, type(None))):
        mm = np.asarray(saved_params["mixing_matrix"], dtype=np.float64)
        wv = want["mixing_matrix"].double().numpy()
        ctx.count("saved_mixing_matrix_checks")
        if mm.shape != wv.shape or not np.allclose(mm, wv, rtol=1e-5, atol=1e-6):
            viol("save/mixing-matrix-inconsistent-with-saved-parameters", f"[{who}] 'mixing_matrix' written to the file differs from the one implied by the other saved parameters",
                 got=mm.reshape(-1)[:6].tolist(), want=wv.reshape(-1)[:6].tolist())
            ok = False
    if not ok:
        return False
    # (a3) trajectories
    ip, raw, tps = probe
    try:
        est = _estimate(model, tps, ip)
    except Exception as e:
        viol(f"{prefix}/estimate-raises", f"[{who}] estimate on the probe set raises {type(e).__name__}: {str(e)[:200]}")
        return False
    mixing = None if isinstance(want.get("mixing_matrix"), (sh.Unset, sh.Raised, type(None))) else want["mixing_matrix"].double().numpy()
    for sid, times in tps.items():
        ind = dict(indep)
        ind["t"] = WeightedTensor(torch.tensor([times], dtype=torch.float32))
        for k, v in raw[sid].items():
            ind[k] = torch.tensor([v], dtype=torch.float32).reshape(1, -1)
        names = ["model"]
        if case["kind"] == "joint":
            tt = torch.tensor([times], dtype=torch.float32)
            ind["event"] = WeightedTensor(tt.T, torch.zeros(tt.T.shape).bool())
            names.append("predictions_event")
        r = sh.scratch_eval(dag, ind, names)
        if any(isinstance(r[n], (sh.Unset, sh.Raised)) for n in names):
            ctx.count("trajectory_not_evaluable_not_judged")
            ctx.note("trajectory_not_evaluable", {n: getattr(r[n], "name", None) for n in names})
            continue
        ref = r["model"]
        ref = (ref.value if isinstance(ref, WeightedTensor) else ref)[0].double().numpy()
        if case["kind"] == "joint":
            pe = r["predictions_event"]
            pe = (pe.value if isinstance(pe, WeightedTensor) else pe).double().numpy().reshape(len(times), -1)
            ref = np.concatenate([ref, pe], axis=1)
        ctx.count("trajectory_scratch_checks")
        if not _traj_close(est[sid], ref, 1e-5):
            viol(f"{prefix}/trajectory-inconsistent-with-saved-parameters",
                 f"[{who}] estimate() differs from the trajectory re-evaluated from the saved parameters only", subject=sid, ips=raw[sid], times=times,
                 got=est[sid].reshape(-1)[:8].tolist(), want=ref.reshape(-1)[:8].tolist())
            return False
        if case["kind"] in ("logistic", "linear"):
            cf = c12_ref.closed_form(case["kind"], saved_params, mixing, raw[sid], times)
            ctx.count("trajectory_closed_form_checks")
            e = est[sid]
            if e.shape != cf.shape or not (np.abs(e - cf) <= 1e-5 + 2e-4 * np.maximum(np.abs(e), np.abs(cf))).all():
                viol(f"{prefix}/trajectory-differs-from-documented-closed-form",
                     f"[{who}] estimate() differs from the documented closed form evaluated (float64) on the saved parameters", subject=sid, ips=raw[sid], times=times,
                     got=e.reshape(-1)[:8].tolist(), want=cf.reshape(-1)[:8].tolist())
                return False
    return True


# --------------------------------------------------------------------------------------
# monitors (s), (b)
# --------------------------------------------------------------------------------------
def _flat(v):
    import numpy as np
    import torch

    if isinstance(v, torch.Tensor):
        return v.detach().double().reshape(-1).numpy()
    return np.asarray(v, dtype=np.float64).reshape(-1)


def _values_agree(a, b, rtol):
    import numpy as np

    a, b = _flat(a), _flat(b)
    if a.shape != b.shape:
        return False
    if not np.array_equal(np.isnan(a), np.isnan(b)):
        return False
    m = ~np.isnan(a)
    return bool((np.abs(a[m] - b[m]) <= rtol * np.maximum(np.abs(a[m]), np.abs(b[m])) + 1e-38).all())


def _attributes(model):
    """Kind-independent description of a model (what must survive the round trip)."""
    d = {
        "class": type(model).__name__,
        "name": model.name,
        "dimension": model.dimension,
        "features": list(model.features) if model.features is not None else None,
    }
    for attr in ("source_dimension", "n_clusters", "nb_events", "with_random_slope_age"):
        if hasattr(model, attr):
            d[attr] = getattr(model, attr)
    if hasattr(model, "obs_models"):
        d["obs_models"] = [(om.name, om.to_string()) for om in model.obs_models]
    return d


def _file_vs_model(ctx, model, J, viol):
    ctx.count("file_vs_model_checks")
    ok = True
    if J.get("features") != (list(model.features) if model.features is not None else None):
        viol("save/features-differ-from-model", "features written to the file differ from model.features", got=J.get("features"), want=model.features)
        ok = False
    if J.get("dimension") != model.dimension:
        viol("save/dimension-differs-from-model", "dimension written to the file differs from model.dimension", got=J.get("dimension"), want=model.dimension)
        ok = False
    for attr in ("source_dimension", "n_clusters", "nb_events"):
        if hasattr(model, attr) and J.get(attr, "<absent>") != getattr(model, attr):
            viol(f"save/{attr}-differs-from-model", f"{attr} written to the file differs from the model's", got=J.get(attr, "<absent>"), want=getattr(model, attr))
            ok = False
    if hasattr(model, "obs_models"):
        want = {om.name: om.to_string() for om in model.obs_models}
        if J.get("obs_models") != want:
            viol("save/obs-models-differ-from-model", "obs_models written to the file differ from the model's", got=J.get("obs_models"), want=want)
            ok = False
    params = model.parameters or {}
    saved = J.get("parameters", {})
    extra = set(saved) - set(params) - {"mixing_matrix"}
    missing = set(params) - set(saved)
    if extra or missing:
        viol("save/parameter-names-differ-from-model", "parameter names written to the file differ from model.parameters", extra=sorted(extra), missing=sorted(missing))
        ok = False
    for k, v in params.items():
        if k in saved and not _values_agree(saved[k], v, 1.2e-7):
            viol("save/parameter-values-differ-from-model", f"parameter '{k}' written to the file differs from model.parameters beyond single precision",
                 parameter=k, got=_flat(saved[k])[:6].tolist(), want=_flat(v)[:6].tolist())
            ok = False
    for k, v in (model.hyperparameters or {}).items():
        if k not in J.get("hyperparameters", {}) or not _values_agree(J["hyperparameters"][k], v, 1.2e-7):
            viol("save/hyperparameter-values-differ-from-model", f"hyperparameter '{k}' written to the file differs from model.hyperparameters", parameter=k)
            ok = False
    return ok


def _roundtrip_compare(ctx, case, m, m2, probe, viol, name_expected):
    """Monitor (b).  name_expected: the instance name the reloaded model must carry (None = not judged here)."""
    import numpy as np

    A, B = _attributes(m), _attributes(m2)
    ok = True
    for k in A:
        if k == "name":
            continue
        if A[k] != B.get(k, "<absent>"):
            if k == "with_random_slope_age":
                key = "lme/with_random_slope_age-not-saved"
            elif k == "class":
                key = "save/instance-name-used-as-kind" if case["name"] != case["kind"] else "load/kind-differs"
            else:
                key = f"load/{k}-differs"
            viol(key, f"load(save(m)).{k} = {B.get(k, '<absent>')!r} but m.{k} = {A[k]!r}", attribute=k, got=B.get(k, "<absent>"), want=A[k])
            ok = False
    if name_expected is not None and B["name"] != name_expected:
        key = "save/instance-name-used-as-kind" if case["name"] != case["kind"] else "load/name-differs"
        viol(key, f"load(save(m)).name = {B['name']!r} but m.name = {name_expected!r}", got=B["name"], want=name_expected)
        ok = False
    if not ok:
        return False
    for what, pa, pb in (("parameters", m.parameters or {}, m2.parameters or {}), ("hyperparameters", m.hyperparameters or {}, m2.hyperparameters or {})):
        if set(pa) != set(pb):
            viol(f"load/{what}-names-differ", f"load(save(m)).{what} has other names than m.{what}", only_before=sorted(set(pa) - set(pb)), only_after=sorted(set(pb) - set(pa)))
            ok = False
            continue
        for k in pa:
            ctx.count("roundtrip_value_checks")
            if not _values_agree(pa[k], pb[k], 1e-6):
                viol(f"load/{what}-values-differ", f"{what[:-1]} '{k}' of load(save(m)) differs from m's beyond 1e-6 relative (values compared after reshape(-1))",
                     parameter=k, got=_flat(pb[k])[:6].tolist(), want=_flat(pa[k])[:6].tolist())
                ok = False
    if not ok:
        return False
    ip, raw, tps = probe
    try:
        e1 = _estimate(m, tps, ip)
    except Exception as e:
        viol("model/estimate-raises", f"estimate on the probe set raises on the original model: {type(e).__name__}: {str(e)[:200]}")
        return False
    try:
        e2 = _estimate(m2, tps, ip)
    except Exception as e:
        viol("load/estimate-raises", f"estimate on the probe set raises on load(save(m)): {type(e).__name__}: {str(e)[:200]}")
        return False
    ctx.count("roundtrip_trajectory_checks")
    for sid in tps:
        if not _traj_close(e1[sid], e2[sid], 1e-5):
            viol("load/trajectories-differ", "estimate() of load(save(m)) differs from estimate() of m beyond 1e-5", subject=sid, ips=raw[sid], times=tps[sid],
                 got=e2[sid].reshape(-1)[:8].tolist(), want=e1[sid].reshape(-1)[:8].tolist())
            return False
    return True


# --------------------------------------------------------------------------------------
def _classify_load_failure(case, J, e, stage):
    msg = str(e)
    kind_named = str(J.get("name", "")).lower() == case["kind"]
    if not kind_named:
        # the file's "name" holds the instance name; anything that goes wrong while it is interpreted as the kind is this mechanism
        return "save/instance-name-used-as-kind"
    if "Unknown model variables" in msg and J.get("dimension") == 1 and (J.get("source_dimension") or 0) >= 1:
        return "univariate/auto-source-dimension-1"
    if "pathlib" in msg or "PosixPath" in msg:
        return "load/pathlib-path-rejected"
    return f"{stage}/raises-{type(e).__name__}"


def _one_case(ctx, spec, i, cfg, tmp):
    import numpy as np

    from leaspy.models import BaseModel
    from vf.refmodel import c12_ref

    rng = ctx.rng("case", i)
    kind, dim, src, noise = cfg
    case = {"index": i, "kind": kind, "dim": dim, "src": src, "noise": noise}
    if kind == "mixture_logistic":
        case["n_clusters"] = int(noise.split("/")[1])
    # route
    u = rng.random()
    if kind == "lme":
        route = "lme-fit" if u < 0.6 else ("hand-file" if u < 0.8 else "hand-ctor")
    elif kind == "constant":
        route = "constant-personalize" if u < 0.5 else ("constant-ctor" if u < 0.75 else "hand-file")
    else:
        route = "fit" if u < 0.45 else ("hand-file" if u < 0.75 else "hand-ctor")
        if route == "fit" and noise == "gaussian-scalar" and kind != "mixture_logistic" and rng.random() < (0.8 if dim == 1 else 0.25):
            route = "quickstart"  # Model(name): scalar noise, sources chosen by the library
        if i == 0:
            route = "quickstart"
    if i == 0 and kind == "lme":
        route = "lme-fit"
    case["route"] = route
    style = str(rng.choice(list(FEATURE_POOLS)))
    case["feature_style"] = style
    case["features"] = _features(rng, style, dim)
    if route == "hand-file" or rng.random() < 0.45:
        name = kind
    else:
        others = OTHER_NAMES + [k for k in KINDS if k != kind]
        name = str(others[int(rng.integers(len(others)))])
    case["name"] = name
    name_class = "kind" if name == kind else ("other-kind" if name in KINDS else "free")
    case["with_mixing_matrix"] = bool(rng.random() < 0.8)
    case["path_style"] = "pathlib" if rng.random() < 0.08 else "str"

    def viol(key, what, **obs):
        ctx.violation(key, what, dict(case), **obs)

    # ---- build -----------------------------------------------------------------------
    try:
        built = _build(ctx, rng, case, tmp)
    except Exception as e:
        if case["route"] in ("hand-file",):
            # a hand-written file in the stored-file layout must load: this is load(), judged
            viol(_classify_load_failure(case, {"name": kind, "dimension": dim, "source_dimension": src}, e, "load-hand-written"),
                 f"loading a hand-written {kind} file raises {type(e).__name__}: {str(e)[:300]}")
            ctx.evaluated()
            return
        ctx.count("setup_skipped")
        ctx.count(f"setup_skipped_{case['route']}")
        ctx.note(f"setup_skipped_{kind}_{type(e).__name__}", {"msg": str(e)[:200], "shard": spec["name"], "index": i, "route": case["route"], "cfg": list(cfg)})
        return
    m, info = built
    who = "fitted" if info.get("fitted") else "built"
    stateful = kind not in ("lme", "constant")
    if name != kind:
        ctx.count("names_differing_from_kind")
    if route == "quickstart" and dim == 1:
        ctx.count("quickstart_univariate")
    ctx.count(f"route_{route}")
    ctx.count(f"kind_{kind}")
    src_now = getattr(m, "source_dimension", 0) or 0
    slope = getattr(m, "with_random_slope_age", True)
    probe = _probe_set(rng, kind, src_now if stateful else 0, list(m.features or case["features"]), slope=slope)

    # ---- save ------------------------------------------------------------------------
    f1 = os.path.join(tmp, "m1.json")
    save_kw = {}
    if stateful and not case["with_mixing_matrix"]:
        save_kw["with_mixing_matrix"] = False
    # documented: further keywords are writing options (handed to json.dump): the layout of the file, never its content
    dump_kw = [{}, {}, {"indent": None}, {"sort_keys": True}, {"indent": 4, "sort_keys": True}, {"separators": (",", ":")}][int(rng.integers(6))]
    if dump_kw:
        save_kw.update(dump_kw)
        case["json_dump_options"] = {k: (list(v) if isinstance(v, tuple) else v) for k, v in dump_kw.items()}
        ctx.count("saves_with_json_dump_options")
    try:
        if case["path_style"] == "pathlib":
            from pathlib import Path

            m.save(Path(f1), **save_kw)
        else:
            m.save(f1, **save_kw)
        with open(f1) as fp:
            J = json.load(fp)
    except Exception as e:
        viol(f"save/raises-{type(e).__name__}", f"save() raises {type(e).__name__}: {str(e)[:300]}")
        ctx.evaluated()
        return
    ctx.evaluated()
    ctx.distinct(kind, dim, src, noise, style, name_class, route)
    if i < 2:
        ctx.sample({k: v for k, v in case.items() if k != "hand_parameters"}, limit=2)

    # ---- (s) + (a) on the model that was saved -----------------------------------------
    _file_vs_model(ctx, m, J, viol)
    if stateful:
        _self_consistency(ctx, case, m, J["parameters"], who, probe, viol)

    # ---- load ------------------------------------------------------------------------
    name_expected = m.name
    m2 = None
    if case["path_style"] == "pathlib":
        from pathlib import Path

        try:
            m2 = BaseModel.load(Path(f1))
        except Exception as e:
            if "PosixPath" in str(e) or "pathlib" in str(e):
                viol("load/pathlib-path-rejected", f"load(Path) raises {type(e).__name__}: {str(e)[:200]} (the signature documents `str or Path`; save(Path) works)")
    if m2 is None:
        try:
            m2 = BaseModel.load(f1)
        except Exception as e:
            key = _classify_load_failure(case, J, e, "load")
            viol(key, f"load(save(m)) raises {type(e).__name__}: {str(e)[:300]}", file_name=J.get("name"), file_dimension=J.get("dimension"),
                 file_source_dimension=J.get("source_dimension"))
            if key == "save/instance-name-used-as-kind":
                # keep the other monitors deciding: retry with the kind written where load expects it
                J = dict(J, name=kind)
                with open(f1, "w") as fp:
                    json.dump(J, fp, indent=2)
                name_expected = None
                ctx.count("continued_with_kind_as_name")
                try:
                    m2 = BaseModel.load(f1)
                except Exception as e2:
                    viol(_classify_load_failure(case, J, e2, "load"), f"load(save(m)) raises {type(e2).__name__}: {str(e2)[:300]} (after writing the kind under 'name')",
                         file_dimension=J.get("dimension"), file_source_dimension=J.get("source_dimension"))
                    return
            else:
                return
    if type(m2) is not type(m) and name != kind:
        # e.g. LinearModel("constant"): the file is silently read as another kind -- same mechanism, report once and go on
        viol("save/instance-name-used-as-kind", f"load(save(m)) is a {type(m2).__name__} but m is a {type(m).__name__} (instance name {name!r} read as the kind)",
             file_name=J.get("name"))
        J = dict(J, name=kind)
        with open(f1, "w") as fp:
            json.dump(J, fp, indent=2)
        name_expected = None
        ctx.count("continued_with_kind_as_name")
        try:
            m2 = BaseModel.load(f1)
        except Exception as e2:
            viol(_classify_load_failure(case, J, e2, "load"), f"load(save(m)) raises {type(e2).__name__}: {str(e2)[:300]} (after writing the kind under 'name')",
                 file_dimension=J.get("dimension"), file_source_dimension=J.get("source_dimension"))
            return
    ctx.count("load_roundtrips")

    # ---- a file whose informative `mixing_matrix` entry is stale (documented: "not a real parameter, its value will be overwritten at
    # model loading"): it loads, and into the same model as the file without the stale entry --------------------------------------------
    if stateful and isinstance(J.get("parameters"), dict) and "mixing_matrix" in J["parameters"] and (case["index"] % 3 == 0):
        try:
            import copy as _copy

            import numpy as np
            import torch

            def _same_bits(a, b):  # a degenerate short fit may hold NaN parameters: NaN == NaN here (both loads read the same file entry)
                return a.shape == b.shape and a.dtype == b.dtype and bool(((a == b) | (torch.isnan(a.double()) & torch.isnan(b.double()))).all())

            Js = _copy.deepcopy(J)
            mm = np.asarray(Js["parameters"]["mixing_matrix"], dtype=float)
            Js["parameters"]["mixing_matrix"] = (np.round(mm, 1) + 0.37).tolist()
            fs = os.path.join(tmp, "m1-stale-mixing-matrix.json")
            with open(fs, "w") as fp:
                json.dump(Js, fp, indent=2)
            ctx.count("loads_of_files_with_a_stale_mixing_matrix")
            try:
                ms = BaseModel.load(fs)
            except Exception as e:
                viol("load/stale-mixing-matrix-entry-refused", f"a file whose informative mixing_matrix entry does not match its parameters is refused "
                     f"({type(e).__name__}: {str(e)[:160]}); documented: that entry is overwritten at loading")
                ms = None
            if ms is not None:
                for pn_, v_ in m2.parameters.items():
                    if pn_ in ms.parameters and not _same_bits(torch.as_tensor(ms.parameters[pn_]), torch.as_tensor(v_)):
                        viol("load/stale-mixing-matrix-entry-changes-the-model", f"parameter '{pn_}' differs between the loads of the file with and without a stale mixing_matrix entry "
                             f"(with: {torch.as_tensor(ms.parameters[pn_]).flatten()[:6].tolist()}, without: {torch.as_tensor(v_).flatten()[:6].tolist()})")
                        break
                else:
                    a_, b_ = ms.state["mixing_matrix"], m2.state["mixing_matrix"]
                    if not torch.allclose(a_.double(), b_.double(), rtol=1e-6, atol=1e-7, equal_nan=True):
                        viol("load/stale-mixing-matrix-entry-changes-the-model", "the mixing matrix of the loaded model follows the stale file entry, not the parameters")
        except Exception as e:
            ctx.note(f"stale_mixing_matrix_block_skipped_{type(e).__name__}", str(e)[:160])

    # ---- (b) -------------------------------------------------------------------------
    same = _roundtrip_compare(ctx, case, m, m2, probe, viol, name_expected)
    if stateful and same:
        _self_consistency(ctx, case, m2, J["parameters"], "reloaded", probe, viol)

    # ---- (c) -------------------------------------------------------------------------
    f2, f3 = os.path.join(tmp, "m2.json"), os.path.join(tmp, "m3.json")
    try:
        m2.save(f2, **save_kw)
        with open(f2) as fp:
            J2 = json.load(fp)
    except Exception as e:
        viol(f"resave/raises-{type(e).__name__}", f"save(load(f)) raises {type(e).__name__}: {str(e)[:300]}")
        return
    ctx.count("resave_compares")
    seen = set()
    for path, dkind, a, b in c12_ref.json_diff(J, J2):
        top = path[0] if path else "<root>"
        if top == "name":
            key = "save/instance-name-used-as-kind" if case["name"] != kind else "resave/name/value"
        elif top == "parameters" and len(path) >= 2 and path[1] == "noise_std" and dkind == "structure" and {a, b} == {"float", "list[1]"}:
            key = "scalar-noise/0-d-vs-(1,)"
        elif top == "parameters" and len(path) >= 2:
            key = f"resave/parameters/{path[1]}/{dkind}"
        else:
            key = f"resave/{top}/{dkind}"
        if key in seen:
            continue
        seen.add(key)
        viol(key, f"save(load(f)) differs from f at {'/'.join(map(str, path)) or '<root>'} ({dkind}): f has {a!r}, save(load(f)) has {b!r}",
             path=list(path), in_f=a, in_resaved=b)
    try:
        m3 = BaseModel.load(f2)
        m3.save(f3, **save_kw)
    except Exception as e:
        viol(f"reload/raises-{type(e).__name__}", f"load(save(load(f))) / its save raises {type(e).__name__}: {str(e)[:300]}")
        return
    ctx.count("idempotence_checks")
    with open(f2, "rb") as fa, open(f3, "rb") as fb:
        b2, b3 = fa.read(), fb.read()
    if b2 != b3:
        diffs = [(p, k) for p, k, _, _ in c12_ref.json_diff(json.loads(b2), json.loads(b3))][:4]
        viol("resave/not-idempotent", "save(load(.)) is not byte-idempotent from the second round", first_differences=[["/".join(map(str, p)), k] for p, k in diffs])
    # ---- a refused update leaves the live model as it was (still self-consistent: it saves the same file) ----------------------------
    if stateful and kind not in ("lme", "constant") and b2 == b3:
        from leaspy.exceptions import LeaspyModelInputError

        try:
            bad = dict(_hand_parameters(rng, kind, dim, src_now if src_now is not None else src, noise, case.get("n_clusters")))
        except Exception as e:
            bad = None
            ctx.note("refused_update_setup_error", repr(e)[:200])
        if bad:
            bad["xi_sdt" if "xi_sdt" not in bad else "xi_sdt2"] = 0.3  # a name the model does not know (typo): documented as refused
            refused = False
            try:
                m3.load_parameters(bad)
            except LeaspyModelInputError:
                refused = True
            except Exception:
                refused = None
            if refused:
                ctx.count("refused_updates_checked")
                f4 = os.path.join(tmp, "m4.json")
                try:
                    m3.save(f4, **save_kw)
                    with open(f4, "rb") as fc:
                        b4 = fc.read()
                    if b4 != b3:
                        diffs = [(p_, k_) for p_, k_, _, _ in c12_ref.json_diff(json.loads(b3), json.loads(b4))][:4]
                        viol("load_parameters/refused-update-left-a-trace", "an update refused for an unknown variable name changed what the model saves (a refused "
                             "call must leave the model as it was)", first_differences=[["/".join(map(str, p_)), k_] for p_, k_ in diffs])
                    else:
                        with open(f4) as fc:
                            _self_consistency(ctx, case, m3, json.load(fc)["parameters"], "reloaded", probe, viol)
                except Exception as e:
                    viol(f"load_parameters/refused-update-breaks-save-{type(e).__name__}", f"after a refused update save raises {type(e).__name__}: {str(e)[:200]}")
