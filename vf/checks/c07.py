"""C07 — individuals are conditionally independent and order-equivariant.  DESIGN §2/C07.

Oracle: metamorphic executions of the real code on related cohorts + recorded sampler decisions:
  A  the cohort;  B  A with the observed values of every OTHER individual changed (ages, counts, positions fixed);
  C  the target individual alone;  D  A with individuals permuted;  E  A personalised with 1 vs 2 parallel workers.
B vs A: the target's attachment / regularity terms, its sampler decision + new value, and its personalised parameters
(scipy_minimize, mean and mode posterior, fixed seed) are BIT-identical.  C vs A: terms within float rounding; personalised
parameters identical when the target sits at position 0 (same position-indexed start draw).  Totals = sums of per-individual
terms.  D: per-individual terms permuted exactly, totals within summation-order rounding.  E: identical outputs.
"""
from __future__ import annotations

RULE = (
    "a case = (generated cohort of 3-12 individuals, model kind, target individual); relations B, C, D evaluated on state terms "
    "(nll_attach_ind, nll_regul_*_ind, totals), on one real IndividualGibbsSampler step per latent variable from the same RNG state (B), and "
    "on personalize outputs for three algorithm families (B; C at position 0); E on a subset of cases. evaluations = relation comparisons; "
    "distinct_nontrivial = distinct (model cell, relation, quantity family) tuples where the perturbation really changed another "
    "individual's own terms (B) / the permutation was not the identity (D)"
)
REQUIRED = {"competing_event_cohorts": 2, "rel_B_terms": 60, "rel_B_sampler": 60, "rel_B_personalize": 40, "rel_C_terms": 40, "rel_D_terms": 40, "totals": 40, "rel_E": 3,
            "others_terms_really_changed": 30, "cohorts_with_unsorted_ids": 8, "other_individual_with_absurd_value": 5, "rel_B_reused_algorithm_object": 5}
ASSUMPTIONS = [
    "B relations: bit-identity (two executions of the same code on the same shapes); C/D: 1e-6 relative + 1e-6 x largest per-individual term "
    "absolute (float32 accumulation order may differ with layout; a term near 0 is a cancelling sum of O(10) summands)",
    "personalisation outputs under permutation / alone are not judged except alone at position 0: start points and MCMC draws are "
    "position-indexed (the statement's own caveat)",
    "PYTHONHASHSEED pinned in parent and workers (its influence is C11's subject)",
]
GRID = [("logistic", 2, 0, "gaussian-diagonal"), ("logistic", 3, 1, "gaussian-scalar"), ("logistic", 3, 2, "gaussian-diagonal"), ("linear", 2, 1, "gaussian-diagonal"),
        ("shared_speed_logistic", 3, 1, None), ("joint", 3, 1, None), ("logistic", 2, 1, "bernoulli"), ("mixture_logistic", 3, 2, None), ("joint", 1, 0, None),
        ("logistic", 1, 0, "gaussian-scalar"), ("joint", 2, 1, "events2")]


def shards(tier, seed):
    q = tier == "quick"
    return [{"name": f"indep-{k}", "k": k, "n": 3 if q else 40, "budget_s": 170 if q else 1500, "do_E": k < (6 if q else 12)} for k in range(16)]


def run_shard(spec, ctx):
    import contextlib
    import io

    import numpy as np
    import pandas as pd
    import torch

    from leaspy.utils.weighted_tensor import WeightedTensor
    from vf import gen
    from vf import stateharness as sh
    from vf.checks.c02 import make_algo
    from vf.checks.c15 import install_contract
    from vf.probes.samplers import SamplerProbe

    install_contract()

    def tv(v):
        return v.weighted_value if isinstance(v, WeightedTensor) else v

    for i in ctx.cases(spec["n"]):
        rng = ctx.rng("indep", spec["k"], i)
        g = GRID[(spec["k"] * 3 + i) % len(GRID)]
        kind, dim, src, noise = g
        events = kind == "joint"
        binary = noise == "bernoulli"
        nb_ev = 1
        if noise == "events2":  # two competing events
            nb_ev, noise = 2, None
        try:
            df = gen.cohort(rng, n_ind=int(rng.integers(3, 12)) if nb_ev == 1 else int(rng.integers(6, 14)), n_feat=dim, missing="mcar", events=events,
                            one_visit_ok=not events, binary=binary, id_style="str" if (events or i % 2) else "shuffled", **({} if nb_ev == 1 else {"nb_events": nb_ev}))
            if not events and i % 2 == 0:
                ctx.count("cohorts_with_unsorted_ids")
            ds = gen.to_dataset(df, events=events, nb_events=nb_ev)
            kw = {"n_clusters": 2} if kind == "mixture_logistic" else ({"nb_events": nb_ev} if nb_ev != 1 else {})
            model = gen.make_model(kind, dim, src, noise, **kw) if noise else gen.make_model(kind, dim, src, **kw)
            model.initialize(ds)
        except Exception:
            ctx.count("setup_skipped")
            continue
        ids = list(ds.indices)
        n = len(ids)
        tpos = 0 if (i % 2 == 0) else int(rng.integers(n))
        target = ids[tpos]
        feats = [c for c in df.columns if c.startswith("Y")]
        # B: change every other individual's observed values (same missingness, ages, events)
        dfB = df.copy()
        other = dfB["ID"] != target
        vals = dfB.loc[other, feats].to_numpy(copy=True)
        if binary:
            vals = np.where(np.isnan(vals), np.nan, 1.0 - vals)
        else:
            vals = np.where(np.isnan(vals), np.nan, np.clip(vals + rng.normal(0, 0.15, size=vals.shape), 0.01, 0.99))
        absurd = (not binary) and (i % 3 == 2)
        if absurd:
            # hostile modification: one OTHER individual gets an absurd but finite value (its squared residual overflows float32, so its own
            # loss is non-finite) - the target must not notice
            rows_o, cols_o = np.nonzero(~np.isnan(vals))
            j = int(rng.integers(len(rows_o)))
            vals[rows_o[j], cols_o[j]] = 1e20
            ctx.count("other_individual_with_absurd_value")
        dfB.loc[other, feats] = vals
        censor_others = events and nb_ev == 1
        b2_tables = []
        if events and nb_ev != 1:
            # competing events: the others keep their events in cohort B (every kind of event stays present).  Separately (relation B2 below): the
            # cohorts in which the others are censored, so that a kind of event goes absent
            ctx.count("competing_event_cohorts")
            ev_of = df.groupby("ID", sort=False)["EVENT_BOOL"].first()
            cands = [target] + [x for x in ids if x != target and int(ev_of[x]) == 1][:3]  # an individual with the first kind of event: the last kind goes absent
            for tg in cands:
                dfB2 = dfB.copy()
                dfB2.loc[dfB2["ID"] != tg, "EVENT_BOOL"] = 0
                b2_tables.append((tg, dfB2))
        if censor_others:
            # the other individuals' events become censored (the target's own event data are untouched): possibly nobody is left with an observed event
            dfB.loc[other, "EVENT_BOOL"] = False
            ctx.count("joint_cohorts_B_with_the_others_censored")
        # C: the target alone;  D: permuted individuals
        dfC = df[df["ID"] == target].copy()
        perm = list(rng.permutation(n))
        if perm == list(range(n)):
            perm = perm[::-1]
        dfD = pd.concat([df[df["ID"] == ids[p]] for p in perm], ignore_index=True)
        try:
            dsD = gen.to_dataset(dfD, events=events, nb_events=nb_ev)
            if censor_others:
                from leaspy.io.data import Data as _Data, Dataset as _Dataset

                dsB = _Dataset(_Data.from_dataframe(dfB, data_type="joint", factory_kws={"nb_events": 1}))
            else:
                dsB = gen.to_dataset(dfB, events=events, nb_events=nb_ev)
            dsC = None if events else gen.to_dataset(dfC)  # a single-event cohort is refused by the joint reader
        except Exception as e:
            ctx.count("setup_skipped")
            continue
        assert list(dsB.indices) == ids and [dsD.indices[k] for k in range(n)] == [ids[p] for p in perm]
        # shared latent values (row r belongs to ids[r])
        base = model.state.clone()
        with base.auto_fork(None):
            model.put_data_variables(base, ds)
        torch.manual_seed(int(rng.integers(1 << 30)))
        model.put_individual_parameters(base, ds)
        lat = {v: base[v] for v in model.individual_variables_names}

        def state_for(dataset, rows):
            st = model.state.clone()
            with st.auto_fork(None):
                model.put_data_variables(st, dataset)
                for v, val in lat.items():
                    st[v] = val[rows]
            return st

        sA, sB, sD = state_for(ds, list(range(n))), state_for(dsB, list(range(n))), state_for(dsD, perm)
        sC = state_for(dsC, [tpos]) if dsC is not None else None
        names = set(sA.dag.sorted_variables_names)
        ind_terms = [t for t in ["nll_attach_ind", "nll_attach_y_ind", "nll_attach_event_ind", "nll_regul_ind_sum_ind"] +
                     [f"nll_regul_{v}_ind" for v in model.individual_variables_names] if t in names]
        case = {"index": i, "model": list(map(str, g)), "n": n, "target_position": tpos}

        def viol(key, what, **obs):
            ctx.violation(key, what, case, **obs)

        # ---- B: others changed ---------------------------------------------------------------------------
        changed_others = False
        for t in ind_terms:
            a, b = tv(sA[t]), tv(sB[t])
            ctx.count("rel_B_terms")
            ctx.evaluated()
            if not sh.bit_same(a[tpos], b[tpos]):
                viol("indep/term-depends-on-other-individuals", f"'{t}' of the target changed when only other individuals' observations changed",
                     A=a[tpos].flatten()[:4].tolist(), B=b[tpos].flatten()[:4].tolist())
            if t.startswith("nll_attach") and n > 1:
                rest = [r for r in range(n) if r != tpos]
                changed_others |= not sh.bit_same(a[rest], b[rest])
        if changed_others:
            ctx.count("others_terms_really_changed")
            ctx.distinct(case["model"], "B", "terms")
        # ---- B2 (competing events): the others' events censored, the table read with the number of events announced, and without (the reader then
        # sizes the event columns from the kinds of events present in the cohort).  Either the reader or the model refuses the cohort, or the terms
        # of the individual whose data did not change are what they are in cohort A
        for tg, dfB2 in b2_tables:
            from leaspy.io.data import Data as _Data3, Dataset as _Dataset3

            for reading, fkw in (("announced", {"factory_kws": {"nb_events": nb_ev}}), ("not-announced", {})):
                ctx.count(f"competing_event_cohorts_with_the_others_censored/{reading}")
                try:
                    with contextlib.redirect_stdout(io.StringIO()):
                        dsU = _Dataset3(_Data3.from_dataframe(dfB2, data_type="joint", **fkw))
                    sU = state_for(dsU, list(range(n)))
                    rU, rA = list(dsU.indices).index(tg), ids.index(tg)
                    got = {t: tv(sU[t])[rU] for t in ind_terms}
                except Exception as e:
                    ctx.count(f"competing_event_cohorts_with_the_others_censored/{reading}/refused")
                    ctx.note(f"competing_event_cohort_refusal/{reading}/" + type(e).__name__, str(e)[:120])
                    continue
                ctx.count(f"competing_event_cohorts_with_the_others_censored/{reading}/evaluated")
                for t in ind_terms:
                    if not sh.bit_same(tv(sA[t])[rA], got[t]):
                        viol("indep/term-depends-on-the-kinds-of-events-of-the-others", f"'{t}' of individual {tg} changed when only the other individuals' events were censored "
                             f"(number of events {reading}; event data of the cohort: {tuple(ds.event_bool.shape)} -> {tuple(dsU.event_bool.shape)}, model with {nb_ev} events)",
                             A=tv(sA[t])[rA].flatten()[:4].tolist(), B=got[t].flatten()[:4].tolist())
                        break
        # ---- totals --------------------------------------------------------------------------------------
        for tot, per in (("nll_attach", "nll_attach_ind"), ("nll_regul_ind_sum", "nll_regul_ind_sum_ind")):
            if tot in names and per in names:
                T, P = tv(sA[tot]).double(), tv(sA[per]).double()
                ctx.count("totals")
                ctx.evaluated()
                if P.ndim > 1:  # mixture: per-cluster columns
                    P = P.sum(dim=0) if T.ndim else P.sum()
                else:
                    P = P.sum()
                if not sh.same(T.reshape(-1), P.reshape(-1), rtol=1e-6, atol=1e-6):
                    viol("indep/total-not-sum-of-individual-terms", f"'{tot}' != sum over individuals of '{per}'", total=T.flatten()[:3].tolist(), summed=P.flatten()[:3].tolist())
        # ---- C: alone ------------------------------------------------------------------------------------
        if sC is not None:
            for t in ind_terms:
                a, c = tv(sA[t]), tv(sC[t])
                ctx.count("rel_C_terms")
                ctx.evaluated()
                if not sh.same(a[tpos], c[0], rtol=1e-6, atol=1e-6 * max(1.0, float(torch.nan_to_num(a.double().abs(), posinf=0.0).max()))):
                    viol("indep/alone-differs-from-batch", f"'{t}' of the target evaluated alone differs from its value in the batch beyond rounding",
                         batch=a[tpos].flatten()[:4].tolist(), alone=c[0].flatten()[:4].tolist())
            ctx.distinct(case["model"], "C", "terms")
        # ---- D: permutation ------------------------------------------------------------------------------
        for t in ind_terms:
            a, d = tv(sA[t]), tv(sD[t])
            ctx.count("rel_D_terms")
            ctx.evaluated()
            if not sh.same(a[perm], d, rtol=1e-6, atol=1e-6 * max(1.0, float(torch.nan_to_num(a.double().abs(), posinf=0.0).max()))):
                viol("indep/permutation-not-equivariant", f"'{t}' is not permuted with the individuals (max abs diff {float((a[perm].double() - d.double()).abs().max()):.3g})", A_perm=a[perm].flatten()[:4].tolist(), D=d.flatten()[:4].tolist())
        for tot in ("nll_attach", "nll_regul_ind_sum"):
            if tot in names:
                if not sh.same(tv(sA[tot]).double().reshape(-1), tv(sD[tot]).double().reshape(-1), rtol=1e-6, atol=1e-6):
                    viol("indep/total-changes-under-permutation", f"'{tot}' changed under a permutation of individuals beyond summation rounding")
        ctx.distinct(case["model"], "D", "terms")
        # ---- B on the real individual sampler: same RNG state, same latent values ------------------------
        try:
            outs = []
            for dataset in (ds, dsB):
                m2 = gen.make_model(kind, dim, src, noise, **kw) if noise else gen.make_model(kind, dim, src, **kw)
                m2.initialize(ds)  # same population values for both (initialised on A)
                algo, st = make_algo(m2, dataset, ctx.rng("algo", spec["k"], i), n_iter=10)
                with st.auto_fork(None):
                    for v, val in lat.items():
                        st[v] = val
                rec = {}
                for v in sorted(m2.individual_variables_names):
                    pr = SamplerProbe(algo.samplers[v])
                    torch.manual_seed(1234 + spec["k"])
                    ev = pr.sample(st, 1.0)
                    dec = [e for e in ev if e[0] == "decision"][0]
                    rec[v] = (dec[1].clone(), dec[2].clone(), st[v].clone())
                outs.append(rec)
            for v in outs[0]:
                (al_a, ac_a, nv_a), (al_b, ac_b, nv_b) = outs[0][v], outs[1][v]
                ctx.count("rel_B_sampler")
                ctx.evaluated()
                if not (sh.bit_same(al_a[tpos], al_b[tpos]) and bool(ac_a[tpos] == ac_b[tpos]) and sh.bit_same(nv_a[tpos], nv_b[tpos])):
                    viol("indep/sampler-decision-depends-on-other-individuals",
                         f"the target's acceptance ratio / decision / new value of '{v}' changed when only other individuals' observations changed",
                         alpha_A=float(al_a[tpos]), alpha_B=float(al_b[tpos]))
            ctx.distinct(case["model"], "B", "sampler")
        except Exception as e:
            ctx.count("sampler_relation_skipped")
            ctx.note(f"sampler_relation_skipped_{type(e).__name__}", str(e)[:160])
        # ---- personalisation: B (all families), C at position 0, E -----------------------------------------
        seed_p = int(rng.integers(1 << 30))
        algos = ["scipy_minimize", "mean_posterior", "mode_posterior"]
        if kind == "mixture_logistic":
            algos = algos[1:]
        if ctx.tier == "quick":
            algos = [algos[(spec["k"] + i) % len(algos)], algos[(spec["k"] + i + 1) % len(algos)]]
        if censor_others and "scipy_minimize" not in algos:
            algos = ["scipy_minimize"] + algos[:1]

        if spec.get("do_E") and i == 0 and "scipy_minimize" not in algos and kind not in ("joint", "mixture_logistic"):
            algos = ["scipy_minimize"] + algos

        long_adaptive = bool((spec["k"] + i) % 2)

        def perso(dataset, name, **extra):
            kws = dict(seed=seed_p, progress_bar=False)
            kws.update(dict(use_jacobian=False) if name == "scipy_minimize" else dict(n_iter=15, n_burn_in_iter=5))
            if name != "scipy_minimize" and long_adaptive:
                # chains long enough for the per-individual proposal scales to adapt several times (window 5 instead of 25)
                kws.update(n_iter=70, n_burn_in_iter=20, sampler_ind_params={
                    "acceptation_history_length": 5, "mean_acceptation_rate_target_bounds": [0.2, 0.4], "adaptive_std_factor": 0.3})
            kws.update(extra)
            with contextlib.redirect_stdout(io.StringIO()):
                idx, d = model.personalize(dataset, name, **kws).to_pytorch()
            return idx, d

        for name in algos:
            try:
                idxA, pA = perso(ds, name)
            except Exception as e:
                ctx.count("personalize_skipped")
                ctx.note(f"personalize_skipped_{name}_{type(e).__name__}", str(e)[:160])
                continue
            try:
                idxB, pB = perso(dsB, name)
            except Exception as e:
                if absurd:
                    ctx.count("personalize_skipped")  # an absurd value may legitimately make the whole call fail: not judged
                    continue
                viol(f"indep/personalize-depends-on-other-individuals/{name}",
                     f"{name}: the call succeeds on the cohort and raises {type(e).__name__} ({str(e)[:120]}) once only OTHER individuals' observations"
                     f"{' / events' if censor_others else ''} are changed")
                continue
            ra, rb = idxA.index(str(target)), idxB.index(str(target))
            for pn in pA:
                ctx.count("rel_B_personalize")
                ctx.evaluated()
                if not sh.bit_same(pA[pn][ra], pB[pn][rb]):
                    viol(f"indep/personalize-depends-on-other-individuals/{name}",
                         f"{name}: the target's '{pn}' changed when only other individuals' observations changed",
                         A=pA[pn][ra].tolist(), B=pB[pn][rb].tolist())
            ctx.distinct(case["model"], "B", "personalize", name)
            if name != "scipy_minimize" and long_adaptive:
                ctx.count("rel_B_personalize_adaptive_chains")
            if name != "scipy_minimize" and (spec["k"] + i) % 3 == 0:
                # an algorithm object that already served on ANOTHER cohort of the same size (cohort B: other values for the other
                # individuals): what it then returns for this cohort is what a new object returns
                try:
                    from leaspy.algo import AlgorithmSettings, algorithm_factory

                    def run_obj(first):
                        a_ = algorithm_factory(AlgorithmSettings(name, seed=seed_p, progress_bar=False, n_iter=60, n_burn_in_iter=20, sampler_ind_params={
                            "acceptation_history_length": 5, "mean_acceptation_rate_target_bounds": [0.2, 0.4], "adaptive_std_factor": 0.3}))
                        with contextlib.redirect_stdout(io.StringIO()):
                            if first is not None:
                                a_.run(model, first)
                            return a_.run(model, ds).to_pytorch()

                    (i0, p0), (i1, p1) = run_obj(None), run_obj(dsB)
                    ctx.count("rel_B_reused_algorithm_object")
                    ctx.evaluated()
                    if i0 != i1 or any(not sh.bit_same(p0[pn], p1[pn]) for pn in p0):
                        viol(f"indep/personalize-depends-on-other-individuals/{name}",
                             f"{name}: an algorithm object that was first run on another cohort (other individuals' values) returns other estimates for this cohort than a new object")
                except Exception as e:
                    ctx.count("reused_object_relation_skipped")
                    ctx.note(f"reused_object_relation_skipped_{type(e).__name__}", str(e)[:160])
            if tpos == 0 and dsC is not None and name == "scipy_minimize":
                try:
                    idxC, pC = perso(dsC, name)
                    for pn in pA:
                        ctx.count("rel_C_personalize")
                        if not sh.same(pA[pn][ra], pC[pn][0], rtol=1e-6, atol=1e-7):
                            viol("indep/personalize-alone-differs-at-position-0", f"{name}: target at position 0 personalised alone differs from the batch result for '{pn}'",
                                 batch=pA[pn][ra].tolist(), alone=pC[pn][0].tolist())
                except Exception as e:
                    ctx.count("personalize_skipped")
            if spec.get("do_E") and name == "scipy_minimize" and i == 0:
                try:
                    idxE, pE = perso(ds, name, n_jobs=2 if (n % 2 or n < 3) else 3)  # a number of workers that does not divide the cohort
                    ctx.count("rel_E")
                    ctx.evaluated()
                    if idxE != idxA or any(not sh.bit_same(pA[pn], pE[pn]) for pn in pA):
                        viol("indep/n-jobs-changes-result", "scipy_minimize with 2 parallel workers differs from 1 worker")
                    ctx.distinct(case["model"], "E")
                except Exception as e:
                    ctx.count("rel_E_skipped")
                    ctx.note(f"rel_E_skipped_{type(e).__name__}", str(e)[:200])
        if i < 1:
            ctx.sample(dict(case, relations=["B", "C", "D"], algos=algos), limit=1)
