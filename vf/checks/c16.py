"""C16 — individual-parameter containers convert losslessly.  DESIGN §2/C16.

Oracle: icontract postconditions installed from the harness on the real ``IndividualParameters`` methods
(vf.probes.ipcontracts: form + round-trip postconditions on to_dataframe / from_dataframe / to_pytorch / from_pytorch /
save / load, acceptance contract on add_individual_parameters) plus a plain-dict reference model of the container
(vf.refmodel.ipref) that every converted container is compared with; rejection monitor on add_individual_parameters.
Workload: seeded generated containers (hostile identifiers, names, shapes, values), tables and tensor dicts.
"""
from __future__ import annotations

import math
import os
import shutil
import tempfile

RULE = (
    "a case = one generated container (1-40 individuals; identifier class ordinary / numeric-looking ('007','1e3','12',..) / "
    "spaces-commas-quotes-newlines / long / unicode / mixed / NA-like tokens; 1-4 parameter names from xi,tau,sources or generic "
    "underscore-free names (names with '_' and the reserved name 'ID' form separate classes, judged only for the json and tensor "
    "forms); each parameter scalar (python float/int, numpy scalar, 0-d array), length-1 or length-n (list, ndarray, list of numpy "
    "scalars); values N(0,1)*scale, 0, -0.0, 1e-30, +-1e30, NaN, +-inf, integers) built through the real add_individual_parameters, then "
    "converted container->X->container for X in dataframe, pytorch, csv, json (each result compared with the plain-dict model) and "
    "6 (quick) / all 16 (thorough) ordered chains of two (second leg compared with a plain copy of the first leg's result); compared: "
    "ids as str in order, names, shapes [scalar may return as length-1 through table/tensor forms], values [exact; float32 where a tensor is involved; to the input's own precision for numpy float32 inputs]); "
    "then 8-14 malformed additions per container (duplicate / non-str id, unsupported value type, unsupported list tail, inconsistent "
    "shape, not a dict) that must raise LeaspyIndividualParamsInputError and leave the container unchanged. 'tables' / 'tensors' "
    "shards start from a generated table / tensor dict instead (X->container->X). evaluations = cases; distinct_nontrivial = "
    "distinct (identifier list, name->shape map, first individual's values); every case is non-trivial (>=1 conversion judged)."
)
REQUIRED = {
    "rt_dataframe_judged": 150, "rt_pytorch_judged": 150, "rt_csv_judged": 150, "rt_json_judged": 150, "chains_judged": 500,
    "rejections_judged": 1000, "post_to_dataframe": 150, "post_from_dataframe": 150, "post_to_pytorch": 150,
    "post_from_pytorch": 150, "post_save": 150, "post_load": 150, "post_add": 3000, "tables_judged": 100, "tensors_judged": 100,
    "numeric_id_csv_judged": 20,
}
ASSUMPTIONS = [
    "the table form has no 0-d cell and the tensor form is 2-D by contract: a scalar parameter may come back as a length-1 vector "
    "through dataframe / csv / pytorch (never the reverse, never another length); json and dict forms must keep shapes exactly",
    "values: exact equality (NaN==NaN, sign of zero not judged, int 70 == float 70.0) except float32 equality where a tensor is "
    "involved or where the value that went in was itself a numpy float32",
    "parameter names containing '_' or equal to 'ID' cannot be represented by the documented name / name_i column scheme: run for "
    "information through table/csv, judged for json / pytorch only; empty containers are not generated",
    "numpy int32 scalars are drawn within +-100 (pandas builds a float32 column from a mix of numpy float32 and int32 scalars, so an "
    "int32 above 2**24 mixed with float32 scalars of other individuals is rounded in the table form: not judged)",
    "unsupported value types judged: str, None, dict, complex, object, set, bool (the container's own list of valid scalar types is int, float and "
    "numpy's 32/64-bit ints and floats, matched by exact type), lists of those, nested lists; tuple / empty list / torch tensors are run "
    "for information only",
]

STAGES = ("dataframe", "pytorch", "csv", "json")
NA_LIKE = ["NA", "null", "nan", "", "None", "NaN", "N/A", "NULL", "n/a", "<NA>", "#N/A"]
NUMERIC_POOL = ["007", "1e3", "12", "0", "-5", "3.0", "1E5", "00", "1.", ".5", "+3", "1e-3", "inf", "0x1A", "1_000",
                "12345678901234567890", "1.0e+02", "-0", "1e400", "0.1"]
GENERIC_NAMES = ["a", "beta", "Xi2", "source", "sourcesbis", "resource", "w", "omega", "rho", "my param", "p.1", "k-2", "ζ", "1",
                 "tau2", "x,y", 'q"r', "nosources", "TAU", " lead", "trail ", "v"]
UNDERSCORE_NAMES = ["tau_std", "my_param", "sources_0", "a_b_c", "_x", "x_", "xi_mean", "s_1"]


def shards(tier, seed):
    n = 250 if tier == "quick" else 7000
    n = int(os.environ.get("VF_C16_N", n))  # self-validation helper only (smaller workloads for mutant runs)
    budget = 70 if tier == "quick" else 800
    out = [{"name": f"containers-{k}", "kind": "containers", "n": n, "k": k, "budget_s": budget} for k in range(14)]
    out += [{"name": "tables-0", "kind": "tables", "n": n * (3 if tier == "quick" else 8), "k": 0, "budget_s": budget}]
    out += [{"name": "tensors-0", "kind": "tensors", "n": n * (3 if tier == "quick" else 15), "k": 0, "budget_s": budget}]
    return out


# ---------------------------------------------------------------------------------------------------------------
# generators (pure functions of the rng)
def _alnum(r, n):
    al = "abcdefghijklmnopqrstuvwxyzABCDEFGHIJKLMNOPQRSTUVWXYZ0123456789"
    return "".join(al[int(x)] for x in r.integers(0, len(al), n))


def gen_one_id(r, cls, k):
    if cls == "ordinary":
        return [f"sub-{k:03d}", f"P{k}", f"idx{k}", f"patient{_alnum(r, 3)}{k}", _alnum(r, int(r.integers(1, 9))) + str(k)][int(r.integers(5))]
    if cls == "numeric":
        j = int(r.integers(8))
        if j < 3:
            return NUMERIC_POOL[int(r.integers(len(NUMERIC_POOL)))]
        return [str(int(r.integers(0, 10 ** 6))), f"{int(r.integers(0, 999)):05d}", f"{r.random() * 100:.2f}",
                f"{int(r.integers(1, 9))}e{int(r.integers(0, 5))}", str(-int(r.integers(1, 99)))][j - 3]
    if cls == "punct":
        tok = _alnum(r, 2) + str(k)
        return [f" {tok}", f"{tok} ", f"a b {tok}", f"x,{tok}", f'q"{tok}', f"it's{tok}", f"semi;{tok}", f"tab\t{tok}", f"back\\{tok}",
                f"nl\n{tok}", f'"{tok}"', f"'{tok}'", f",{tok},", f"#{tok}", f"a|{tok}", f'""{tok}', f"{tok},\"x\" y"][int(r.integers(17))]
    if cls == "long":
        return _alnum(r, int(r.integers(200, 3000))) + str(k)
    if cls == "unicode":
        return ["é", "日本", "Ωmega", "🙂", "ñandú", "Ünï"][int(r.integers(6))] + str(k)
    raise ValueError(cls)


def gen_ids(r, cls, n):
    base = ["ordinary", "numeric", "punct", "long", "unicode"]
    ids = []
    guard = 0
    while len(ids) < n and guard < 50 * n + 100:
        guard += 1
        c = cls if cls in base else base[int(r.integers(len(base)))]
        if c == "long" and cls != "long" and r.random() < 0.7:
            c = "ordinary"
        x = gen_one_id(r, c, len(ids))
        if x not in ids:
            ids.append(x)
    if cls == "na-like":
        for _ in range(int(r.integers(1, 3))):
            x = NA_LIKE[int(r.integers(len(NA_LIKE)))]
            if x not in ids:
                ids[int(r.integers(len(ids)))] = x
    return ids


def gen_names(r):
    u = r.random()
    k = int(r.integers(1, 5))
    if u < 0.38:
        cls, pool = "model", ["xi", "tau", "sources"]
    elif u < 0.76:
        cls, pool = "generic", GENERIC_NAMES
    elif u < 0.86:
        cls, pool = "model+generic", ["xi", "tau", "sources"] + GENERIC_NAMES
    elif u < 0.97:
        cls, pool = "underscore", UNDERSCORE_NAMES + ["xi", "tau", "a"]
    else:
        cls, pool = "reserved", ["ID", "xi", "a"]
    k = min(k, len(pool))
    names = [pool[int(j)] for j in r.permutation(len(pool))[:k]]
    if cls == "underscore" and not any("_" in nm for nm in names):
        names[0] = UNDERSCORE_NAMES[int(r.integers(len(UNDERSCORE_NAMES)))]
    if cls == "reserved" and "ID" not in names:
        names[int(r.integers(len(names)))] = "ID"
    return cls, names


def draw_float(r):
    u = r.random()
    if u < 0.55:
        return float(r.standard_normal() * [1.0, 70.0, 1e-3, 1e-4, 10.0][int(r.integers(5))])
    if u < 0.61:
        return 0.0
    if u < 0.66:
        return -0.0
    if u < 0.71:
        return 1e-30
    if u < 0.76:
        return 1e30
    if u < 0.79:
        return -1e30
    if u < 0.86:
        return float("nan")
    if u < 0.88:
        return float("inf") if r.random() < 0.5 else float("-inf")
    if u < 0.94:
        return float(int(r.integers(-100, 100)))
    return [0.1, 1.0 / 3.0, 16777217.0, 0.00010119833935439998, 70.0, -1e-30, 123456.789][int(r.integers(7))]


def draw_int(r):
    return [int(r.integers(-100, 100)), 70, 0, 16777217, -1][int(r.integers(5))]


def gen_value(r, shape, np_scalars):
    """One value of the given shape (() or (k,)), in one of the accepted python / numpy encodings."""
    import numpy as np

    if shape == ():
        kinds = ["pyfloat"] * 4 + ["pyint", "npfloat64", "array0"]
        if np_scalars:
            kinds = ["npfloat32", "npint64", "npint32", "npfloat64", "pyfloat", "pyint"]
        kd = kinds[int(r.integers(len(kinds)))]
        if kd == "pyfloat":
            return draw_float(r)
        if kd == "pyint":
            return draw_int(r)
        if kd == "npfloat64":
            return np.float64(draw_float(r))
        if kd == "array0":
            return np.array(draw_float(r))
        if kd == "npfloat32":
            with np.errstate(all="ignore"):
                return np.float32(draw_float(r))
        if kd == "npint64":
            return np.int64(draw_int(r))
        # kept float32-exact: pandas infers float32 for a column mixing numpy float32 and numpy int32 scalars, so a larger int32
        # would be rounded by the table form -- a pandas inference quirk on a contrived mix, outside what is judged here
        return np.int32(min(draw_int(r), 100))
    k = shape[0]
    kinds = ["list"] * 4 + ["array64", "array32", "arrayint", "listint", "listmixed", "listnp64"]
    if np_scalars:
        kinds = ["listnp32", "listnpint64", "list", "array64", "listnp32first"]
    kd = kinds[int(r.integers(len(kinds)))]
    fl = [draw_float(r) for _ in range(k)]
    if kd == "list":
        return fl
    if kd == "array64":
        return np.array(fl, dtype=np.float64)
    if kd == "array32":
        with np.errstate(all="ignore"):
            return np.array(fl, dtype=np.float32)
    if kd == "arrayint":
        return np.array([draw_int(r) for _ in range(k)], dtype=np.int64)
    if kd == "listint":
        return [draw_int(r) for _ in range(k)]
    if kd == "listmixed":
        return [draw_int(r) if r.random() < 0.5 else x for x in fl]
    if kd == "listnp64":
        return [np.float64(x) for x in fl]
    if kd == "listnpint64":
        return [np.int64(draw_int(r)) for _ in range(k)]
    with np.errstate(all="ignore"):
        if kd == "listnp32":
            return [np.float32(x) for x in fl]
        return [np.float32(fl[0])] + fl[1:]  # listnp32first


def gen_container_case(r):
    u = r.random()
    id_cls = ("ordinary" if u < 0.2 else "numeric" if u < 0.42 else "punct" if u < 0.6 else "long" if u < 0.66 else
              "unicode" if u < 0.72 else "mixed" if u < 0.92 else "na-like")
    n = int(r.integers(1, 9)) if r.random() < 0.9 else int(r.integers(9, 41))
    if id_cls == "long":
        n = min(n, 6)
    ids = gen_ids(r, id_cls, n)
    name_cls, names = gen_names(r)
    allow_scalar = r.random() < 0.4
    np_scalars = r.random() < 0.2
    shapes = {}
    for nm in names:
        v = r.random()
        if nm.startswith("source") and v < 0.8:
            shapes[nm] = (int(r.integers(1, 5)),)
        elif allow_scalar and v < 0.6:
            shapes[nm] = ()
        elif v < 0.75:
            shapes[nm] = (1,)
        else:
            shapes[nm] = (int(r.integers(2, 7)) if r.random() < 0.93 else int(r.integers(7, 30)),)
    entries = [(i, {nm: gen_value(r, sh, np_scalars) for nm, sh in shapes.items()}) for i in ids]
    mixed_key_order = len(shapes) >= 2 and len(ids) >= 2 and r.random() < 0.35
    if mixed_key_order:
        # the same parameters written in another key order for some individuals (a dict is a dict: accepted, and the same individual)
        entries = [(i, d if j == 0 or r.random() < 0.5 else {k_: d[k_] for k_ in r.permutation(list(d))}) for j, (i, d) in enumerate(entries)]
    return {"id_class": id_cls, "names_class": name_cls, "shapes": shapes, "np_scalars": np_scalars, "mixed_key_order": bool(mixed_key_order)}, entries


# ---------------------------------------------------------------------------------------------------------------
def features(s, meta):
    """Input-class features of a container snapshot (used only to *name* the mechanism of a failure)."""
    import numpy as np

    def nonjson(x):
        return isinstance(x, np.generic) and not isinstance(x, (float, int))

    np_nonjson = False
    for d in s.params.values():
        for v in d.values():
            if any(nonjson(x) for x in (v if isinstance(v, list) else [v])):
                np_nonjson = True
    return {
        "has_scalar": any(tuple(sh) == () for sh in (s.shapes or {}).values()),
        "np_nonjson": np_nonjson,
        "na_like": any(i in NA_LIKE for i in s.ids),
        "table_unrepresentable": any(("_" in nm) or nm == "ID" for nm in (s.shapes or {})),
    }


def classify_exc(stage, fn, exc, feats):
    if fn == "to_dataframe" and exc == "IndexError" and feats["has_scalar"]:
        return "ip.to_dataframe/scalar-shape"
    if fn == "_save_json" and exc == "TypeError" and feats["np_nonjson"]:
        return "ip.save-json/numpy-scalar-not-serializable"
    if stage == "csv" and fn == "add_individual_parameters" and exc == "LeaspyIndividualParamsInputError" and feats["na_like"]:
        return "ip.load-csv/na-like-id"
    return f"ip.roundtrip-{stage}/raises-{exc}@{fn}"


def post_key(op, stage, sym, extra, feats):
    """Key of a broken postcondition raised by the contract on ``op`` while ``stage`` was being converted."""
    if op == "add":
        return f"ip.add/{sym}"
    return classify_problem(op if op in STAGES else stage, sym, extra, feats)


def classify_problem(stage, sym, extra, feats):
    if sym == "converts-back-raises":
        return classify_exc(stage, extra.get("fn", "?"), extra.get("exc", "?"), feats)
    if stage == "csv" and sym == "values-changed" and extra.get("max_rel", math.inf) <= 1e-11:
        return "ip.load-csv/float-parse-not-exact"
    if stage == "csv" and sym in ("ids-changed", "ids-not-str") and feats["na_like"]:
        return "ip.load-csv/na-like-id"
    return f"ip.roundtrip-{stage}/{sym}"


RELAX = {
    "dataframe": {"scalar_to_vec": True}, "csv": {"scalar_to_vec": True},
    "pytorch": {"scalar_to_vec": True, "f32": True}, "json": {},
}


def run_shard(spec, ctx):
    import warnings

    import numpy as np
    import torch

    from leaspy.exceptions import LeaspyIndividualParamsInputError
    from vf.probes import ipcontracts as C
    from vf.refmodel import ipref

    warnings.filterwarnings("ignore")
    IP = C.install()
    PostBroken = C.PostBroken

    def brief_case(i, meta, M, **kw):
        d = {"index": i, "id_class": meta.get("id_class"), "names_class": meta.get("names_class"),
             "shapes": {k: list(v) for k, v in (M.shapes or {}).items()}, "n": len(M.ids),
             "ids": [x if len(x) < 60 else x[:40] + f"...({len(x)} chars)" for x in M.ids[:8]]}
        if M.ids:
            d["first"] = {k: ([repr(x) for x in v[:8]] if isinstance(v, list) else repr(v)) for k, v in M.params[M.ids[0]].items()}
        d.update(kw)
        return d

    JSON_KWS = [{}, {"indent": 2}, {"sort_keys": True}, {}, {"indent": 4, "sort_keys": True}, {"separators": (",", ":")}, {"sort_keys": True, "indent": None}]
    _n_saves = [0]

    # ---- one conversion container -> form -> container through the wrapped real methods -----------------------
    def convert(stage, ip, tmp, tag):
        """Returns (container | None, events); events = [("post", op, problems) | ("exc", fn, exc_name, msg)]."""
        events = []
        out = None
        try:
            if stage == "dataframe":
                out = IP.from_dataframe(ip.to_dataframe())
            elif stage == "pytorch":
                ids, tensors = ip.to_pytorch()
                out = IP.from_pytorch(ids, tensors)
            else:
                path = os.path.join(tmp, f"ip-{tag}.{stage}")
                # documented: extra keywords go to json.dump (layout options of the file: never a change of content)
                _n_saves[0] += 1
                kws = JSON_KWS[_n_saves[0] % len(JSON_KWS)] if stage == "json" else {}
                if kws:
                    ctx.count("json_saves_with_dump_options")
                try:
                    ip.save(path, **kws)
                except PostBroken as e:  # the file exists: keep going so that the harness-level comparison also runs
                    events.append(("post", e.op, e.problems))
                    if not os.path.exists(path):
                        return None, events
                out = IP.load(path)
        except PostBroken as e:
            events.append(("post", e.op, e.problems))
            out = None
        except Exception as e:
            events.append(("exc", C.innermost_leaspy_function(e), type(e).__name__, str(e)[:200]))
            out = None
        return out, events

    def judge(label, stage, relax, out, events, M, feats, case, informational):
        """Turn the events of one conversion + the model comparison into violations / counters. Returns True if clean."""
        found = []  # (key, what)
        for ev in events:
            if ev[0] == "post":
                _, op, problems = ev
                sym, det, extra = problems[0]
                found.append((post_key(op, stage, sym, extra, feats), f"[{label}] contract on {op}: {sym}: {det}"))
            else:
                _, fn, exc, msg = ev
                found.append((classify_exc(stage, fn, exc, feats), f"[{label}] {fn} raised {exc}: {msg}"))
        if out is not None:
            probs, info = ipref.judged(ipref.compare(ipref.snap(out), M, **relax))
            for sym, det, extra in info:
                ctx.count(sym.replace("info:", "info_"))
            if probs:
                sym, det, extra = probs[0]
                key = classify_problem(stage, sym, extra, feats)
                if key not in [k for k, _ in found]:
                    found.append((key, f"[{label}] result differs from the plain-dict model: {sym}: {det}"))
        if informational:
            ctx.count(f"unrepresentable_names_{stage}_" + ("changed_or_raised" if found else "roundtrip_ok"))
            return not found
        for key, what in found:
            ctx.violation(key, what, dict(case, conversion=label))
        if out is not None and not found and len(getattr(out, "_indices", [])) >= 1:
            # the converted container obeys the same rules as one filled by additions: an identifier it already holds is refused
            dup_id = out._indices[int(len(out._indices) // 2)]
            try:
                before_ = ipref.snap(out)
                out.add_individual_parameters(dup_id, dict(out[dup_id]))
                ctx.violation("ip.add/accepted-duplicate-id", f"[{label}] the container obtained through {stage} accepted an identifier it already holds ({ipref._r(dup_id)})",
                              dict(case, conversion=label, via=f"container from {stage}"))
                return False
            except LeaspyIndividualParamsInputError:
                ctx.count("rejections_judged")
                ctx.count(f"rejected_duplicate-id_on_container_from_{stage}")
            except PostBroken as e:
                ctx.violation("ip.add/accepted-duplicate-id", f"[{label}] {e.problems[0][1]}", dict(case, conversion=label, via=f"container from {stage}"))
                return False
            except Exception:
                ctx.count("rejections_with_another_exception_type")
        return not found

    # ---- rejection monitor ---------------------------------------------------------------------------------
    def bad_additions(r, M):
        """[(class, judged?, id, params)] malformed additions relative to model M (non-empty)."""
        import copy

        def good():
            src = M.params[M.ids[int(r.integers(len(M.ids)))]]
            return copy.deepcopy(src)

        fresh = "fresh-" + _alnum(r, 6)
        while fresh in M.ids:
            fresh += "x"
        out = [("duplicate-id", True, M.ids[int(r.integers(len(M.ids)))], good())]
        nonstr = [7, 1.5, None, b"abc", ("a",), np.int64(3), 0, True, float("nan")]
        for j in r.permutation(len(nonstr))[:2]:
            out.append(("non-str-id", True, nonstr[int(j)], good()))
        names = list(M.shapes)
        # unsupported types, shape-matching so that only the type check can refuse them
        for _ in range(3):
            p = names[int(r.integers(len(names)))]
            sh = M.shapes[p]
            if sh == ():
                bad = ["0.5", None, {"a": 1.0}, 1 + 2j, object(), {1.0}, True, False, np.bool_(True)][int(r.integers(9))]
            else:
                k = sh[0]
                bad = [["0.5"] * k, [None] * k, [[1.0]] * k, [1 + 2j] * k, [{"a": 1}] * k, [True] * k, [bool(b) for b in r.integers(0, 2, k)]][int(r.integers(7))]
            d = good()
            d[p] = bad
            out.append(("unsupported-type", True, fresh, d))
        vec = [p for p in names if M.shapes[p] != () and M.shapes[p][0] >= 2]
        if vec:
            for _ in range(2):
                p = vec[int(r.integers(len(vec)))]
                d = good()
                v = list(d[p])
                pos = int(r.integers(1, len(v)))
                v[pos] = ["a", None, [1.0], 1j, {"x": 1}, True, False][int(r.integers(7))]
                d[p] = v
                out.append(("list-tail-unsupported", True, fresh, d))
        # inconsistent shapes
        p = names[int(r.integers(len(names)))]
        sh = M.shapes[p]
        d = good()
        if sh == ():
            d[p] = [float(d[p])] if not isinstance(d[p], list) else d[p]
        elif sh == (1,):
            d[p] = d[p][0] if r.random() < 0.5 else d[p] + [0.25]
        else:
            d[p] = d[p][:-1] if r.random() < 0.5 else d[p] + [0.25]
        out.append(("inconsistent-shape", True, fresh, d))
        d = good()
        d["extra" if "extra" not in d else "extra2"] = 0.5
        out.append(("inconsistent-shape", True, fresh, d))
        if len(names) >= 2:
            d = good()
            del d[names[int(r.integers(len(names)))]]
            out.append(("inconsistent-shape", True, fresh, d))
        d = good()
        q = names[int(r.integers(len(names)))]
        d[q + "bis"] = d.pop(q)
        out.append(("inconsistent-shape", True, fresh, d))
        nd = [None, "xi", [("xi", 0.5)], 0.5]
        out.append(("not-a-dict", True, fresh, nd[int(r.integers(len(nd)))]))
        # informational classes (accepted or refused: not judged)
        p = names[int(r.integers(len(names)))]
        d = good()
        sh = M.shapes[p]
        d[p] = [(0.5,) if sh == () else tuple([0.5] * sh[0]), torch.tensor(0.5) if sh == () else torch.zeros(sh[0])][int(r.integers(2))]
        out.append(("info", False, fresh, d))
        return out

    def rejection_monitor(r, entries, M, case):
        def build():
            ip = IP()
            for idx, d in entries:
                ip.add_individual_parameters(idx, d)
            return ip

        ip = build()
        for cls, judged_, idx, d in bad_additions(r, M):
            before = ipref.snap(ip)
            polluted = False
            what = f"add({ipref._r(idx)}, {str(d)[:150]}) [{cls}]"
            try:
                ip.add_individual_parameters(idx, d)
                polluted = True
                if judged_:  # only reachable if the acceptance contract itself missed it
                    ctx.violation(f"ip.add/accepted-{cls}", f"{what} was accepted", dict(case, addition=cls))
                else:
                    ctx.count("info_additions_accepted")
            except PostBroken as e:
                polluted = True
                sym = e.problems[0][0]
                if judged_:
                    ctx.violation(f"ip.add/{sym}", f"{what}: {e.problems[0][1]}", dict(case, addition=cls))
                else:
                    ctx.count("info_additions_accepted")
            except LeaspyIndividualParamsInputError:
                if judged_:
                    ctx.count("rejections_judged")
                    ctx.count(f"rejected_{cls}")
                else:
                    ctx.count("info_additions_refused")
            except Exception as e:
                if judged_:
                    ctx.violation(f"ip.add/{cls}-refused-with-{type(e).__name__}",
                                  f"{what} raised {type(e).__name__}: {str(e)[:150]} instead of LeaspyIndividualParamsInputError",
                                  dict(case, addition=cls))
                else:
                    ctx.count("info_additions_refused")
            if polluted:
                ip = build()
                continue
            after = ipref.snap(ip)
            if ipref.judged(ipref.compare(after, before))[0] or after.shapes != before.shapes:
                ctx.violation("ip.add/refused-addition-left-a-trace", f"{what} was refused but the container changed", dict(case, addition=cls))
                ip = build()
        # first addition to an empty container
        firsts = [(7, {"xi": 0.5}, "non-str-id"), ("a", {"xi": "0.5"}, "unsupported-type"), ("a", {"xi": [0.5, "b"]}, "list-tail-unsupported"),
                  ("a", [0.5], "not-a-dict"), ("a", {"xi": []}, "info"), ("a", {"xi": [[0.5]]}, "unsupported-type"), ("a", {"xi": True}, "unsupported-type"),
                  ("a", {"xi": [0.5, True]}, "list-tail-unsupported")]
        idx, d, cls = firsts[int(r.integers(len(firsts)))]
        e0 = IP()
        try:
            e0.add_individual_parameters(idx, d)
            if cls != "info":
                ctx.violation(f"ip.add/accepted-{cls}", f"first add({ipref._r(idx)}, {d!r}) was accepted", dict(case, addition=cls))
        except PostBroken as e:
            if cls != "info":
                ctx.violation(f"ip.add/{e.problems[0][0]}", f"first add({ipref._r(idx)}, {d!r}): {e.problems[0][1]}", dict(case, addition=cls))
        except LeaspyIndividualParamsInputError:
            if cls != "info":
                ctx.count("rejections_judged")
                ctx.count("rejected_first_addition")
                if e0._indices or e0._individual_parameters or e0._parameters_shape is not None:
                    ctx.violation("ip.add/refused-addition-left-a-trace", f"first add({ipref._r(idx)}, {d!r}) refused but container not empty", dict(case, addition=cls))
        except Exception as e:
            if cls != "info":
                ctx.violation(f"ip.add/{cls}-refused-with-{type(e).__name__}", f"first add({ipref._r(idx)}, {d!r}) raised {type(e).__name__}: {e}", dict(case, addition=cls))

    # ---- shard kinds -----------------------------------------------------------------------------------------
    kind = spec["kind"]
    all_pairs = [(a, b) for a in STAGES for b in STAGES]

    def run_container_case(i):
        r = ctx.rng("container", spec["k"], i)
        meta, entries = gen_container_case(r)
        M = ipref.model_from_entries(entries)
        case = brief_case(i, meta, M)
        ctx.evaluated()
        ctx.count(f"idclass_{meta['id_class']}")
        ctx.count(f"namesclass_{meta['names_class']}")
        for sh in M.shapes.values():
            ctx.count("shape_scalar" if sh == () else "shape_len1" if sh == (1,) else "shape_lenN")
        ctx.distinct(M.ids, sorted((k, list(v)) for k, v in M.shapes.items()), [repr(v) for v in M.params[M.ids[0]].values()])
        if i < 3:
            ctx.sample(case, limit=3)
        # dict form: build through the real (contracted) add and read back
        ip = IP()
        try:
            for idx, d in entries:
                ip.add_individual_parameters(idx, d)
        except PostBroken as e:
            ctx.violation(f"ip.add/{e.problems[0][0]}", f"valid addition: {e.problems[0][1]}", case)
            return
        except Exception as e:
            ctx.violation("ip.add/valid-refused", f"valid addition raised {type(e).__name__}: {str(e)[:200]}", case)
            return
        ctx.count("dict_judged")
        probs = ipref.judged(ipref.compare(ipref.snap(ip), M))[0]
        if probs or [ip[k] for k in M.ids] != [ip._individual_parameters[k] for k in M.ids] or [k for k, _ in ip.items()] != M.ids:
            ctx.violation(f"ip.roundtrip-dict/{probs[0][0] if probs else 'items-differ'}", f"container differs from what was added: {probs[:1]}", case)
        feats = features(M, meta)
        tmp = tempfile.mkdtemp(prefix="c16-")
        try:
            firsts = {}
            for st in STAGES:
                informational = feats["table_unrepresentable"] and st in ("dataframe", "csv")
                out, events = convert(st, ip, tmp, st)
                clean = judge(st, st, RELAX[st], out, events, M, feats, case, informational)
                if not informational:
                    ctx.count(f"rt_{st}_judged")
                    if st == "csv" and meta["id_class"] == "numeric":
                        ctx.count("numeric_id_csv_judged")
                    if clean:
                        ctx.count(f"rt_{st}_clean")
                firsts[st] = out
            pairs = all_pairs if ctx.tier == "thorough" else [all_pairs[int(j)] for j in r.permutation(16)[:6]]
            for a, b in pairs:
                mid = firsts[a]
                if mid is None:
                    ctx.count("chains_skipped_first_leg_failed")
                    continue
                informational = feats["table_unrepresentable"] and (a in ("dataframe", "csv") or b in ("dataframe", "csv"))
                sm = ipref.snap(mid)
                f2 = features(sm, meta)
                f2["na_like"] = feats["na_like"]
                out, events = convert(b, mid, tmp, f"{a}-{b}")
                judge(f"{a}->{b}", b, RELAX[b], out, events, sm, f2, case, informational)
                if not informational:
                    ctx.count("chains_judged")
            # save without extension -> documented default (csv), loadable from path + '.csv'
            if r.random() < 0.1 and not feats["table_unrepresentable"]:
                path = os.path.join(tmp, "noext")
                try:
                    ip.save(path)
                    ok = os.path.exists(path + ".csv")
                    ctx.count("save_default_extension")
                    if not ok:
                        ctx.violation("ip.save/default-extension-file-missing", "save(path without extension) did not write path.csv", case)
                except PostBroken as e:
                    sym, det, extra = e.problems[0]
                    ctx.violation(post_key(e.op, "csv", sym, extra, feats), f"[save without extension] contract on {e.op}: {sym}: {det}", case)
                except Exception as e:
                    ctx.violation(classify_exc("csv", C.innermost_leaspy_function(e), type(e).__name__, feats),
                                  f"[save without extension] {type(e).__name__}: {e}", case)
        finally:
            shutil.rmtree(tmp, ignore_errors=True)
        rejection_monitor(r, entries, M, case)

    def run_table_case(i):
        import pandas as pd

        r = ctx.rng("table", spec["k"], i)
        u = r.random()
        id_cls = "ordinary" if u < 0.25 else "numeric" if u < 0.55 else "punct" if u < 0.75 else "mixed"
        n = int(r.integers(1, 9))
        ids = gen_ids(r, id_cls, n)
        _, names = gen_names(r)
        names = [nm for nm in names if "_" not in nm and nm != "ID"] or ["xi"]
        cols, shapes = [], {}
        for nm in names:
            k = int(r.integers(1, 5))
            if k == 1:
                cols.append(nm + "_0" if "source" in nm else nm)
            else:
                cols += [f"{nm}_{j}" for j in range(k)]
            shapes[nm] = (k,)
        int_cols = {c for c in cols if r.random() < 0.15}
        data = {c: ([draw_int(r) for _ in ids] if c in int_cols else [draw_float(r) for _ in ids]) for c in cols}
        bad_index = r.random() < 0.15
        index = [int(r.integers(0, 1000)) + 1000 * j for j in range(n)] if bad_index else ids
        df = pd.DataFrame(data, index=index, columns=cols)
        if r.random() < 0.5:
            df.index.name = "ID"
        # model of the container the table denotes
        entries = []
        for row_i, idx in enumerate(ids):
            d, pos = {}, 0
            for nm in names:
                k = shapes[nm][0]
                d[nm] = [data[c][row_i] for c in cols[pos:pos + k]]
                pos += k
            entries.append((idx, d))
        M = ipref.model_from_entries(entries)
        case = brief_case(i, {"id_class": id_cls, "names_class": "table"}, M, columns=cols, int_index=bad_index)
        ctx.evaluated()
        ctx.distinct("table", index, cols, [repr(x) for x in df.iloc[0].tolist()])
        if i < 1:
            ctx.sample(case, limit=1)
        feats = features(M, {})
        try:
            ip = IP.from_dataframe(df)
        except PostBroken as e:
            sym, det, extra = e.problems[0]
            ctx.violation(post_key(e.op, "dataframe", sym, extra, feats), f"[table->container] contract on {e.op}: {sym}: {det}", case)
            return
        except LeaspyIndividualParamsInputError as e:
            if bad_index:
                ctx.count("rejections_judged")
                ctx.count("rejected_non_str_table_index")
            else:
                ctx.violation("ip.from_dataframe/valid-table-refused", f"{e}", case)
            return
        except Exception as e:
            ctx.violation(f"ip.from_dataframe/raises-{type(e).__name__}", f"{e}", case)
            return
        if bad_index:
            ctx.violation("ip.add/accepted-non-str-id", "from_dataframe accepted a table with an integer index", case)
            return
        ctx.count("tables_judged")
        probs = ipref.judged(ipref.compare(ipref.snap(ip), M))[0]
        if probs:
            sym, det, extra = probs[0]
            ctx.violation(classify_problem("dataframe", sym, extra, feats), f"[table->container] differs from the model: {sym}: {det}", case)

    def run_tensor_case(i):
        r = ctx.rng("tensor", spec["k"], i)
        u = r.random()
        id_cls = "ordinary" if u < 0.3 else "numeric" if u < 0.55 else "punct" if u < 0.75 else "mixed"
        n = int(r.integers(1, 9))
        ids = gen_ids(r, id_cls, n)
        names_cls, names = gen_names(r)
        tensors, entries_d = {}, {i_: {} for i_ in ids}
        form = ["2d-f32", "2d-f32", "2d-f32", "1d-f32", "2d-f64"][int(r.integers(5))]
        for nm in names:
            k = int(r.integers(1, 5))
            with np.errstate(all="ignore"):
                arr = np.array([[draw_float(r) for _ in range(k)] for _ in ids], dtype=np.float64)
            if form == "1d-f32":
                t = torch.tensor(arr[:, 0], dtype=torch.float32)
                for row_i, idx in enumerate(ids):
                    entries_d[idx][nm] = float(arr[row_i, 0])
            else:
                t = torch.tensor(arr, dtype=torch.float32 if form == "2d-f32" else torch.float64)
                for row_i, idx in enumerate(ids):
                    entries_d[idx][nm] = [float(x) for x in arr[row_i]]
            tensors[nm] = t
        M = ipref.model_from_entries([(i_, entries_d[i_]) for i_ in ids])
        case = brief_case(i, {"id_class": id_cls, "names_class": names_cls}, M, tensor_form=form)
        ctx.evaluated()
        ctx.distinct("tensor", ids, form, [repr(v) for v in entries_d[ids[0]].values()])
        if i < 1:
            ctx.sample(case, limit=1)
        feats = features(M, {})
        try:
            ip = IP.from_pytorch(list(ids), tensors)
        except PostBroken as e:
            sym, det, extra = e.problems[0]
            ctx.violation(post_key(e.op, "pytorch", sym, extra, feats), f"[tensors->container] contract on {e.op}: {sym}: {det}", case)
            return
        except Exception as e:
            ctx.violation(f"ip.from_pytorch/raises-{type(e).__name__}", f"{e}", case)
            return
        ctx.count("tensors_judged")
        # the model holds the float64 numbers; float32 tensors carry them to single precision, float64 tensors exactly
        probs = ipref.judged(ipref.compare(ipref.snap(ip), M, f32=(form != "2d-f64")))[0]
        if probs:
            sym, det, extra = probs[0]
            ctx.violation(classify_problem("pytorch", sym, extra, feats), f"[tensors->container] differs from the model: {sym}: {det}", case)
        # wrong length of one tensor must be refused with the documented error
        if r.random() < 0.3 and n >= 1:
            bad = dict(tensors)
            nm = names[0]
            bad[nm] = torch.cat([bad[nm], bad[nm][:1]])
            try:
                IP.from_pytorch(list(ids), bad)
                ctx.violation("ip.from_pytorch/accepted-length-mismatch", "tensor with one row too many accepted", case)
            except LeaspyIndividualParamsInputError:
                ctx.count("rejections_judged")
                ctx.count("rejected_tensor_length_mismatch")
            except PostBroken as e:
                ctx.violation("ip.from_pytorch/accepted-length-mismatch", f"{e.problems[0][1]}", case)
            except Exception as e:
                ctx.violation(f"ip.from_pytorch/length-mismatch-refused-with-{type(e).__name__}", f"{e}", case)
        # additions arriving in tensor / table form obey the same rules: a duplicated or non-string identifier is refused
        if n >= 2 and r.random() < 0.5:
            import pandas as pd

            dup = list(ids)
            pos = int(r.integers(1, n))
            dup[pos] = dup[int(r.integers(0, pos))]
            nonstr = list(ids)
            nonstr[int(r.integers(0, n))] = [7, 2.5, None, ("a",)][int(r.integers(4))]
            attempts = [("duplicate-id", "from_pytorch", lambda: IP.from_pytorch(dup, tensors)),
                        ("non-str-id", "from_pytorch", lambda: IP.from_pytorch(nonstr, tensors))]
            try:
                df_ok = ip.to_dataframe()
                df_dup = df_ok.copy()
                df_dup.index = pd.Index(dup, name=df_ok.index.name)
                attempts.append(("duplicate-id", "from_dataframe", lambda: IP.from_dataframe(df_dup)))
            except Exception:
                pass
            for cls_, via, fn in attempts:
                try:
                    fn()
                    ctx.violation(f"ip.add/accepted-{cls_}", f"{via}: individuals with a {cls_.replace('-', ' ')} were accepted ({dup if cls_ == 'duplicate-id' else nonstr})", dict(case, via=via))
                except LeaspyIndividualParamsInputError:
                    ctx.count("rejections_judged")
                    ctx.count(f"rejected_{cls_}_via_{via}")
                except PostBroken as e:
                    ctx.violation(f"ip.add/accepted-{cls_}", f"{via}: {e.problems[0][1]}", dict(case, via=via))
                except Exception as e:
                    ctx.violation(f"ip.add/{cls_}-refused-with-{type(e).__name__}", f"{via}: {type(e).__name__}: {e}", dict(case, via=via))

    runner = {"containers": run_container_case, "tables": run_table_case, "tensors": run_tensor_case}[kind]
    for i in ctx.cases(spec["n"]):
        runner(i)
    for k, v in C.STATS.items():
        ctx.count(k, v)
