"""C20 — benchmark models implement their documented estimators.  DESIGN §2/C20.

Oracle (runtime monitoring, reference-model comparison on real executions):

* constant model: every ``ConstantModel.personalize`` / ``estimate`` result on a generated visit history is compared with a
  10-line float64 numpy reference written from the docstrings (value at the greatest age / at the greatest age among
  observed / largest observed / average observed; NaN rules), and ``estimate`` with "that constant repeated".
* LME: the arrays the real ``lme_fit`` hands to ``statsmodels.MixedLM`` are *recorded* (thin wrapper around the constructor
  in the namespace of ``leaspy.algo.fit.lme_fit``), checked against the documented design ``y ~ [1, (age-mean)/std]`` and
  refitted independently in the harness with the documented options; the real ``lme_personalize`` output on the training
  subjects is compared with ``MixedLMResults.random_effects`` of that independent fit (1e-6 relative) and with the closed
  form ``(Z'Z + Psi^-1)^-1 Z' r`` recomputed in float64 from the *fitted variance components* (``cov_re / noise_std**2``; the
  stored inverse is not used by the reference); trajectories are compared with ``(beta + b).[1, (age-mean)/std]``; new
  (non-training) subjects with the closed form.
"""
from __future__ import annotations

import math

RULE = (
    "constant: a case = one generated cohort (1-10 subjects, 1-6 features, 1-10 visits incl. single-visit subjects, shuffled "
    "input rows, missing patterns none / MCAR / heavy / whole feature / missing at last visit / whole visits / everything) fed "
    "through one of three routes (table with the default reader; table with drop_full_nan=False so that empty visits are kept; "
    "a real Dataset whose visits were permuted in place so that the algorithm receives unsorted ages), personalised with each of "
    "the four prediction types and estimated at unsorted / repeated / extrapolated ages; evaluations = cases; "
    "distinct_nontrivial = distinct (route, ages, values) histories on which the four reference estimators do not all coincide, "
    "plus distinct LME cohorts (config, table digest) that were judged. LME: a case = one univariate cohort (5-60 subjects, "
    "1-8 visits, one-visit subjects, optional retained NaN visits) simulated from a random linear mixed model at one of three "
    "magnitudes, fitted by the real lme_fit (random intercept / + random slope, unstructured or independent covariance, "
    "REML or ML, two optimiser lists), personalised on the training table, on a permuted Dataset, and on new subjects"
)
REQUIRED = {
    "const_values_compared": 4000,
    "const_nan_expected": 200,
    "const_unsorted_histories": 100,
    "const_single_visit_histories": 50,
    "const_nonpositive_time_histories": 50,
    "const_estimates_with_parameters_in_another_key_order": 50,
    "const_feature_entirely_missing": 50,
    "const_estimate_rows": 2000,
    "lme_cohorts_judged_vs_statsmodels": 16,
    "lme_subjects_vs_statsmodels": 300,
    "lme_subjects_vs_closed_form": 300,
    "lme_new_subjects_vs_closed_form": 100,
    "lme_trajectory_points": 1000,
    "lme_random_slope_cohorts": 6,
    "lme_random_intercept_cohorts": 6,
    "lme_one_visit_subjects": 30,
    "lme_design_checks": 16,
    "lme_balanced_complete_cohorts": 4,
}
ASSUMPTIONS = [
    "leaspy stores observations and ages in float32: the references are evaluated in float64 on the float32-rounded inputs; "
    "selection estimators (last / last known / max) must be bit-equal to the float32 observation, the mean within "
    "n*2^-23*max|x| (float32 accumulation), LME closed form within 2e-4 relative of the largest effect (float32 normalised ages)",
    "a visit = a table row with at least one observed feature when the default reader is used (rows full of NaN are dropped at "
    "ingestion, documented `drop_full_nan=True`); with drop_full_nan=False empty visits are visits and `last` returns NaN there",
    "the documented spelling of the third prediction type is `last_known` (both docstrings); the implementation's spelling "
    "`last-known` is used as a fall-back so that the estimator itself is still judged",
    "the independent statsmodels fit receives the arrays recorded from the real fit (after they were checked against the "
    "documented design) and the documented options; cohorts where statsmodels warns about convergence / boundary, refuses a "
    "singular covariance, or where cond(cov_re_unscaled) > 1e8 are counted and not judged against statsmodels",
    "any exception of statsmodels' optimiser that the harness' own fit reproduces is a skipped cohort, not a verdict",
]

EPS32 = 2.0 ** -23
PTYPES = ("last", "last_known", "max", "mean")
DOC_NAME = {"last": "last", "last_known": "last_known", "max": "max", "mean": "mean"}
IMPL_FALLBACK = {"last_known": "last-known"}


def shards(tier, seed):
    # workloads are sized by CPU cost (quick: ~10-25 CPU-s per shard incl. ~6 s of imports; thorough: ~6-9 CPU-min per shard);
    # the wall-clock budgets are only a safety net for a heavily loaded machine
    if tier == "quick":
        out = [{"name": f"const-{k}", "kind": "const", "k": k, "n": 70, "budget_s": 400, "timeout": 1200} for k in range(5)]
        out += [{"name": f"lme-{k}", "kind": "lme", "k": k, "n": 9, "budget_s": 400, "timeout": 1200} for k in range(11)]
    else:
        out = [{"name": f"const-{k}", "kind": "const", "k": k, "n": 3500, "budget_s": 2400, "timeout": 5400} for k in range(5)]
        out += [{"name": f"lme-{k}", "kind": "lme", "k": k, "n": 130, "budget_s": 2400, "timeout": 5400} for k in range(11)]
    return out


def run_shard(spec, ctx):
    if spec["kind"] == "const":
        _run_const(spec, ctx)
    else:
        _run_lme(spec, ctx)


# =====================================================================================================
#                                         constant model
# =====================================================================================================
def ref_constant(ages, vals, ptype):
    """Documented estimators, float64.  ages (n,) unique; vals (n, F) with NaN = missing."""
    import numpy as np

    v = vals[np.argsort(ages)]  # visits by increasing age
    out = np.full(v.shape[1], np.nan)
    for f in range(v.shape[1]):
        col = v[:, f]
        obs = col[~np.isnan(col)]
        if ptype == "last":
            out[f] = col[-1]  # value at the greatest age, NaN allowed
        elif obs.size:  # NaN iff the feature is entirely missing
            out[f] = {"last_known": obs[-1], "max": obs.max(), "mean": obs.mean()}[ptype]
    return out


def gen_histories(rng):
    """One cohort: dict id -> (ages float64 (n,), values float64 (n,F) with NaN), feature names, and the shuffled table."""
    import numpy as np
    import pandas as pd

    n_feat = int(rng.integers(1, 7))
    n_sub = int(rng.integers(1, 11))
    feats = [f"F{k}" for k in range(n_feat)]
    scale_kind = int(rng.integers(0, 4))
    hist = {}
    for s in range(n_sub):
        nv = 1 if rng.random() < 0.15 else int(rng.integers(2, 11))
        start = float(rng.uniform(20, 95))
        origin = rng.random()
        if origin < 0.12:  # time counted from an event: all visits before it (negative), the last one possibly at 0
            start = -float(rng.uniform(1, 40))
        elif origin < 0.2:  # time counted from baseline: first visit at exactly 0
            start = 0.0
        gaps = rng.uniform(1e-3, 3.0, size=nv)
        if rng.random() < 0.2:
            gaps = np.full(nv, 1e-3)  # closest admissible visits
        ages = np.round(start + np.cumsum(gaps), 3)
        if origin < 0.2:
            ages = np.round(ages - ages[0] + start, 3) if origin >= 0.12 else (np.round(ages - ages[-1], 3) if rng.random() < 0.5 else ages)
        if len(set(ages.tolist())) < nv:
            ages = np.round(start + 1e-3 * np.arange(1, nv + 1), 3)
        if scale_kind == 0:
            vals = rng.random((nv, n_feat))
        elif scale_kind == 1:
            vals = rng.normal(0, 100.0, (nv, n_feat))
        elif scale_kind == 2:
            vals = rng.integers(-3, 4, (nv, n_feat)).astype(float)  # many ties, zeros, negatives
        else:
            vals = np.round(rng.normal(0.5, 0.3, (nv, n_feat)), 1)
        pat = int(rng.integers(0, 8))
        m = np.zeros((nv, n_feat), bool)
        if pat == 1:
            m = rng.random((nv, n_feat)) < 0.25
        elif pat == 2:
            m = rng.random((nv, n_feat)) < 0.6
        elif pat == 3:  # a feature (or several) entirely missing
            for f in rng.choice(n_feat, size=int(rng.integers(1, n_feat + 1)), replace=False):
                m[:, f] = True
            m |= rng.random((nv, n_feat)) < 0.15
        elif pat == 4:  # missing at the last visit for some features, observed before
            m[-1, :] = rng.random(n_feat) < 0.7
            m[:-1] = rng.random((nv - 1, n_feat)) < 0.15
        elif pat == 5:  # whole visits missing (incl. possibly the last one)
            m[rng.random(nv) < 0.4, :] = True
            if rng.random() < 0.5:
                m[-1, :] = True
        elif pat == 6:  # everything missing but one entry
            m[:] = True
            m[int(rng.integers(nv)), int(rng.integers(n_feat))] = False
        elif pat == 7 and rng.random() < 0.3:  # subject without any observation
            m[:] = True
        vals = vals.copy()
        vals[m] = np.nan
        hist[f"P{s:02d}"] = (ages, vals)
    rows = [[sid, a] + list(v) for sid, (ages, vals) in hist.items() for a, v in zip(ages, vals)]
    df = pd.DataFrame(rows, columns=["ID", "TIME"] + feats)
    df = df.iloc[rng.permutation(len(df))].reset_index(drop=True)  # unsorted input rows
    return hist, feats, df


def permute_dataset_visits(ds, rng):
    """Shuffle, in place and consistently, the visits of every individual of a real Dataset (ages become unsorted)."""
    import torch

    n_unsorted = 0
    for i, nv in enumerate(ds.n_visits_per_individual):
        nv = int(nv)
        if nv < 2:
            continue
        p = torch.as_tensor(rng.permutation(nv))
        ds.timepoints[i, :nv] = ds.timepoints[i, :nv][p].clone()
        ds.values[i, :nv] = ds.values[i, :nv][p].clone()
        ds.mask[i, :nv] = ds.mask[i, :nv][p].clone()
        t = ds.timepoints[i, :nv]
        if bool((t[1:] < t[:-1]).any()):
            n_unsorted += 1
    return n_unsorted


def _run_const(spec, ctx):
    import numpy as np

    from leaspy.io.data import Data, Dataset
    from leaspy.models import ConstantModel

    for i in ctx.cases(spec["n"]):
        rng = ctx.rng("const", spec["k"], i)
        hist, feats, df = gen_histories(rng)
        route = ("table", "table-keep-empty-visits", "permuted-dataset")[int(rng.integers(0, 3))]
        case = {"index": i, "route": route, "features": feats, "table": df.to_dict("list")}
        ctx.evaluated()
        # what the model is documented to see: float32 observations; empty visits dropped by the default reader
        seen = {}
        for sid, (ages, vals) in hist.items():
            v32 = vals.astype(np.float32).astype(np.float64)
            a32 = ages.astype(np.float32).astype(np.float64)
            if route != "table-keep-empty-visits":
                keep = ~np.isnan(v32).all(axis=1)
                a32, v32 = a32[keep], v32[keep]
            if len(a32):
                seen[sid] = (a32, v32)
        if not seen:
            ctx.count("const_empty_cohorts_skipped")
            continue
        try:
            if route == "table":
                inp = df
            elif route == "table-keep-empty-visits":
                inp = Dataset(Data.from_dataframe(df, drop_full_nan=False))
            else:
                inp = Dataset(Data.from_dataframe(df))
                ctx.count("const_unsorted_histories", permute_dataset_visits(inp, rng))
        except Exception as e:  # ingestion is C14's business
            ctx.count("setup_skipped")
            ctx.note(f"setup_skipped_{type(e).__name__}", str(e)[:200])
            continue
        if route != "permuted-dataset":
            # input rows of the table are shuffled: count subjects whose rows arrive out of age order
            for sid in seen:
                t = df.loc[df["ID"] == sid, "TIME"].to_numpy()
                if (np.diff(t) < 0).any():
                    ctx.count("const_shuffled_input_histories")
        for sid, (a, v) in seen.items():
            refs = [ref_constant(a, v, p) for p in PTYPES]
            if any(not np.array_equal(refs[0], r, equal_nan=True) for r in refs[1:]):
                ctx.distinct("const", route, a.tolist(), np.nan_to_num(v, nan=1e99).tolist())
            if len(a) == 1:
                ctx.count("const_single_visit_histories")
            if (a <= 0).any():
                ctx.count("const_nonpositive_time_histories")
            ctx.count("const_feature_entirely_missing", int(np.isnan(v).all(axis=0).sum()))
        ctx.count("const_histories", len(seen))

        for ptype in PTYPES:
            model = ConstantModel("constant")
            if len(feats) >= 2 and rng.random() < 0.35:
                # history of the model object: it was first used on the same features in another column order; the next personalisation
                # must still pair every feature with its own column
                try:
                    cols = [c for c in df.columns if c not in feats]
                    model.personalize(df[cols + feats[::-1]], "constant_prediction", prediction_type=IMPL_FALLBACK.get(ptype, DOC_NAME[ptype]))
                    ctx.count("const_model_reused_after_other_column_order")
                except Exception:
                    model = ConstantModel("constant")
            ip = None
            names = [DOC_NAME[ptype]] + ([IMPL_FALLBACK[ptype]] if ptype in IMPL_FALLBACK else [])
            for spelled in names:
                try:
                    ip = model.personalize(inp, "constant_prediction", prediction_type=spelled)
                    break
                except ValueError as e:
                    if "PredictionType" in str(e) and spelled == DOC_NAME[ptype]:
                        ctx.violation(
                            f"constant.{ptype}/documented-name-refused",
                            f"prediction_type={spelled!r} (the spelling of both docstrings) is refused: {e}",
                            dict(case, ptype=ptype),
                        )
                        continue
                    ctx.violation(f"constant.{ptype}/raises:{type(e).__name__}", f"personalize raised {e!r}", dict(case, ptype=ptype))
                    break
                except Exception as e:
                    ctx.violation(f"constant.{ptype}/raises:{type(e).__name__}", f"personalize raised {e!r}", dict(case, ptype=ptype))
                    break
            if ip is None:
                continue
            got_ids = set(ip._individual_parameters.keys()) if hasattr(ip, "_individual_parameters") else set(ip._indices)
            if got_ids != set(seen):
                ctx.violation(f"constant.{ptype}/subjects-differ", "personalised subjects differ from the subjects with visits",
                              dict(case, ptype=ptype), got=sorted(got_ids), expected=sorted(seen))
                continue
            if list(model.features) != feats:
                ctx.violation(f"constant.{ptype}/features-differ", "model features differ from the table's columns",
                              dict(case, ptype=ptype), got=list(model.features), expected=feats)
                continue
            for sid, (a, v) in seen.items():
                ref = ref_constant(a, v, ptype)
                d = ip[sid]
                got = np.array([float(np.asarray(d[f]).reshape(-1)[0]) if np.size(d[f]) == 1 else np.nan for f in feats])
                if set(d.keys()) != set(feats) or any(np.size(d[f]) != 1 for f in feats):
                    ctx.violation(f"constant.{ptype}/parameters-shape", "individual parameters are not one scalar per feature",
                                  dict(case, ptype=ptype, subject=sid), got={k: repr(x) for k, x in d.items()})
                    continue
                for f in range(len(feats)):
                    ctx.count("const_values_compared")
                    ctx.count(f"const_values_compared_{ptype}")
                    r, g = ref[f], got[f]
                    if r != r:
                        ctx.count("const_nan_expected")
                    if (r != r) != (g != g):
                        ctx.violation(
                            f"constant.{ptype}/nan-rule", f"{ptype}: NaN {'expected' if r != r else 'not expected'} but got {g}",
                            dict(case, ptype=ptype, subject=sid, feature=feats[f]), expected=r, got=g, ages=a, column=v[:, f])
                        continue
                    if r != r:
                        continue
                    if ptype == "mean":
                        obs = v[:, f][~np.isnan(v[:, f])]
                        tol = max(len(obs), 2) * EPS32 * float(np.abs(obs).max()) + 1e-45
                        ok = abs(g - r) <= tol
                    else:
                        ok = g == r
                    if not ok:
                        ctx.violation(
                            f"constant.{ptype}/wrong-value", f"{ptype}: expected {r!r} got {g!r}",
                            dict(case, ptype=ptype, subject=sid, feature=feats[f]), expected=r, got=g, ages=a, column=v[:, f])
            # ---- estimate: that constant, repeated, at any ages --------------------------------
            req = {}
            for sid, (a, v) in seen.items():
                if rng.random() < 0.7 or len(seen) == 1:
                    k = int(rng.integers(1, 9))
                    ages = np.concatenate([rng.uniform(a.min() - 30, a.max() + 30, size=k), rng.choice(a, size=int(rng.integers(0, 3)))])
                    if rng.random() < 0.5:
                        ages = np.concatenate([ages, ages[: int(rng.integers(1, 3))]])  # repeated
                    ages = ages[rng.permutation(len(ages))]
                    req[sid] = ages.tolist() if rng.random() < 0.5 else ages
            ip_used = ip
            if len(feats) >= 2 and (i + len(req)) % 2:
                # the same individual parameters held by a container that was filled from dicts written in another feature order
                from leaspy.io.outputs.individual_parameters import IndividualParameters as _IP

                ip_used = _IP()
                for sid_ in ip._indices:
                    d_ = ip[sid_]
                    ip_used.add_individual_parameters(sid_, {f_: d_[f_] for f_ in reversed(list(d_))})
                ctx.count("const_estimates_with_parameters_in_another_key_order")
            try:
                est = model.estimate(dict(req), ip_used)
            except Exception as e:
                ctx.violation(f"constant.estimate/raises:{type(e).__name__}", f"estimate raised {e!r}", dict(case, ptype=ptype),
                              request={k: list(map(float, x)) for k, x in req.items()})
                continue
            if set(est.keys()) != set(req):
                ctx.violation("constant.estimate/subjects-differ", "estimated subjects differ from the request", dict(case, ptype=ptype))
                continue
            for sid, ages in req.items():
                e = np.asarray(est[sid])
                d = ip[sid]
                const = np.array([np.float32(np.asarray(d[f]).reshape(-1)[0]) for f in feats], dtype=np.float32)
                ctx.count("const_estimate_rows", len(ages))
                if e.shape != (len(ages), len(feats)):
                    ctx.violation("constant.estimate/shape", f"shape {e.shape} != {(len(ages), len(feats))}",
                                  dict(case, ptype=ptype, subject=sid), ages=list(map(float, ages)))
                    continue
                exp = np.broadcast_to(const, e.shape)
                if not np.array_equal(e.astype(np.float64), exp.astype(np.float64), equal_nan=True):
                    ctx.violation("constant.estimate/not-the-constant-repeated",
                                  "estimate differs from the personalised constant repeated at every requested age",
                                  dict(case, ptype=ptype, subject=sid), ages=list(map(float, ages)), got=e, constant=const)
        if i < 2:
            ctx.sample({"route": route, "n_subjects": len(seen), "features": feats,
                        "first_history": {"ages": next(iter(seen.values()))[0], "values": next(iter(seen.values()))[1]}}, limit=1)


# =====================================================================================================
#                                               LME
# =====================================================================================================
class _Recorder:
    """Thin wrapper around statsmodels.MixedLM in the namespace of leaspy.algo.fit.lme_fit: records, never alters."""

    def __init__(self):
        self.rec = None

    def install(self):
        import numpy as np
        from statsmodels.regression.mixed_linear_model import MixedLM

        import leaspy.algo.fit.lme_fit as LF

        outer = self

        def recording_mixedlm(endog, exog, groups, exog_re=None, **kw):
            outer.rec = {
                "endog": np.array(endog, copy=True), "exog": np.array(exog, copy=True), "groups": np.array(groups, copy=True),
                "exog_re": None if exog_re is None else np.array(exog_re, copy=True), "init_kw": dict(kw), "fit_kw": None,
            }
            model = MixedLM(endog, exog, groups, exog_re, **kw)
            orig_fit = model.fit

            def fit(*a, **k):
                outer.rec["fit_kw"] = dict(k)
                outer.rec["fit_args"] = a
                return orig_fit(*a, **k)

            model.fit = fit
            return model

        if not hasattr(LF, "MixedLM"):
            return False
        LF.MixedLM = recording_mixedlm
        return True


def gen_lme_cohort(rng, n_sub, truth, prefix="S", one_visit_p=0.2, far=False, balanced=None):
    import numpy as np
    import pandas as pd

    b0, b1, L, noise, mag = truth
    rows = []
    for s in range(n_sub):
        nv = 1 if rng.random() < one_visit_p else int(rng.integers(2, 9))
        if balanced:
            nv = int(balanced)  # balanced design: every subject has the same number of visits (no padding in the tensor form)
        start = float(rng.uniform(50, 85)) + (float(rng.choice([-40, 40])) if far else 0.0)
        ages = np.round(start + np.cumsum(rng.uniform(0.3, 3.0, size=nv)), 3)
        re = L @ rng.normal(size=2)
        for t in ages:
            x = (t - 70.0) / 9.0
            rows.append([f"{prefix}{s:03d}", float(t), float(mag * (b0 + re[0] + (b1 + re[1]) * x + noise * rng.normal()))])
    df = pd.DataFrame(rows, columns=["ID", "TIME", "Y"])
    return df


def lme_truth(rng, slope):
    import numpy as np

    mag = float(rng.choice([1.0, 1.0, 0.01, 100.0]))
    s0 = float(rng.uniform(0.5, 1.5))
    s1 = float(rng.uniform(0.4, 1.2)) if slope else 0.0
    rho = float(rng.uniform(-0.6, 0.6)) if slope else 0.0
    cov = np.array([[s0 * s0, rho * s0 * s1], [rho * s0 * s1, s1 * s1]])
    L = np.linalg.cholesky(cov + 1e-12 * np.eye(2))
    return (float(rng.uniform(-2, 2)), float(rng.uniform(-1, 1)), L, float(rng.uniform(0.1, 0.5)), mag)


def per_subject(ds):
    """id -> (ages float64, y float64) of the observed (non-NaN) visits of a real Dataset (float32 content)."""
    import numpy as np

    out = {}
    for i, sid in enumerate(ds.indices):
        nv = int(ds.n_visits_per_individual[i])
        t = ds.timepoints[i, :nv].numpy().astype(np.float64)
        y = ds.values[i, :nv, 0].numpy().astype(np.float64)
        ok = ds.mask[i, :nv, 0].numpy() > 0
        out[str(sid)] = (t[ok], y[ok])
    return out


def closed_form(t, y, P, use_statement_form):
    """Conditional mean of the random effects, float64, from the fitted variance components only."""
    import numpy as np

    mu, sd, beta = P["ages_mean"], P["ages_std"], np.asarray(P["fe_params"], float)
    k = P["k_re"]
    a = (np.asarray(t, float) - mu) / sd
    X = np.column_stack([np.ones_like(a), a])
    Z = X[:, :k]
    r = np.asarray(y, float) - X @ beta
    Psi = P["psi_unscaled"]  # cov_re / noise_std**2
    if len(a) == 0:
        return np.zeros(k)
    if use_statement_form:
        return np.linalg.solve(Z.T @ Z + np.linalg.inv(Psi), Z.T @ r)
    # algebraically identical (push-through identity), stable for nearly singular Psi
    return Psi @ Z.T @ np.linalg.solve(Z @ Psi @ Z.T + np.eye(len(a)), r)


def _ip_vector(d, k):
    import numpy as np

    keys = ["random_intercept", "random_slope_age"][:k]
    return np.array([float(np.asarray(d[x]).reshape(-1)[0]) for x in keys])


def _conv_kinds(ws):
    out = []
    for w in ws:
        if w.category.__name__ in ("ConvergenceWarning", "SingularMatrixWarning"):
            msg = str(w.message)
            if "boundary" in msg:
                out.append("boundary")
            elif "singular" in msg.lower():
                out.append("singular-during-optimisation")
            elif "Retrying" in msg:
                out.append("retry")
            else:
                out.append("not-converged")
    return out


def _no_observation_monitor(ctx, model, ds_full, zero_ids, k_re, case):
    """Subjects whose visits are all missing (kept by drop_full_nan=False): the conditional mean given no data is 0."""
    import numpy as np

    ctx.count("lme_no_observation_probes")
    try:
        ip = model.personalize(ds_full, "lme_personalize")
    except Exception as e:
        ctx.violation(f"lme.personalize/subject-without-observation/raises:{type(e).__name__}",
                      f"personalize of a cohort containing a subject whose visits are all missing raised {e!r}",
                      dict(case, subjects_without_observation=zero_ids))
        return
    for sid in zero_ids:
        b = _ip_vector(ip[sid], k_re)
        ctx.count("lme_no_observation_subjects")
        if not np.all(b == 0):
            ctx.violation("lme.personalize/subject-without-observation/non-zero",
                          f"subject {sid} has no observation but random effects {b.tolist()} (conditional mean is 0)",
                          dict(case, subjects_without_observation=zero_ids))
            return


def _run_lme(spec, ctx):
    import warnings

    import numpy as np
    from statsmodels.regression.mixed_linear_model import MixedLM, MixedLMParams

    from leaspy.exceptions import LeaspyDataInputError
    from leaspy.io.data import Data, Dataset
    from leaspy.models import LMEModel

    recorder = _Recorder()
    if not recorder.install():
        ctx.inconclusive_because("leaspy.algo.fit.lme_fit no longer exposes MixedLM: the construction cannot be recorded")
        return

    shard_worst = {"vs_statsmodels": 0.0, "vs_closed_form": 0.0}
    for i in ctx.cases(spec["n"]):
        rng = ctx.rng("lme", spec["k"], i)
        slope = bool(rng.random() < 0.6)
        indep = bool(slope and rng.random() < 0.35)
        reml = [None, None, False, True][int(rng.integers(0, 4))]
        method = [["lbfgs", "bfgs", "powell"], ["lbfgs", "bfgs", "powell"], ["lbfgs"], ["bfgs"]][int(rng.integers(0, 4))]
        keep_nan = bool(rng.random() < 0.4)
        n_sub = int(rng.integers(5, 61))
        truth = lme_truth(rng, slope)
        balanced = int(rng.integers(2, 7)) if (spec["k"] + i) % 5 == 0 else None
        if balanced:
            keep_nan = False
            ctx.count("lme_balanced_complete_cohorts")
        df = gen_lme_cohort(rng, n_sub, truth, balanced=balanced)
        if keep_nan:
            miss = rng.random(len(df)) < 0.15
            df.loc[miss, "Y"] = np.nan
        df = df.iloc[rng.permutation(len(df))].reset_index(drop=True)
        case = {"index": i, "slope": slope, "independent": indep, "reml": reml, "method": method, "keep_nan": keep_nan,
                "n_subjects": n_sub, "table": df.to_dict("list")}
        ctx.evaluated()
        try:
            ds = Dataset(Data.from_dataframe(df, drop_full_nan=not keep_nan))
        except Exception as e:
            ctx.count("setup_skipped")
            ctx.note(f"setup_skipped_{type(e).__name__}", str(e)[:200])
            continue
        subj = per_subject(ds)
        opts = {"method": list(method)}
        if reml is not None:
            opts["reml"] = reml

        # ---------------- the real fit, recorded -------------------------------------------------
        recorder.rec = None
        model = LMEModel("lme", with_random_slope_age=slope)
        fit_exc = None
        with warnings.catch_warnings(record=True) as w_fit:
            warnings.simplefilter("always")
            try:
                model.fit(ds, "lme_fit", force_independent_random_effects=indep, **opts)
            except Exception as e:
                fit_exc = e
        rec = recorder.rec

        # ---------------- the independent fit with the documented options ------------------------
        def harness_fit():
            kw = dict(opts)
            if slope and indep:
                kw["free"] = MixedLMParams.from_components(fe_params=np.ones(2), cov_re=np.eye(2))
            with warnings.catch_warnings(record=True) as w:
                warnings.simplefilter("always")
                res = MixedLM(rec["endog"], rec["exog"], rec["groups"], rec["exog_re"], missing="raise").fit(**kw)
            return res, w

        if fit_exc is not None:
            if rec is None:
                ctx.violation(f"lme.fit/raises-before-statsmodels:{type(fit_exc).__name__}",
                              f"fit of a valid univariate cohort raised {fit_exc!r}", case)
                continue
            if isinstance(fit_exc, LeaspyDataInputError) and "singular" in str(fit_exc):
                ctx.count("lme_skipped_documented_singular_refusal")
                continue
            try:
                harness_fit()
            except Exception:
                ctx.count("lme_skipped_statsmodels_raises")
                continue
            ctx.violation(f"lme.fit/raises:{type(fit_exc).__name__}",
                          f"fit raised {fit_exc!r} although statsmodels fits the same arrays", case)
            continue
        if rec is None or rec.get("fit_kw") is None:
            ctx.inconclusive_because("the real fit did not go through the recorded MixedLM construction")
            continue

        P = dict(model.parameters)
        k_re = 2 if slope else 1
        ctx.count("lme_random_slope_cohorts" if slope else "lme_random_intercept_cohorts")
        if indep:
            ctx.count("lme_independent_cov_cohorts")
        if keep_nan:
            ctx.count("lme_cohorts_with_retained_nan_visits")

        # ---------------- design monitor: recorded arrays == documented design -------------------
        all_t = np.concatenate([t for t, _ in subj.values()])
        mu64, sd64 = float(all_t.mean()), float(all_t.std())
        ulp = float(np.spacing(np.float32(np.abs(all_t).max())))
        atol_a = 8 * ulp / sd64 + 8 * EPS32 * float(np.abs((all_t - mu64) / sd64).max())
        ctx.count("lme_design_checks")
        problems = []
        if abs(P["ages_mean"] - mu64) > 8 * ulp:
            problems.append(f"ages_mean {P['ages_mean']!r} != mean of observed ages {mu64!r}")
        if abs(P["ages_std"] - sd64) > 1e-5 * sd64 + 8 * ulp:
            problems.append(f"ages_std {P['ages_std']!r} != std of observed ages {sd64!r}")
        g = rec["groups"].astype(str)
        X = np.asarray(rec["exog"], float)
        yy = np.asarray(rec["endog"], float).reshape(-1)
        if X.ndim != 2 or X.shape[1] != 2 or len(yy) != len(all_t) or len(g) != len(yy) or X.shape[0] != len(yy):
            problems.append(f"design shapes endog {yy.shape} exog {X.shape} groups {g.shape}, expected {len(all_t)} observations x 2")
        else:
            if not np.all(X[:, 0] == 1.0):
                problems.append("first design column is not the constant 1")
            if set(g) != {s for s, (t, _) in subj.items() if len(t)}:
                problems.append("groups are not the subjects with observations")
            else:
                for sid, (t, y) in subj.items():
                    sel = g == sid
                    if len(t) == 0:
                        continue
                    if sel.sum() != len(t):
                        problems.append(f"subject {sid}: {int(sel.sum())} rows for {len(t)} observed visits")
                        break
                    o_r, o_e = np.argsort(X[sel, 1]), np.argsort(t)
                    if not np.array_equal(yy[sel][o_r], y[o_e]):
                        problems.append(f"subject {sid}: endog is not the observed values")
                        break
                    if np.abs(X[sel, 1][o_r] - (t[o_e] - mu64) / sd64).max() > atol_a:
                        problems.append(f"subject {sid}: second design column is not (age-mean)/std")
                        break
        if (rec["exog_re"] is None) != (not slope):
            problems.append(f"exog_re {'absent' if rec['exog_re'] is None else 'present'} with with_random_slope_age={slope}")
        elif slope and not np.array_equal(np.asarray(rec["exog_re"], float), X):
            problems.append("exog_re differs from the fixed-effects design")
        fk = rec["fit_kw"]
        if ("free" in fk and fk["free"] is not None) != (slope and indep):
            problems.append(f"`free` {'given' if 'free' in fk else 'not given'} with force_independent_random_effects={indep}")
        elif slope and indep:
            fr = fk["free"]
            if not (np.array_equal(np.asarray(fr.cov_re), np.eye(2)) and np.all(np.asarray(fr.fe_params) == 1)):
                problems.append("`free` pattern is not (all fixed effects, diagonal covariance)")
        for kk, vv in opts.items():
            if fk.get(kk) != vv:
                problems.append(f"fit option {kk}={vv!r} not passed to statsmodels (got {fk.get(kk)!r})")
        if problems:
            ctx.violation("lme.fit/design-differs-from-documented", "; ".join(problems[:3]), case)
            continue

        # stored variance components (the reference never reads cov_re_unscaled_inv)
        try:
            beta = np.asarray(P["fe_params"], float).reshape(-1)
            cov_re = np.asarray(P["cov_re"], float).reshape(k_re, k_re)
            noise = float(P["noise_std"])
            assert beta.shape == (2,) and noise > 0 and np.isfinite(cov_re).all() and np.isfinite(beta).all()
        except Exception as e:
            ctx.violation("lme.fit/parameters-malformed", f"stored parameters unusable: {e!r}", case,
                          parameters={k: repr(v) for k, v in P.items()})
            continue
        psi_u = cov_re / noise ** 2
        cond = float(np.linalg.cond(psi_u)) if np.all(np.isfinite(psi_u)) and np.abs(psi_u).max() > 0 else math.inf
        R = {"ages_mean": float(P["ages_mean"]), "ages_std": float(P["ages_std"]), "fe_params": beta, "k_re": k_re, "psi_unscaled": psi_u}
        sb = float(np.sqrt(np.abs(np.diag(cov_re)).max()))  # scale of the random effects

        # ---------------- statsmodels' own conditional means -------------------------------------
        sm_re = None
        try:
            res, w_h = harness_fit()
        except Exception as e:
            ctx.count("lme_skipped_statsmodels_raises")
            ctx.note(f"harness_fit_{type(e).__name__}", str(e)[:200])
            res = None
        if res is not None:
            kinds = sorted(set(_conv_kinds(w_fit) + _conv_kinds(w_h)))
            same_fit = (
                np.allclose(res.fe_params, beta, rtol=1e-6, atol=1e-9 * max(1.0, float(np.abs(beta).max())))
                and np.allclose(np.asarray(res.cov_re), cov_re, rtol=1e-6, atol=1e-9 * sb * sb)
                and abs(res.scale ** 0.5 - noise) <= 1e-6 * noise
            )
            if kinds:
                for kd in kinds:
                    ctx.count(f"lme_skipped_statsmodels_warning_{kd}")
                ctx.count("lme_cohorts_not_judged_vs_statsmodels")
            elif not cond <= 1e8:
                ctx.count("lme_skipped_ill_conditioned_cov_re")
                ctx.count("lme_cohorts_not_judged_vs_statsmodels")
            elif not same_fit:
                ctx.violation("lme.fit/parameters-differ-from-statsmodels",
                              "fe_params / cov_re / noise_std differ from an independent statsmodels fit of the same arrays with the documented options",
                              case, leaspy={"fe": beta, "cov_re": cov_re, "noise_std": noise},
                              statsmodels={"fe": res.fe_params, "cov_re": np.asarray(res.cov_re), "noise_std": res.scale ** 0.5})
                continue
            else:
                try:
                    sm_re = {str(k): np.asarray(v, float).reshape(-1) for k, v in res.random_effects.items()}
                except ValueError as e:
                    if "singular" in str(e):
                        ctx.count("lme_skipped_statsmodels_singular_refusal")
                    else:
                        raise

        # ---------------- the real personalisation on the training subjects ---------------------
        zero_ids = [sid for sid, (t, _) in subj.items() if len(t) == 0]
        df_j = df[~df["ID"].isin(zero_ids)].reset_index(drop=True) if zero_ids else df
        subj = {sid: v for sid, v in subj.items() if sid not in zero_ids}
        if zero_ids:
            _no_observation_monitor(ctx, model, ds, zero_ids, k_re, dict(case, who="training"))
        train_route = ("dataset", "table", "permuted-dataset")[int(rng.integers(0, 3))]
        if balanced:
            train_route = "dataset"  # the very Dataset object the model was fitted on
        if train_route == "dataset":
            inp = ds if not zero_ids else Dataset(Data.from_dataframe(df_j, drop_full_nan=not keep_nan))
        elif train_route == "table" and not keep_nan:
            inp = df_j
        else:
            train_route = "permuted-dataset"
            inp = Dataset(Data.from_dataframe(df_j, drop_full_nan=not keep_nan))
            permute_dataset_visits(inp, rng)
        ctx.count(f"lme_train_route_{train_route}")
        try:
            ip = model.personalize(inp, "lme_personalize")
        except Exception as e:
            ctx.violation(f"lme.personalize/raises:{type(e).__name__}", f"personalize on the training cohort raised {e!r}",
                          dict(case, route=train_route))
            continue
        use_statement_form = cond <= 1e8
        judged_cf = cond <= 1e10
        if not judged_cf:
            ctx.count("lme_closed_form_not_judged_singular_cov_re")
        worst_sm, worst_cf = 0.0, 0.0
        bs = {}
        bad = False
        for sid, (t, y) in subj.items():
            try:
                d = ip[sid]
                b = _ip_vector(d, k_re)
                if set(d.keys()) != set(["random_intercept", "random_slope_age"][:k_re]):
                    raise KeyError(f"parameter names {sorted(d.keys())}")
            except Exception as e:
                ctx.violation("lme.personalize/parameters-malformed", f"subject {sid}: {e!r}", dict(case, route=train_route))
                bad = True
                break
            bs[sid] = b
            if len(t) == 1:
                ctx.count("lme_one_visit_subjects")
            if sm_re is not None and sid in sm_re:
                ctx.count("lme_subjects_vs_statsmodels")
                ref = sm_re[sid]
                # 1e-6 relative to the subject's effect vector (components of very different size share the error of one solve)
                err = float(np.max(np.abs(b - ref)) - 1e-6 * max(float(np.abs(b).max()), float(np.abs(ref).max())) - 1e-9 * sb)
                worst_sm = max(worst_sm, float(np.max(np.abs(b - ref)) / sb))
                if not err <= 0:
                    ctx.violation("lme.personalize/differs-from-statsmodels-random-effects",
                                  f"subject {sid}: {b.tolist()} vs statsmodels {ref.tolist()}",
                                  dict(case, route=train_route), subject=sid, ages=t, y=y, cond_cov_re_unscaled=cond)
                    bad = True
                    break
            if judged_cf:
                ctx.count("lme_subjects_vs_closed_form")
                ref = closed_form(t, y, R, use_statement_form)
                tol = 2e-4 * max(float(np.abs(ref).max()), float(np.abs(b).max())) + 2e-5 * sb
                worst_cf = max(worst_cf, float(np.max(np.abs(b - ref)) / sb))
                if not np.all(np.abs(b - ref) <= tol):
                    ctx.violation("lme.personalize/differs-from-closed-form",
                                  f"subject {sid} ({len(t)} obs): {b.tolist()} vs (Z'Z+Psi^-1)^-1 Z'r = {ref.tolist()}",
                                  dict(case, route=train_route), subject=sid, ages=t, y=y, cond_cov_re_unscaled=cond,
                                  parameters={k: v for k, v in P.items()})
                    bad = True
                    break
        if bad:
            continue
        if sm_re is not None:
            ctx.count("lme_cohorts_judged_vs_statsmodels")
            if set(sm_re) - set(bs):
                ctx.violation("lme.personalize/subjects-missing", "training subjects known to statsmodels are absent", case)
                continue
        shard_worst["vs_statsmodels"] = max(shard_worst["vs_statsmodels"], worst_sm)
        shard_worst["vs_closed_form"] = max(shard_worst["vs_closed_form"], worst_cf)
        ctx.note(f"worst_abs_diff_over_re_scale[{spec['name']}]", dict(shard_worst))
        if judged_cf or sm_re is not None:
            ctx.distinct("lme", slope, indep, reml, method, keep_nan, df.to_dict("list"))

        # ---------------- trajectories: straight lines in age ------------------------------------
        def check_traj(ip_, ids, tag):
            req = {}
            for sid in ids:
                kq = int(rng.integers(1, 8))
                ages = np.concatenate([rng.uniform(30, 110, size=kq), [R["ages_mean"]] if rng.random() < 0.2 else []])
                if rng.random() < 0.5:
                    ages = np.concatenate([ages, ages[:2]])
                ages = ages[rng.permutation(len(ages))]
                req[sid] = ages.tolist() if rng.random() < 0.5 else ages
            try:
                est = model.estimate(dict(req), ip_)
            except Exception as e:
                ctx.violation(f"lme.estimate/raises:{type(e).__name__}", f"estimate raised {e!r}", dict(case, who=tag))
                return
            for sid, ages in req.items():
                a = (np.asarray(ages, float) - R["ages_mean"]) / R["ages_std"]
                b = np.zeros(2)
                b[:k_re] = _ip_vector(ip_[sid], k_re)
                c = beta + b
                ref = c[0] + c[1] * a
                e = np.asarray(est[sid], float)
                ctx.count("lme_trajectory_points", len(a))
                if e.shape != (len(a), 1):
                    ctx.violation("lme.estimate/shape", f"shape {e.shape} != {(len(a), 1)}", dict(case, who=tag), subject=sid)
                    return
                tol = 2 * EPS32 * (np.abs(c[0]) + np.abs(c[1] * a)) + 1e-12 * sb
                if not np.all(np.abs(e[:, 0] - ref) <= tol):
                    ctx.violation("lme.estimate/not-the-straight-line",
                                  f"subject {sid}: trajectory differs from (beta+b).[1,(age-mean)/std]",
                                  dict(case, who=tag), subject=sid, ages=list(map(float, ages)), got=e[:, 0], expected=ref,
                                  beta=beta, b=b, ages_mean=R["ages_mean"], ages_std=R["ages_std"])
                    return

        ids = list(subj)
        check_traj(ip, [ids[int(j)] for j in rng.choice(len(ids), size=min(6, len(ids)), replace=False)], "training")

        # ---------------- new (non-training) subjects against the closed form --------------------
        if judged_cf:
            n_new = int(rng.integers(3, 13))
            far = bool(rng.random() < 0.25)
            df_new = gen_lme_cohort(rng, n_new, truth, prefix="N", one_visit_p=0.3, far=far)
            new_nan = bool(rng.random() < 0.4)
            if new_nan:
                df_new.loc[rng.random(len(df_new)) < 0.25, "Y"] = np.nan
            df_new = df_new.iloc[rng.permutation(len(df_new))].reset_index(drop=True)
            case_n = dict(case, new_table=df_new.to_dict("list"), new_keep_nan=new_nan)
            try:
                ds_new = Dataset(Data.from_dataframe(df_new, drop_full_nan=not new_nan))
            except Exception as e:
                ctx.count("setup_skipped")
                ctx.note(f"setup_skipped_new_{type(e).__name__}", str(e)[:200])
                continue
            subj_new = per_subject(ds_new)
            zero_new = [sid for sid, (t, _) in subj_new.items() if len(t) == 0]
            if zero_new:
                _no_observation_monitor(ctx, model, ds_new, zero_new, k_re, dict(case_n, who="new"))
                subj_new = {sid: v for sid, v in subj_new.items() if sid not in zero_new}
                if not subj_new:
                    continue
                ds_new = Dataset(Data.from_dataframe(df_new[~df_new["ID"].isin(zero_new)], drop_full_nan=not new_nan))
            if rng.random() < 0.4:
                permute_dataset_visits(ds_new, rng)
            try:
                ip_new = model.personalize(ds_new, "lme_personalize")
            except Exception as e:
                ctx.violation(f"lme.personalize/raises:{type(e).__name__}", f"personalize on new subjects raised {e!r}", case_n)
                continue
            ok = True
            for sid, (t, y) in subj_new.items():
                try:
                    b = _ip_vector(ip_new[sid], k_re)
                except Exception as e:
                    ctx.violation("lme.personalize/parameters-malformed", f"new subject {sid}: {e!r}", case_n)
                    ok = False
                    break
                ctx.count("lme_new_subjects_vs_closed_form")
                if len(t) == 1:
                    ctx.count("lme_one_visit_subjects")
                if len(t) == 0:
                    ctx.count("lme_no_observation_subjects")
                ref = closed_form(t, y, R, use_statement_form)
                tol = 2e-4 * max(float(np.abs(ref).max()), float(np.abs(b).max())) + 2e-5 * sb
                shard_worst["new_vs_closed_form"] = max(shard_worst.get("new_vs_closed_form", 0.0), float(np.max(np.abs(b - ref)) / sb))
                if not np.all(np.abs(b - ref) <= tol):
                    ctx.violation("lme.personalize/differs-from-closed-form",
                                  f"new subject {sid} ({len(t)} obs): {b.tolist()} vs (Z'Z+Psi^-1)^-1 Z'r = {ref.tolist()}",
                                  case_n, subject=sid, ages=t, y=y, cond_cov_re_unscaled=cond, parameters={k: v for k, v in P.items()})
                    ok = False
                    break
            if ok:
                check_traj(ip_new, list(subj_new)[:4], "new")
        if i < 1:
            ctx.sample({"slope": slope, "independent": indep, "reml": reml, "method": method, "n_subjects": n_sub,
                        "n_rows": len(df), "fe_params": beta, "cov_re": cov_re, "noise_std": noise,
                        "cond_cov_re_unscaled": cond, "judged_vs_statsmodels": sm_re is not None}, limit=1)
    ctx.note(f"worst_abs_diff_over_re_scale[{spec['name']}]", dict(shard_worst))
