"""C18 — simulation honours the requested design.  DESIGN §2/C18.

Oracle: runtime monitors around the real ``model.simulate(algorithm="simulate", ...)``:

* postcondition monitor on the returned ``Result`` (individual count / IDs, ages unique + strictly increasing + on the
  documented rounding grid, table-driven ages == rounded input ages, random ages == rounded *recorded* generated ages,
  finite values in [0, 1] for every requested feature, one row of individual parameters per simulated individual);
* termination monitor: a tap on ``numpy.random.normal`` counts the draws made inside the real
  ``SimulationAlgorithm._generate_visit_ages``; the per-subject logical budget is
  ``100 * follow_up_i / |distance_visit_mean| + 1000`` draws, where ``follow_up_i`` is the *recorded* follow-up draw of the
  subject.  In flight the tap raises a private ``BaseException`` as soon as the total exceeds the sum of the subjects'
  budgets (then at least one subject exceeded its own); after return each subject is compared with its own budget.
  No wall clock is involved;
* refusal monitor: a design that violates a documented requirement must raise ``LeaspyAlgoInputError`` with zero tapped
  draws (``numpy.random.normal``, ``scipy.stats.beta.rvs``) and an untouched global numpy generator.

A design is *admissible* iff the documented requirements of the algorithm's validator (``_check_features``,
``_check_params``, ``_validate_algo_parameters`` + class docstring) accept it.
"""
from __future__ import annotations

import contextlib
import io
import math
import os
import traceback
import warnings

RULE = (
    "a case = one hand-parameterised LogisticModel (dimension 1-5, 0-2 sources, diagonal / scalar noise in the loaded (1,) and "
    "the fitted 0-d form, regimes typical / large-noise / tiny-noise / extreme-g / fast-progression, built with load_parameters "
    "exactly as BaseModel.load does) x one design of a class in {random admissible, table admissible, non-positive drift, "
    "feature-list gap (wrong count / duplicates), inadmissible (one documented requirement violated)} x seed (given or None); "
    "everything is derived from ctx.rng('c18', index); the first 37 indices of each shard sweep the 37 inadmissible variants. distinct = distinct (model signature, design class, discretised design "
    "parameters); non-trivial = the case reached a deciding monitor (postconditions on a returned Result, the step budget, or "
    "the refusal monitor)"
)
REQUIRED = {
    "non_logistic_models_refused": 3,
    "postcond_random": 100,
    "postcond_table": 60,
    "refusal_judged": 100,
    "termination_judged": 100,
    "visit_age_draws_tapped": 3000,
    "ages_vs_recorded_generation": 100,
    "table_ages_vs_rounded_input": 60,
    "values_checked": 5000,
    "clamp_path_cases": 10,
}
ASSUMPTIONS = [
    "admissible = accepted by the documented requirements of the validator; design numbers are finite python int/float; visit "
    "tables have >= 1 row, finite float TIME and are passed without min_spacing_between_visits (documented for 'random' only, so "
    "the default 1/365 -> 3 decimals applies)",
    "for min_spacing_between_visits < 0.001 the documentation names no precision: either the finest documented one (3 decimals) "
    "or no rounding is accepted, uniqueness and monotonicity are still required",
    "positive-drift designs have distance_visit_std <= 2 * distance_visit_mean (the budget 100*F/mean+1000 is then unreachable "
    "for a terminating walk); distance_visit_mean == 0 with positive std is run under a hard cap of 200000 draws and not judged "
    "on termination",
    "classes the validator accepts but whose admissibility the documentation leaves open (feature count != model dimension, "
    "duplicated feature names, distance_visit_mean <= 0 with positive std) may either be refused cleanly up front or complete "
    "with all postconditions; anything else is a violation",
    "models are made 'initialized' the way BaseModel.load does (load_parameters + _is_initialized=True); the fitted 0-d form of a "
    "scalar noise_std is emulated by assigning a 0-d tensor to the state",
    "in-flight budget is the sum over subjects (pigeonhole-sound); per-subject budgets are checked after return",
    "model parameters keep model.estimate finite in float32 at the generated ages (|log_g| <= 14; at |log_g| = 30 estimate itself "
    "returns NaN, which is the trajectory's domain, not the simulation's)",
]

HARD_CAP = 200_000
PRECISIONS = (1, 0.1, 0.01, 0.001)  # documented rounding grid: 0, 1, 2, 3 decimals


def shards(tier, seed):
    if tier == "quick":
        return [{"name": f"mix-{k}", "n": 400, "budget_s": 150, "max_rows": 500, "timeout": 900} for k in range(16)]
    return [{"name": f"mix-{k}", "n": 6000, "budget_s": 780, "max_rows": 4000, "timeout": 3000} for k in range(16)]


class _StepBudgetExceeded(BaseException):
    """Raised by the tap (BaseException: cannot be swallowed by an ``except Exception`` in the code under test)."""


class _Tap:
    def __init__(self):
        self.reset(None)

    def reset(self, drift_mean):
        self.drift_mean = drift_mean
        self.phase = None
        self.normal_calls = 0
        self.beta_calls = 0
        self.steps = 0  # scalar normal draws inside _generate_visit_ages
        self.vec = []  # vector normal draws inside _generate_visit_ages
        self.budget = float(HARD_CAP)
        self.sub_budgets = None
        self.timepoints = None
        self.ip_df = None
        self.reached = set()
        self.cap_only = False


TAP = _Tap()
_installed = {}


def install_tap():
    """Wrap the numpy / scipy RNG entry points used by the algorithm and its three pipeline stages (idempotent)."""
    if _installed:
        return
    import numpy as np

    import leaspy.algo.simulate.simulate as sim_mod
    from leaspy.algo.simulate.simulate import SimulationAlgorithm

    orig_normal = np.random.normal

    def tapped_normal(*a, **k):
        out = orig_normal(*a, **k)
        TAP.normal_calls += 1
        if TAP.phase == "visit_ages":
            if np.ndim(out) == 0:
                TAP.steps += 1
                if TAP.steps > TAP.budget:
                    raise _StepBudgetExceeded(f"{TAP.steps} scalar draws > budget {TAP.budget:.0f}")
            else:
                TAP.vec.append(np.array(out, dtype=float, copy=True))
                if len(TAP.vec) == 2:  # documented order: first-visit offsets, then follow-up durations
                    fu = np.abs(TAP.vec[1])
                    m = TAP.drift_mean
                    if m is None or m == 0 or not np.all(np.isfinite(fu)):
                        TAP.cap_only = True
                        TAP.budget = float(HARD_CAP)
                    else:
                        TAP.sub_budgets = 100.0 * fu / abs(m) + 1000.0
                        TAP.budget = float(TAP.sub_budgets.sum())
        return out

    np.random.normal = tapped_normal

    class BetaProxy:
        def __init__(self, dist):
            self._dist = dist

        def rvs(self, *a, **k):
            TAP.beta_calls += 1
            return self._dist.rvs(*a, **k)

        def __getattr__(self, name):
            return getattr(self._dist, name)

    sim_mod.beta = BetaProxy(sim_mod.beta)

    orig_ages = SimulationAlgorithm._generate_visit_ages

    def ages_wrapper(self, df):
        TAP.phase = "visit_ages"
        TAP.reached.add("visit_ages")
        TAP.steps = 0
        TAP.vec = []
        try:
            out = orig_ages(self, df)
        finally:
            TAP.phase = None
        TAP.timepoints = {str(k): [float(t) for t in v] for k, v in out.items()}
        return out

    SimulationAlgorithm._generate_visit_ages = ages_wrapper

    orig_ip = SimulationAlgorithm._sample_individual_parameters_from_model_parameters

    def ip_wrapper(self, model):
        TAP.reached.add("sample_ip")
        out = orig_ip(self, model)
        TAP.ip_df = out
        return out

    SimulationAlgorithm._sample_individual_parameters_from_model_parameters = ip_wrapper

    orig_ds = SimulationAlgorithm._generate_dataset

    def ds_wrapper(self, *a, **k):
        TAP.reached.add("dataset")
        return orig_ds(self, *a, **k)

    SimulationAlgorithm._generate_dataset = ds_wrapper
    _installed["ok"] = True


# ------------------------------------------------------------------------------------------------ generators
FEATURE_POOL = ["Y0", "Y1", "Y2", "Y3", "Y4", "MMSE", "adas cog", "putamen_L", "x", "FeatureWithALongName", "é", "A-1"]


def gen_model(r):
    """Return (factory, meta) for a hand-written admissible logistic model."""
    import numpy as np

    dim = int(r.choice([1, 2, 3, 4, 5], p=[0.06, 0.26, 0.28, 0.2, 0.2]))
    if dim == 1:
        src = 0
    else:
        src = int(r.choice([0, 1, 2], p=[0.12, 0.48, 0.40]))
        src = min(src, dim - 1)
    noise = str(r.choice(["diag", "scalar0d", "scalar1"], p=[0.58, 0.30, 0.12]))
    regime = str(r.choice(["typical", "large_noise", "tiny_noise", "extreme_g", "fast"], p=[0.4, 0.2, 0.08, 0.2, 0.12]))
    p = {
        "tau_mean": float(r.uniform(40, 90)),
        "tau_std": float(r.choice([0.5, 3.0, 8.0, 15.0])),
        "xi_std": float(r.uniform(0.05, 1.0)),
        "log_g_mean": [float(x) for x in r.normal(0.5, 1.2, size=dim)],
        "log_v0_mean": [float(x) for x in r.normal(-3.0, 0.8, size=dim)],
    }
    ns = np.exp(r.uniform(np.log(0.01), np.log(0.2), size=dim))
    if regime == "large_noise":
        ns = r.choice([0.5, 1.0, 2.0, 30.0], size=dim)
    elif regime == "tiny_noise":
        ns = np.full(dim, 1e-3)
    elif regime == "extreme_g":
        p["log_g_mean"] = [float(x) for x in r.choice([-14.0, -8.0, -4.0, 4.0, 8.0, 14.0], size=dim)]
    elif regime == "fast":
        p["log_v0_mean"] = [float(x) for x in r.uniform(0.0, 3.0, size=dim)]
        p["xi_std"] = float(r.uniform(1.0, 3.0))
    if noise == "diag":
        p["noise_std"] = [float(x) for x in ns]
    else:
        p["noise_std"] = float(ns[0])
    if src > 0:
        p["betas_mean"] = [[float(x) for x in row] for row in r.normal(0, 0.5, size=(dim - 1, src))]
    names = [str(x) for x in r.choice(FEATURE_POOL, size=dim, replace=False)]
    meta = {"dim": dim, "src": src, "noise": noise, "regime": regime, "params": p, "model_features": names}

    def factory():
        import torch

        from leaspy.models import LogisticModel

        m = LogisticModel(
            "logistic", dimension=dim, features=list(names), source_dimension=src,
            obs_models="gaussian-diagonal" if noise == "diag" else "gaussian-scalar",
        )
        m.load_parameters(dict(p))
        m._is_initialized = True  # what BaseModel.load does after load_parameters
        if noise == "scalar0d":
            m.state["noise_std"] = torch.tensor(float(p["noise_std"]))  # shape produced by a fit
        return m

    return factory, meta


def _maybe_int(r, x):
    """Numbers are documented as int or float: hand some whole values over as python ints."""
    if float(x).is_integer() and r.random() < 0.5:
        return int(x)
    return float(x)


def gen_random_design(r, max_rows, drift="positive"):
    pn = int(r.choice([1, 2, 3, 5, 8, 12, 20, 50], p=[0.07, 0.12, 0.2, 0.22, 0.17, 0.12, 0.07, 0.03]))
    mean = float(r.choice([0.05, 0.1, 2 / 12, 0.5, 1.0, 1.5, 3.0]))
    if r.random() < 0.3:
        mean = float(round(r.uniform(0.05, 3.0), 3))
    std = float(r.choice([0.0, 0.0, 0.1, 0.5, 1.0, 2.0])) * mean
    fu = float(r.choice([0.0, 0.3, 2.0, 5.0, 11.0, 20.0]))
    fu_std = float(r.choice([0.0, 0.5, 3.0]))
    if drift == "negative":
        mean = -max(mean, 0.25)
        std = abs(mean) * float(r.choice([0.2, 0.5, 1.0, 2.0]))
        fu = float(r.choice([2.0, 5.0]))
        pn = min(pn, 3)
    elif drift == "zero":
        mean = 0 if r.random() < 0.5 else 0.0
        std = float(r.choice([0.1, 0.5, 1.0]))
        fu = float(r.choice([0.3, 2.0]))
        pn = min(pn, 3)
    # keep the table size bounded: expected rows = pn * (fu / mean + 1)
    while drift == "positive" and pn * (fu / mean + 1) > max_rows and pn > 1:
        pn = max(1, pn // 2)
    while drift == "positive" and pn * (fu / mean + 1) > max_rows:
        fu = fu / 2
    vp = {
        "visit_type": "random",
        "patient_number": pn,
        "first_visit_mean": _maybe_int(r, r.choice([0.0, -3.0, 2.0, float(round(r.uniform(-5, 5), 2))])),
        "first_visit_std": _maybe_int(r, r.choice([0.0, 0.4, 1.0, 3.0])),
        "time_follow_up_mean": _maybe_int(r, fu),
        "time_follow_up_std": _maybe_int(r, fu_std),
        "distance_visit_mean": _maybe_int(r, mean) if mean != 0 else mean,
        "distance_visit_std": _maybe_int(r, std),
    }
    ms = r.choice(["absent", 0, 0.0001, 0.001, 1 / 365, 0.01, 0.1, 1, 5], p=[0.16, 0.05, 0.05, 0.1, 0.16, 0.16, 0.14, 0.12, 0.06])
    if ms != "absent":
        ms = float(ms)
        vp["min_spacing_between_visits"] = _maybe_int(r, ms)
    return vp


def gen_table(r, max_rows):
    import numpy as np
    import pandas as pd

    n_ids = int(r.choice([1, 2, 3, 4, 6, 10], p=[0.08, 0.17, 0.25, 0.2, 0.2, 0.1]))
    style = str(r.choice(["str", "numstr", "int"], p=[0.6, 0.28, 0.12]))
    raw = r.permutation(200)[:n_ids]
    if style == "str":
        ids = [f"sub-{int(k):03d}" for k in raw]
    elif style == "numstr":
        ids = [f"{int(k):03d}" if r.random() < 0.5 else str(int(k)) for k in raw]
    else:
        ids = [int(k) for k in raw]
    flavour = str(r.choice(["plain", "close", "repeat", "single", "coarse"], p=[0.3, 0.25, 0.2, 0.1, 0.15]))
    rows = []
    for s in ids:
        nv = 1 if (flavour == "single" or r.random() < 0.15) else int(r.integers(2, 9))
        start = r.uniform(40, 90)
        gaps = r.uniform(0.05, 2.5, size=nv)
        ages = start + np.cumsum(gaps)
        decimals = int(r.choice([1, 2, 3, 4, 6])) if flavour != "coarse" else int(r.choice([0, 1]))
        ages = np.round(ages, decimals)
        ages = list(ages)
        if flavour == "close" and nv >= 2:
            # ages closer than the rounding precision (1e-3): some collapse after rounding, some straddle a grid point
            k = int(r.integers(nv))
            ages.append(ages[k] + float(r.choice([1e-4, 3e-4, 4.9e-4, 9e-4])))
            ages.append(round(ages[0], 3) + 0.00049)
            ages.append(round(ages[0], 3) - 0.00049)
        if flavour == "repeat":
            k = int(r.integers(nv))
            ages.append(ages[k])
            if r.random() < 0.5:
                ages.append(ages[k])
        for t in ages:
            rows.append((s, float(t)))
    if r.random() < 0.6:
        rows = [rows[k] for k in r.permutation(len(rows))]
    df = pd.DataFrame(rows, columns=["ID", "TIME"])
    if r.random() < 0.3:
        df.index = r.permutation(len(df)) + 7  # caller's index is arbitrary
    categorical = style != "int" and r.random() < 0.15
    if categorical:
        # identifiers held as a pandas categorical that also declares individuals absent from the table (a sub-cohort filtered from a bigger table)
        cats = list(dict.fromkeys(df["ID"])) + [f"ghost-{k}" for k in range(int(r.integers(1, 3)))]
        df["ID"] = pd.Categorical(df["ID"], categories=[cats[k] for k in r.permutation(len(cats))])
    return df, {"n_ids": n_ids, "id_style": style + ("-categorical" if categorical else ""), "flavour": flavour, "rows": len(rows)}


INADMISSIBLE_RANDOM = [
    # (label, mutation(vp, r))
    ("missing:patient_number", lambda vp, r: vp.pop("patient_number")),
    ("missing:first_visit_mean", lambda vp, r: vp.pop("first_visit_mean")),
    ("missing:first_visit_std", lambda vp, r: vp.pop("first_visit_std")),
    ("missing:time_follow_up_mean", lambda vp, r: vp.pop("time_follow_up_mean")),
    ("missing:time_follow_up_std", lambda vp, r: vp.pop("time_follow_up_std")),
    ("missing:distance_visit_mean", lambda vp, r: vp.pop("distance_visit_mean")),
    ("missing:distance_visit_std", lambda vp, r: vp.pop("distance_visit_std")),
    ("missing:visit_type", lambda vp, r: vp.pop("visit_type")),
    ("value:patient_number<=0", lambda vp, r: vp.update(patient_number=int(r.choice([0, -1, -7])))),
    ("type:patient_number-float", lambda vp, r: vp.update(patient_number=float(vp["patient_number"]))),
    ("type:patient_number-str", lambda vp, r: vp.update(patient_number=str(vp["patient_number"]))),
    ("type:patient_number-None", lambda vp, r: vp.update(patient_number=None)),
    ("type:mean-str", lambda vp, r: vp.update({str(r.choice(["first_visit_mean", "time_follow_up_mean", "distance_visit_mean"])): "1.0"})),
    ("type:mean-None", lambda vp, r: vp.update({str(r.choice(["first_visit_mean", "time_follow_up_mean"])): None})),
    ("type:std-str", lambda vp, r: vp.update({str(r.choice(["first_visit_std", "time_follow_up_std", "distance_visit_std"])): "0.5"})),
    ("type:std-list", lambda vp, r: vp.update({str(r.choice(["first_visit_std", "time_follow_up_std", "distance_visit_std"])): [0.5]})),
    ("value:std<0", lambda vp, r: vp.update({str(r.choice(["first_visit_std", "time_follow_up_std", "distance_visit_std"])): -float(r.choice([1e-9, 0.1, 3]))})),
    ("value:min_spacing<0", lambda vp, r: vp.update(min_spacing_between_visits=-float(r.choice([1e-6, 0.01, 1])))),
    ("type:min_spacing-str", lambda vp, r: vp.update(min_spacing_between_visits="0.01")),
    ("type:min_spacing-None", lambda vp, r: vp.update(min_spacing_between_visits=None)),
    ("value:visit_type-unknown", lambda vp, r: vp.update(visit_type=str(r.choice(["regular", "RANDOM", "", "data_frame"])))),
    ("value:drift-mean-and-std<=0", lambda vp, r: vp.update(distance_visit_mean=float(r.choice([0.0, -0.5])), distance_visit_std=0)),
]

INADMISSIBLE_TABLE = [
    ("table:missing-df_visits", lambda vp, r: vp.pop("df_visits")),
    ("table:not-a-dataframe-dict", lambda vp, r: vp.update(df_visits=vp["df_visits"].to_dict("list"))),
    ("table:not-a-dataframe-None", lambda vp, r: vp.update(df_visits=None)),
    ("table:no-ID-column", lambda vp, r: vp.update(df_visits=vp["df_visits"].rename(columns={"ID": "SUBJECT"}))),
    ("table:no-TIME-column", lambda vp, r: vp.update(df_visits=vp["df_visits"].rename(columns={"TIME": "AGE"}))),
    ("table:ID-in-index-only", lambda vp, r: vp.update(df_visits=vp["df_visits"].set_index("ID"))),
    ("table:null-TIME", lambda vp, r: vp.update(df_visits=_with_null_time(vp["df_visits"], r))),
]

INADMISSIBLE_FEATURES = [
    ("features:None", lambda f, r: None),
    ("features:tuple", lambda f, r: tuple(f)),
    ("features:str", lambda f, r: f[0]),
    ("features:empty", lambda f, r: []),
    ("features:blank", lambda f, r: _replace_one(f, r, str(r.choice([" ", "\t", "   "])))),
    ("features:empty-string", lambda f, r: f[:-1] + [""]),
    ("features:non-str", lambda f, r: f[:-1] + [int(r.integers(5))]),
    ("features:None-entry", lambda f, r: [None] + f[1:]),
]


def _replace_one(f, r, value):
    f = list(f)
    f[int(r.integers(len(f)))] = value
    return f


def _with_null_time(df, r):
    import numpy as np

    df = df.copy()
    df.iloc[int(r.integers(len(df))), df.columns.get_loc("TIME")] = np.nan
    return df


# ------------------------------------------------------------------------------------------------ helpers
def _np_state_equal(a, b):
    import numpy as np

    return a[0] == b[0] and np.array_equal(a[1], b[1]) and a[2] == b[2] and a[3] == b[3] and a[4] == b[4]


def _rng_untouched(before, seed):
    """The global numpy generator made no draw: state == state before the call, or == a fresh seeding with ``seed``."""
    import numpy as np

    cur = np.random.get_state()
    if _np_state_equal(cur, before):
        return True
    if seed is not None and _np_state_equal(cur, np.random.RandomState(seed).get_state()):
        return True
    return False


def _leaspy_frame(exc):
    """(function name, file, line) of the innermost frame inside leaspy's simulate package / algo for an exception."""
    frames = traceback.extract_tb(exc.__traceback__)
    inner = None
    for f in frames:
        if "/leaspy/" in f.filename.replace(os.sep, "/"):
            inner = f
    if inner is None:
        return ("?", "?", 0)
    return (inner.name, os.path.basename(inner.filename), inner.lineno)


def _brief_exc(e):
    return f"{type(e).__name__}: {str(e)[:220]}"


def expected_precision(vp):
    """Decimals documented for the design: the coarsest grid step (1, .1, .01, .001) that is <= min spacing; None if none."""
    if vp.get("visit_type") == "dataframe":
        ms = 1 / 365
    else:
        ms = vp.get("min_spacing_between_visits", 1 / 365)
    for decimals, step in enumerate(PRECISIONS):
        if step <= ms:
            return decimals
    return None


def _expected_ages(raw, decimals):
    import numpy as np

    a = np.asarray(raw, dtype=float)
    if decimals is not None:
        a = np.round(a, decimals)
    return np.unique(a)  # sorted + de-duplicated


# ------------------------------------------------------------------------------------------------ the monitors
def check_result(ctx, res, case, meta, feats, vp, table):
    """Postcondition monitor on a returned Result.  Returns the list of (key, what, observed) problems."""
    import numpy as np
    import pandas as pd

    probs = []
    kind = "table" if table is not None else "random"
    try:
        df = res.data.to_dataframe()
    except Exception as e:
        return [("simulate/result-data-unreadable", f"Result.data.to_dataframe() failed: {_brief_exc(e)}", {})]
    ids_rows = [str(x) for x in df["ID"].tolist()]
    ids = list(dict.fromkeys(ids_rows))
    n_ind = len(ids)

    # -- individuals
    if kind == "random":
        ctx.count("mon_count_random")
        if n_ind != vp["patient_number"] or res.data.n_individuals != vp["patient_number"]:
            probs.append(("simulate/wrong-number-of-individuals", f"{n_ind} individuals simulated, {vp['patient_number']} requested",
                          {"got": n_ind, "requested": vp["patient_number"]}))
    else:
        ctx.count("mon_ids_table")
        want = [str(x) for x in pd.unique(table["ID"])]
        if sorted(ids) != sorted(want):
            probs.append(("simulate/table-individuals-differ", "simulated individuals are not exactly the IDs of the visit table",
                          {"got": sorted(ids)[:12], "want": sorted(want)[:12]}))

    # -- features
    ctx.count("mon_features")
    headers = list(res.data.headers)
    if headers != list(feats) or any(f not in df.columns for f in feats):
        probs.append(("simulate/requested-feature-missing", "features of the simulated data differ from the requested list",
                      {"got": headers, "requested": list(feats)}))
        return probs

    # -- values
    vals = df[list(feats)].to_numpy(dtype=float)
    ctx.count("values_checked", vals.size)
    if not np.all(np.isfinite(vals)):
        probs.append(("simulate/non-finite-value", f"{int((~np.isfinite(vals)).sum())} non-finite simulated values", {}))
    elif vals.size and (vals.min() < 0.0 or vals.max() > 1.0):
        probs.append(("simulate/value-outside-unit-interval", "simulated value outside [0, 1]",
                      {"min": float(vals.min()), "max": float(vals.max())}))

    # -- ages
    dec = expected_precision(vp)
    times = df["TIME"].to_numpy(dtype=float)
    by_id = {}
    for s, t in zip(ids_rows, times):
        by_id.setdefault(s, []).append(t)
    if kind == "table":
        raw = {}
        for s, t in zip(table["ID"].tolist(), table["TIME"].tolist()):
            raw.setdefault(str(s), []).append(float(t))
        ctx.count("table_ages_vs_rounded_input")
    else:
        raw = TAP.timepoints
        if raw is not None:
            ctx.count("ages_vs_recorded_generation")
    bad_order = bad_grid = bad_match = None
    for s, ts in by_id.items():
        a = np.asarray(ts, dtype=float)
        ctx.count("mon_ages_subjects")
        if not np.all(np.isfinite(a)) or (a.size > 1 and not np.all(np.diff(a) > 0)):
            bad_order = bad_order or (s, a[:12].tolist())
        if dec is not None and not np.allclose(a, np.round(a, dec), rtol=0, atol=1e-9):
            bad_grid = bad_grid or (s, a[:12].tolist())
        if raw is not None and s in raw:
            cands = [_expected_ages(raw[s], dec)] if dec is not None else [_expected_ages(raw[s], 3), _expected_ages(raw[s], None)]
            if not any(c.shape == a.shape and np.allclose(c, a, rtol=0, atol=1e-9) for c in cands):
                bad_match = bad_match or (s, a[:12].tolist(), cands[0][:12].tolist())
        elif raw is not None:
            bad_match = bad_match or (s, "subject absent from the generated visit ages", None)
    if bad_order:
        probs.append(("simulate/ages-not-strictly-increasing", f"ages of subject {bad_order[0]} are not unique and strictly increasing",
                      {"ages": bad_order[1]}))
    if bad_grid:
        probs.append(("simulate/ages-not-on-rounding-grid", f"ages of subject {bad_grid[0]} are not rounded to {dec} decimals",
                      {"ages": bad_grid[1], "decimals": dec}))
    if bad_match:
        src = "input ages of the visit table" if kind == "table" else "recorded generated visit ages"
        probs.append(("simulate/ages-differ-from-rounded-design", f"ages of subject {bad_match[0]} differ from the {src} rounded to {dec} decimals",
                      {"got": bad_match[1], "want": bad_match[2], "decimals": dec}))
    if raw is not None and set(raw) - set(by_id):
        probs.append(("simulate/subject-lost", "a subject with generated visits is absent from the result",
                      {"lost": sorted(set(raw) - set(by_id))[:10]}))

    # -- individual parameters: one row per simulated individual
    ctx.count("mon_ip_rows")
    ip = res.individual_parameters
    try:
        if not isinstance(ip, pd.DataFrame):
            ip = ip.to_dataframe()
        ip_ids = [str(x) for x in ip.index]
        if len(ip_ids) != n_ind or sorted(ip_ids) != sorted(ids):
            probs.append(("simulate/individual-parameters-rows-differ",
                          f"{len(ip_ids)} rows of individual parameters for {n_ind} simulated individuals",
                          {"ip_ids": ip_ids[:12], "ids": ids[:12]}))
        need = ["xi", "tau"] + [f"sources_{k}" for k in range(meta["src"])]
        miss = [c for c in need if c not in ip.columns]
        if miss:
            probs.append(("simulate/individual-parameters-columns-missing", f"columns {miss} missing", {}))
        else:
            arr = np.array([[float(x) for x in ip[c]] for c in need], dtype=float)
            if not np.all(np.isfinite(arr)):
                probs.append(("simulate/individual-parameters-non-finite", "non-finite individual parameter reported", {}))
    except Exception as e:
        probs.append(("simulate/individual-parameters-unreadable", _brief_exc(e), {}))

    # -- per-subject step budget (post hoc, exact)
    if kind == "random" and TAP.sub_budgets is not None and TAP.timepoints is not None:
        ctx.count("termination_judged")
        keys = list(TAP.timepoints)
        if len(keys) == len(TAP.sub_budgets):
            for k, b in zip(keys, TAP.sub_budgets):
                if len(TAP.timepoints[k]) - 1 > b:
                    probs.append(("simulate/no-termination-within-step-budget",
                                  f"subject {k} needed {len(TAP.timepoints[k]) - 1} draws > budget {b:.0f}", {}))
                    break
    return probs


def classify_admissible_crash(e, meta, feats, vp, table):
    """Mechanism key for an exception on a design the validator documents as acceptable (signature = where + what + input class)."""
    import numpy as np

    tn = type(e).__name__
    fn, fil, _ = _leaspy_frame(e)
    msg = str(e)
    n_ind = vp.get("patient_number") if table is None else int(table["ID"].nunique())
    ms = vp.get("min_spacing_between_visits", 1 / 365) if table is None else 1 / 365
    if tn == "RuntimeError" and "non-empty TensorList" in msg and fn == "_sample_individual_parameters_from_model_parameters" and meta["src"] == 0:
        return "simulate/model-without-sources"
    if (tn == "ValueError" and "Shape of passed values" in msg and fn == "_sample_individual_parameters_from_model_parameters"
            and len(feats) != meta["dim"]):
        return "simulate/feature-count-mismatch"
    if tn == "ValueError" and fn == "_generate_dataset" and len(set(feats)) != len(feats):
        return "simulate/duplicate-feature-names"
    if tn == "LeaspyIndividualParamsInputError" and "index should be a string" in msg and table is not None and \
            any(not isinstance(x, str) for x in table["ID"].tolist()):
        return "simulate/int-ids-in-visit-table"
    one_element_vector = meta["noise"] == "scalar1" or (meta["noise"] == "diag" and meta["dim"] == 1)  # noise_std of shape (1,)
    if tn == "ValueError" and "Lengths must match" in msg and fn == "_generate_dataset" and one_element_vector:
        return "simulate/scalar-noise-one-element-vector"
    if tn == "ValueError" and "Domain error" in msg and fn == "_generate_dataset" and n_ind == 1 and meta["src"] > 0:
        ipdf = TAP.ip_df
        try:
            nan_src = ipdf is not None and bool(np.isnan(ipdf[[f"sources_{k}" for k in range(meta["src"])]].to_numpy(dtype=float)).all())
        except Exception:
            nan_src = False
        if nan_src:
            return "simulate/single-patient-with-sources"
    if tn == "TypeError" and "NoneType" in msg and fn == "_generate_dataset" and ms < 0.001:
        return "simulate/min-spacing-below-1e-3"
    return f"simulate/admissible-design-crash/{tn}@{fn}"


def classify_bad_refusal(e):
    tn = type(e).__name__
    fn, _, _ = _leaspy_frame(e)
    if fn in ("_set_param_study", "__init__") and tn in ("KeyError", "AttributeError", "TypeError"):
        return "simulate/refusal/design-read-before-validation"
    if fn == "_check_params" and tn == "TypeError":
        return "simulate/refusal/value-test-on-wrong-type"
    return f"simulate/refusal/wrong-exception/{tn}@{fn}"


# ------------------------------------------------------------------------------------------------ one case
def _inadmissible_variants():
    return ([("random", k) for k in range(len(INADMISSIBLE_RANDOM))] + [("table", k) for k in range(len(INADMISSIBLE_TABLE))]
            + [("features", k) for k in range(len(INADMISSIBLE_FEATURES))])


def build_case(r, max_rows, i=None):
    """Everything about case i (JSON-able description + live objects).

    The first ``len(_inadmissible_variants())`` indices of every shard sweep the inadmissible variants one by one (so each
    documented requirement is exercised by every shard whatever the time budget allows afterwards); later indices are random.
    """
    factory, meta = gen_model(r)
    variants = _inadmissible_variants()
    forced = variants[i] if (i is not None and 0 <= i < len(variants)) else None
    feats = list(meta["model_features"])
    if r.random() < 0.25:  # requested names need not be the model's own names
        feats = [f"sim_{k}" for k in range(meta["dim"])]
    cls = str(r.choice(["random", "table", "neg_drift", "zero_drift", "feat_gap", "inadmissible"],
                       p=[0.44, 0.26, 0.04, 0.01, 0.07, 0.18]))
    if forced is not None:
        cls = "inadmissible"
    table = None
    expect = "complete"
    label = cls
    if cls == "random":
        vp = gen_random_design(r, max_rows)
    elif cls == "table":
        table, tinfo = gen_table(r, max_rows)
        vp = {"visit_type": "dataframe", "df_visits": table}
        label = f"table/{tinfo['flavour']}/{tinfo['id_style']}"
    elif cls in ("neg_drift", "zero_drift"):
        vp = gen_random_design(r, max_rows, drift="negative" if cls == "neg_drift" else "zero")
        expect = "either"
    elif cls == "feat_gap":
        if r.random() < 0.5:
            vp = gen_random_design(r, max_rows)
        else:
            table, tinfo = gen_table(r, max_rows)
            vp = {"visit_type": "dataframe", "df_visits": table}
        how = str(r.choice(["short", "long", "dup"]))
        if how == "short" and meta["dim"] == 1:
            how = "long"
        if how == "dup" and meta["dim"] == 1:
            how = "long"
        if how == "short":
            feats = feats[: int(r.integers(1, meta["dim"]))]
        elif how == "long":
            feats = feats + [f"extra{k}" for k in range(int(r.integers(1, 3)))]
        else:
            feats = list(feats)
            feats[-1] = feats[0]
        label = f"feat_gap/{how}"
        expect = "either"
    else:
        which, k = variants[int(r.integers(len(variants)))] if forced is None else forced
        if which == "random":
            vp = gen_random_design(r, max_rows)
            lab, mut = INADMISSIBLE_RANDOM[k]
            mut(vp, r)
        elif which == "table":
            table, tinfo = gen_table(r, max_rows)
            vp = {"visit_type": "dataframe", "df_visits": table}
            lab, mut = INADMISSIBLE_TABLE[k]
            mut(vp, r)
            table = None
        else:
            if r.random() < 0.5:
                vp = gen_random_design(r, max_rows)
            else:
                t2, _ = gen_table(r, max_rows)
                vp = {"visit_type": "dataframe", "df_visits": t2}
            lab, mut = INADMISSIBLE_FEATURES[k]
            feats = mut(list(feats), r)
        label = f"inadmissible/{lab}"
        expect = "refuse"
    seed = None if r.random() < 0.35 else int(r.integers(0, 2**31 - 1))
    scramble = int(r.integers(0, 2**31 - 1))
    return factory, meta, feats, vp, table, expect, label, seed, scramble


def describe(i, meta, feats, vp, label, expect, seed):
    vpd = {}
    for k, v in (vp or {}).items():
        if hasattr(v, "to_dict") and hasattr(v, "columns"):
            vpd[k] = {"columns": [str(c) for c in v.columns], "rows": [[repr(a) if not isinstance(a, (int, float, str)) else a for a in row]
                                                                         for row in v.reset_index(drop=True).values.tolist()[:60]]}
        else:
            vpd[k] = v if isinstance(v, (int, float, str, type(None))) else repr(v)
    return {"index": i, "class": label, "expect": expect, "seed": seed, "features": feats if isinstance(feats, (list, str, type(None))) else repr(feats),
            "model": {k: meta[k] for k in ("dim", "src", "noise", "regime", "params", "model_features")}, "visit_parameters": vpd}


def run_shard(spec, ctx):
    import numpy as np
    import torch

    from leaspy.exceptions import LeaspyAlgoInputError

    install_tap()
    _violation = ctx.violation

    def violation(key, what, case=None, **obs):  # per-mechanism counts go to the evidence counters as well
        ctx.count(f"viol[{key}]")
        _violation(key, what, case, **obs)

    ctx.violation = violation
    max_rows = int(spec.get("max_rows", 500))
    sink = io.StringIO()

    # -- the documented requirement on the model itself: only a logistic model can be simulated; every other kind (those derived from the
    # logistic class included) is refused with an algorithm-input error before anything is generated
    if str(spec.get("name", "")).endswith("0") or spec.get("k", 0) == 0:
        try:
            from vf import gen as _gen

            for kind_, dim_, src_, noise_ in (("joint", 2, 1, None), ("linear", 2, 1, "gaussian-diagonal"), ("shared_speed_logistic", 3, 1, None), ("joint", 1, 0, None)):
                rr = ctx.rng("non-logistic", kind_, dim_)
                try:
                    m_, ds_, _st, _df = _gen.ready_state(rr, kind_, dim_, src_, noise_, n_ind=6)
                    m_._is_initialized = True
                except Exception as e:
                    ctx.note(f"non_logistic_setup_{kind_}", repr(e)[:160])
                    continue
                vp_ = {"patient_number": 3, "visit_type": "random", "first_visit_mean": 0.0, "first_visit_std": 0.4, "time_follow_up_mean": 4,
                       "time_follow_up_std": 0.5, "distance_visit_mean": 1.0, "distance_visit_std": 0.2}
                np.random.seed(12345)
                before_ = np.random.get_state()
                ctx.evaluated()
                case_ = {"index": -1, "model_kind": kind_, "dimension": dim_, "sources": src_}
                try:
                    with contextlib.redirect_stdout(sink):
                        m_.simulate(algorithm="simulate", features=list(m_.features), visit_parameters=vp_, seed=7)
                    violation("simulate/non-logistic-model-accepted", f"a {kind_} model was simulated (documented: logistic models only)", case_)
                except LeaspyAlgoInputError:
                    ctx.count("non_logistic_models_refused")
                    if not _rng_untouched(before_, 7):
                        violation("simulate/refusal/after-generation", f"the refusal of a {kind_} model came after random numbers had been drawn", case_)
                except Exception as e:
                    violation("simulate/refusal/wrong-exception-for-model-kind", f"a {kind_} model is refused with {type(e).__name__} ({str(e)[:100]}) instead of an "
                              "algorithm-input error raised up front", case_)
        except Exception as e:
            ctx.note("non_logistic_block_skipped", repr(e)[:200])

    for i in ctx.cases(spec["n"]):
        r = ctx.rng("c18", i)
        factory, meta, feats, vp, table, expect, label, seed, scramble = build_case(r, max_rows, i)
        case = describe(i, meta, feats, vp, label, expect, seed)
        try:
            model = factory()
        except Exception as e:  # building the model is outside the property
            ctx.count("setup_skipped")
            ctx.note(f"setup_skipped_{type(e).__name__}", str(e)[:200])
            continue
        ctx.evaluated()
        ctx.count(f"class_{label.split('/')[0]}")
        table_ref = table.copy(deep=True) if table is not None else None

        # -- run the real code under the tap
        np.random.seed(scramble)
        torch.manual_seed(scramble)
        before = np.random.get_state()
        drift = vp.get("distance_visit_mean") if isinstance(vp, dict) else None
        TAP.reset(drift if isinstance(drift, (int, float)) and not isinstance(drift, bool) else None)
        kwargs = {} if seed is None else {"seed": seed}
        outcome, payload = None, None
        sink.seek(0)
        sink.truncate()
        try:
            with contextlib.redirect_stdout(sink), warnings.catch_warnings():
                warnings.simplefilter("ignore")
                payload = model.simulate(algorithm="simulate", features=feats, visit_parameters=vp, **kwargs)
            outcome = "ok"
        except _StepBudgetExceeded as e:
            outcome, payload = "budget", e
        except LeaspyAlgoInputError as e:
            outcome, payload = "refused", e
        except Exception as e:
            outcome, payload = "crash", e
        finally:
            TAP.phase = None
        draws = TAP.normal_calls + TAP.beta_calls
        ctx.count("visit_age_draws_tapped", TAP.steps + sum(int(np.size(v)) for v in TAP.vec))
        ctx.count(f"outcome_{outcome}")
        obs = {"outcome": outcome, "normal_calls": TAP.normal_calls, "beta_calls": TAP.beta_calls, "visit_age_steps": TAP.steps,
               "budget": TAP.budget if TAP.sub_budgets is not None else None, "stages_reached": sorted(TAP.reached)}

        # ------------------------------------------------------------------ refusal monitor
        if expect == "refuse":
            ctx.count("refusal_judged")
            if outcome == "refused":
                if draws or not _rng_untouched(before, seed):
                    ctx.violation("simulate/refusal-after-draws", f"{label}: refused, but only after random draws were made", case, **obs)
                else:
                    ctx.count("refused_cleanly")
            elif outcome == "ok":
                ctx.violation(f"simulate/inadmissible-design-accepted/{label.split('/', 1)[1].split(':')[0]}",
                              f"{label}: design violating a documented requirement ran to completion", case, **obs)
            elif outcome == "budget":
                ctx.violation("simulate/inadmissible-design-accepted/then-no-termination", f"{label}: not refused, then exceeded the step budget", case, **obs)
            else:
                ctx.violation(classify_bad_refusal(payload),
                              f"{label}: refused with {_brief_exc(payload)} instead of LeaspyAlgoInputError "
                              f"(raised in {_leaspy_frame(payload)[0]}, draws before: {draws})", case, **obs)
            ctx.distinct("refuse", label, meta["dim"], meta["src"], meta["noise"], vp.get("visit_type") if isinstance(vp, dict) else None)
            if i % 40 == 0:
                ctx.sample({"class": label, "outcome": outcome, "exception": _brief_exc(payload) if outcome != "ok" else None}, limit=3)
            continue

        # ------------------------------------------------------------------ termination monitor (in flight)
        if outcome == "budget":
            ctx.count("termination_judged")
            if TAP.cap_only:
                ctx.count("zero_drift_cut_at_hard_cap_not_judged")
                continue
            m = vp.get("distance_visit_mean")
            key = "simulate/non-positive-drift" if (isinstance(m, (int, float)) and m <= 0) else "simulate/no-termination-within-step-budget"
            ctx.violation(key, f"{label}: visit generation exceeded the logical step budget ({payload}); distance_visit_mean={m}, "
                               f"distance_visit_std={vp.get('distance_visit_std')} passed validation", case, **obs)
            ctx.distinct("budget", label, meta["dim"], meta["src"], m, vp.get("distance_visit_std"), vp.get("time_follow_up_mean"))
            continue

        # ------------------------------------------------------------------ gap classes: a clean up-front refusal is acceptable
        if outcome == "refused":
            if expect == "either":
                ctx.count("gap_class_refused")
                if draws or not _rng_untouched(before, seed):
                    ctx.violation("simulate/refusal-after-draws", f"{label}: refused, but only after random draws were made", case, **obs)
                continue
            ctx.violation("simulate/admissible-design-refused", f"{label}: admissible design refused: {_brief_exc(payload)}", case, **obs)
            continue

        if outcome == "crash":
            key = classify_admissible_crash(payload, meta, feats if isinstance(feats, list) else [], vp, table_ref)
            fn, fil, line = _leaspy_frame(payload)
            ctx.violation(key, f"{label}: design accepted by the validator crashed with {_brief_exc(payload)} in {fn} ({fil}:{line}) "
                               f"after {draws} random draws", case, **obs)
            ctx.distinct("crash", key, label, meta["dim"], meta["src"], meta["noise"])
            continue

        # ------------------------------------------------------------------ postcondition monitor
        res = payload
        ctx.count("postcond_table" if table_ref is not None else "postcond_random")
        if meta["regime"] in ("large_noise", "extreme_g", "fast"):
            ctx.count("clamp_path_cases")
        probs = check_result(ctx, res, case, meta, feats, vp, table_ref)
        for key, what, o in probs:
            ctx.violation(key, f"{label}: {what}", case, **dict(obs, **o))
        ms = vp.get("min_spacing_between_visits", "absent")
        ctx.distinct(
            "ok", label, meta["dim"], meta["src"], meta["noise"], meta["regime"], ms, vp.get("patient_number"),
            vp.get("distance_visit_mean"), vp.get("distance_visit_std"), vp.get("time_follow_up_mean"),
            None if table_ref is None else (len(table_ref), int(table_ref["ID"].nunique())), seed is None,
        )
        if i % 25 == 0:
            try:
                d = res.data.to_dataframe()
                ctx.sample({"class": label, "model": f"d{meta['dim']}s{meta['src']}-{meta['noise']}-{meta['regime']}",
                            "visit_parameters": {k: v for k, v in case["visit_parameters"].items() if k != "df_visits"},
                            "n_individuals": int(d['ID'].nunique()), "rows": int(len(d)), "first_ages": d["TIME"].head(4).tolist(),
                            "decimals": expected_precision(vp), "visit_age_steps": TAP.steps}, limit=3)
            except Exception:
                pass
