"""C11 — seeded runs are reproducible and independent of logging and process history.  DESIGN §2/C11.

Oracle: digests (sha256 over tensor bytes) of the outputs of the same seeded call executed (a) once in a fresh interpreter, (b) in
a second interpreter after prior activity (RNG consumption, re-seeding, an unrelated fit + personalisation, default dtype switched)
and under every logging configuration of a grid, (c) in fresh interpreters with other hash seeds (unset = Python's random default, 1).
For fits a per-iteration digest trace is recorded so that the first diverging iteration is reported.  A logging configuration that
makes the run raise is a violation ("turning logging on never aborts the run").
"""
from __future__ import annotations

import itertools
import json
import os
import subprocess
import sys
import tempfile

RULE = (
    "a case = (model cell, training cohort, algorithm in {mcmc_saem fit with Gibbs/FastGibbs/MH +- annealing, scipy_minimize, mean_posterior, "
    "mode_posterior, simulate}, seed); the seeded call is run in 4 interpreters (fresh baseline; dirty interpreter with 4-7 variants of prior "
    "activity x logging configuration; hash seed unset; hash seed 1) and all digests must equal the baseline. evaluations = seeded calls "
    "compared with their baseline; distinct_nontrivial = distinct (cell, algorithm, prelude, logging configuration / hash seed) tuples"
)
REQUIRED = {"calls_compared": 90, "logging_configs_compared": 15, "dirty_history_compared": 30, "hashseed_compared": 16, "fit_cases": 4, "personalize_cases": 3, "reused_settings_compared": 4, "simulate_cases_table_driven": 1, "scipy_cases_with_two_workers": 1, "cases_with_numpy_or_float_seed": 2, "fit_cases_with_short_adaptation_windows": 2}
ASSUMPTIONS = [
    "bit-identity of sha256 digests over tensor bytes; matplotlib backend Agg; logs written under a per-case temporary directory",
    "logging grid restricted to what the settings class accepts (plot periodicity a multiple of save periodicity)",
]
CELLS = [("logistic", 2, 1, "gaussian-diagonal"), ("logistic", 1, 0, "gaussian-scalar"), ("linear", 2, 1, "gaussian-diagonal"), ("joint", 3, 1, None),
         ("logistic", 3, 2, "gaussian-scalar"), ("shared_speed_logistic", 3, 1, None), ("logistic", 2, 1, "bernoulli"), ("mixture_logistic", 3, 2, None)]
WHATS = ["fit", "fit", "scipy_minimize", "mean_posterior", "mode_posterior", "scipy_minimize", "simulate", "fit"]
PRELUDES = [[], ["consume_rng"], ["reseed_other"], ["unrelated_fit"], ["consume_rng", "unrelated_fit"], ["unrelated_fit", "reseed_other"], ["reseed_other", "consume_rng"], ["customised_calls"], ["customised_calls", "consume_rng"]]


def logging_grid():
    out = [None]
    for pr, sv, pl, pp, path in itertools.product([None, 1, 3], [None, 1, 2], [None, "x1", "x2"], [None, 1, 5], [True, False]):
        if pl is not None and sv is None:
            continue
        cfg = {"path": "tmp" if path else None}
        if pr:
            cfg["print_periodicity"] = pr
        if sv:
            cfg["save_periodicity"] = sv
        if pl:
            cfg["plot_periodicity"] = sv * (1 if pl == "x1" else 2)
        if pp:
            cfg["plot_patient_periodicity"] = pp
        if len(cfg) > 1 or path:
            out.append(cfg)
    return out


def shards(tier, seed):
    q = tier == "quick"
    return [{"name": f"repro-{k}", "k": k, "n": 1 if q else 8, "budget_s": 200 if q else 1800} for k in range(16)]


def _run_worker(job, hashseed, timeout):
    env = dict(os.environ)
    env["VF_ROOT"] = os.path.dirname(os.path.dirname(os.path.dirname(os.path.abspath(__file__))))
    if hashseed is None:
        env.pop("PYTHONHASHSEED", None)
    else:
        env["PYTHONHASHSEED"] = str(hashseed)
    env["MPLBACKEND"] = "Agg"
    jf = os.path.join(job["tmp"], f"job-{hashseed}-{len(job['variants'])}.json")
    with open(jf, "w") as f:
        json.dump(job, f)
    worker = os.path.join(env["VF_ROOT"], "vf", "c11_worker.py")
    p = subprocess.run([sys.executable, worker, jf], env=env, capture_output=True, text=True, timeout=timeout, cwd=job["tmp"])
    lines = [l for l in p.stdout.splitlines() if l.startswith("{")]
    if not lines:
        return {"digests": [], "errors": [{"type": "worker-died", "msg": p.stderr[-500:]}], "died": True}
    return json.loads(lines[-1])


def run_shard(spec, ctx):
    import shutil

    grid = logging_grid()
    for i in ctx.cases(spec["n"]):
        rng = ctx.rng("repro", spec["k"], i)
        ci = (spec["k"] + i * 16) % len(CELLS)
        cell = CELLS[ci]
        what = WHATS[(spec["k"] // 2 + i) % len(WHATS)] if spec["k"] >= 8 else WHATS[spec["k"] % len(WHATS)]
        # plan of the first case of each shard (all the quick tier runs): the 3-feature model with two sources is also FITTED (its logs plot 12 files,
        # two full pages) and stays personalised by the second mixture shard; so is the joint model
        if spec["k"] in (4, 11) and i % 2 == 0:  # 11: the joint model with a source is also fitted (shard 3 personalises it)
            what = "fit"
        elif spec["k"] == 15 and i % 2 == 0:
            cell, what = CELLS[4], "mode_posterior"
        if what == "simulate" and (cell[0] != "logistic" or cell[3] == "bernoulli" or cell[2] < 1):
            cell = CELLS[0]
        if cell[0] == "mixture_logistic" and what != "fit":
            what = "fit"  # the mixture model cannot be personalised (C17 known finding)
        if cell[0] in ("joint",) and what == "scipy_minimize":
            what = "mean_posterior"
        settings = {}
        if what == "fit":
            settings = {"n_iter": int(rng.integers(8, 16)), "sampler_pop": ["Gibbs", "FastGibbs", "Metropolis-Hastings"][(spec["k"] + i) % 3]}
            if rng.random() < 0.4:
                settings["annealing"] = {"do_annealing": True, "initial_temperature": 5.0, "n_plateau": 3, "n_iter": None, "n_iter_frac": 0.6}
            if (spec["k"] + i) % 2 == 0:
                # short adaptation windows: the proposal scales adapt several times within these short runs (iterations 5, 10, 15), so that
                # whatever the logging does between two iterations meets an adaptation step
                win = {"acceptation_history_length": 5, "mean_acceptation_rate_target_bounds": [0.2, 0.4], "adaptive_std_factor": 0.1}
                settings["sampler_ind_params"] = dict(win)
                settings["sampler_pop_params"] = dict(win, random_order_dimension=True)
                settings["n_iter"] = max(settings["n_iter"], 16)
                ctx.count("fit_cases_with_short_adaptation_windows")
        elif what in ("mean_posterior", "mode_posterior"):
            settings = {"n_iter": 12, "n_burn_in_iter": 4}
        elif what == "scipy_minimize":
            settings = {"use_jacobian": False}
            if (spec["k"] + i) % 2 == 1:
                settings["n_jobs"] = 2  # documented option: the seed, not the worker processes, decides the result
                ctx.count("scipy_cases_with_two_workers")
        tmp = tempfile.mkdtemp(prefix="vf-c11-")
        # seed classes: 0 (falsy!), 1, 2**32 - 1 (largest numpy seed), random
        seed_call = [0, int(rng.integers(2, 1 << 20)), 1, 2 ** 32 - 1][(spec["k"] // 3 + i) % 4] if what != "fit" else [int(rng.integers(2, 1 << 20)), 0][(spec["k"] + i) % 2]
        ctx.count(f"seed_class_{'zero' if seed_call == 0 else 'other'}")
        base_job = {"cell": list(cell), "cohort_seed": int(rng.integers(1 << 30)), "what": what, "seed": seed_call, "settings": settings, "tmp": tmp}
        case = {"index": i, "cell": list(map(str, cell)), "what": what, "settings": settings, "seed": seed_call}
        if seed_call < 2 ** 31 - 1 and (spec["k"] + i) % 3 == 0:
            base_job["seed_type"] = case["seed_type"] = ("np.int64", "float", "np.int32")[(spec["k"] // 3 + i) % 3]
            ctx.count("cases_with_numpy_or_float_seed")
        if what in ("mean_posterior", "mode_posterior") and (spec["k"] + i) % 2:
            base_job["same_size"] = case["personalised_cohort_has_the_training_size"] = True
            ctx.count("personalize_cases_on_a_cohort_of_the_training_size")
        if what == "simulate":
            base_job["sim_design"] = case["sim_design"] = ("random", "table")[(spec["k"] + i) % 2]
            if base_job["sim_design"] == "table":
                ctx.count("simulate_cases_table_driven")
        try:
            # (a) fresh baseline
            base = None
            for attempt in range(3):
                base = _run_worker(dict(base_job, variants=[{"prelude": [], "logs": None}]), 0, 900)
                if not (base.get("setup_failed") or base.get("died") or not base["digests"] or base["digests"][0] is None):
                    break
                # the call does not complete in a FRESH interpreter either (e.g. a degenerate synthetic cohort whose initialisation the library
                # refuses): nothing to compare - draw another cohort for this case (same model kind, settings, seed class)
                ctx.count("baseline_failed_not_judged")
                ctx.note("baseline_failed", base.get("errors"))
                base_job["cohort_seed"] = int(rng.integers(1 << 30))
                case["cohort_redrawn"] = attempt + 1
                base = None
            if base is None:
                continue
            ref = base["digests"][0]
            ctx.count("fit_cases" if what == "fit" else ("simulate_cases" if what == "simulate" else "personalize_cases"))
            ctx.count("process_setting_checks")
            if "torch-threads-changed" in ref["final"]:
                # "whatever was run earlier in the process": a call that silently changes a process-wide numeric setting (here the number of
                # intra-op threads torch uses, which decides how large reductions are chunked) makes every LATER result depend on it
                ctx.violation(f"repro/{what}/changes-a-process-wide-numeric-setting", f"the seeded {what} changed torch's number of threads for the whole interpreter "
                              f"({ref['final'].rsplit(':', 1)[-1]})", case)
                continue
            # (b) dirty interpreter: preludes x logging configurations
            variants = []
            n_var = 5 if ctx.tier == "quick" else 12
            for j in range(n_var):
                pre = PRELUDES[(spec["k"] + i + j) % len(PRELUDES)]
                logs = grid[int(rng.integers(len(grid)))] if (what == "fit" and j % 4 != 3) else None
                variants.append({"prelude": pre, "logs": logs})
            if what == "fit":
                variants.append({"prelude": [], "logs": {"path": None, "print_periodicity": 2}})  # console printing only, no folder
                variants.append({"prelude": [], "logs": None, "reuse_settings": True})  # settings object that already served another fit
                # every kind of output on (console, saved parameters, convergence plots at two iterations): always present, whatever the draws above
                variants.append({"prelude": [], "logs": {"path": "tmp", "print_periodicity": 1, "save_periodicity": 2, "plot_periodicity": 4}})
            dirty = _run_worker(dict(base_job, variants=variants), 0, 1500)
            errs = {e.get("variant"): e for e in dirty.get("errors", [])}
            for j, var in enumerate(variants):
                ctx.evaluated()
                ctx.count("calls_compared")
                c2 = dict(case, variant=var)
                d = dirty["digests"][j] if j < len(dirty["digests"]) else None
                if d is None:
                    e = errs.get(j, {"type": "?", "msg": str(dirty.get("errors"))[:200]})
                    if var["logs"] is not None:
                        key = "fit-output-manager/print-without-path" if (not var["logs"].get("path") and "path_output" in e.get("msg", "")) else "logging/aborts-the-run"
                        if cell[0] == "joint" and var["logs"].get("plot_periodicity") and "NoneType" in e.get("msg", ""):
                            key = "logging/joint-convergence-plot-zeta-title"
                        if cell[0] == "mixture_logistic" and var["logs"].get("plot_patient_periodicity") and (
                                "same dtype" in e.get("msg", "") or "save_plot_patient_reconstructions" in e.get("tb", "")):
                            key = "logging/mixture-patient-plot-dtype-mismatch"
                        ctx.violation(key, f"logging configuration {var['logs']} made the seeded {what} raise {e.get('type')}: {e.get('msg', '')[:120]}", c2)
                    else:
                        ctx.violation("repro/raises-after-prior-activity", f"seeded {what} raised {e.get('type')}: {e.get('msg', '')[:160]} after prior activity {var['prelude']}", c2)
                    continue
                if var["logs"] is not None:
                    ctx.count("logging_configs_compared")
                if var["prelude"]:
                    ctx.count("dirty_history_compared")
                if var.get("reuse_settings"):
                    ctx.count("reused_settings_compared")
                if d["final"] != ref["final"]:
                    first = next((k for k, (a, b) in enumerate(zip(d["trace"], ref["trace"])) if a != b), None)
                    why = "logging" if (var["logs"] is not None and not var["prelude"]) else ("reused-settings-object" if var.get("reuse_settings") else "process-history")
                    ctx.violation(f"repro/{what if what != 'fit' else 'fit'}/depends-on-{why}",
                                  f"seeded {what} differs from the fresh-interpreter baseline after prelude {var['prelude']} with logs {var['logs']}"
                                  + (f" (first diverging iteration: {first + 1})" if first is not None else ""), c2)
                ctx.distinct(case["cell"], what, tuple(var["prelude"]), json.dumps(var["logs"], sort_keys=True))
            # (c) other hash seeds, fresh interpreters
            for hs in (None, 1) if ctx.tier == "quick" else (None, None, 1, 12345):
                r = _run_worker(dict(base_job, variants=[{"prelude": [], "logs": None}]), hs, 900)
                ctx.evaluated()
                ctx.count("calls_compared")
                ctx.count("hashseed_compared")
                if not r["digests"] or r["digests"][0] is None:
                    ctx.violation("repro/raises-in-fresh-interpreter", f"seeded {what} raised in a fresh interpreter with PYTHONHASHSEED={hs}: {str(r.get('errors'))[:200]}", case)
                elif r["digests"][0]["final"] != ref["final"]:
                    key = "auto-vars/set-iteration-order" if what == "scipy_minimize" else f"repro/{what}/differs-between-interpreter-launches"
                    ctx.violation(key, f"seeded {what} gives another result in a fresh interpreter launched with PYTHONHASHSEED={'unset' if hs is None else hs}", case)
                ctx.distinct(case["cell"], what, "hashseed", hs)
            if i < 1:
                ctx.sample(dict(case, n_variants=len(variants), example_variant=variants[1]), limit=1)
        except subprocess.TimeoutExpired:
            ctx.inconclusive_because("a worker interpreter hit the wall-clock watchdog")
        finally:
            shutil.rmtree(tmp, ignore_errors=True)
