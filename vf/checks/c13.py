"""C13 — estimate / personalize / simulate leave the model and caller inputs untouched.  DESIGN §2/C13.

Oracle: history-based differential monitor on the real API.  The same final call X is executed on model objects that hold the
same parameters but have different call histories (fresh from fit | reloaded from its saved file | after a random sequence of
estimate / personalize / simulate calls | repeated with a reused settings object); outputs must be bit-identical.  Around EVERY
call an ApiProbe snapshot (parameters, hyperparameters, population variables, presence of data variables and individual latent
values in the model state; the caller's DataFrame / Dataset tensors / AlgorithmSettings) is taken before and after.
"""
from __future__ import annotations

RULE = (
    "a case = (model kind, training cohort, seed) -> three model objects with identical parameters and different histories (length 0-4 over "
    "{estimate, personalize[scipy_minimize|mean_posterior|mode_posterior], simulate, save+load}); every final call in {estimate, the three "
    "personalisations, simulate} is run on each and compared bit-wise; snapshots around every call. evaluations = calls monitored; "
    "distinct_nontrivial = distinct (model cell, final call, history signature) tuples"
)
REQUIRED = {"calls_monitored": 300, "diff_fresh_vs_history": 40, "diff_fresh_vs_reload": 20, "diff_repeat_reused_settings": 20, "input_snapshots": 200,
            "final_personalize": 40, "final_estimate": 10, "diff_before_vs_after_history": 20, "diff_refit_vs_its_reload": 4, "cases_with_tiny_prior_std": 5, "diff_repeat_reused_tempered_settings": 8, "benchmark_model_estimates_monitored": 6}
ASSUMPTIONS = [
    "two models 'hold the same parameters' when their parameter tensors are bit-identical; reload is compared only in that case (exactness of reload is C12's job)",
    "after a fit the model state documentedly keeps the training data; the monitor flags only data / individual values that a personalize / estimate / simulate "
    "call newly leaves behind",
]
GRID = [("logistic", 1, 0, "gaussian-scalar"), ("logistic", 2, 0, "gaussian-diagonal"), ("logistic", 3, 1, "gaussian-diagonal"), ("logistic", 3, 2, "gaussian-scalar"),
        ("linear", 2, 1, "gaussian-diagonal"), ("shared_speed_logistic", 3, 1, None), ("joint", 1, 0, None), ("joint", 3, 1, None), ("logistic", 2, 1, "bernoulli")]
CALLS = ["estimate", "scipy_minimize", "mean_posterior", "mode_posterior", "simulate", "simulate_table", "simulate_default_spacing"]
HISTORY_ONLY = ["scipy_minimize_custom"]  # a personalisation with user-tuned optimiser options: must not influence later default calls


def shards(tier, seed):
    q = tier == "quick"
    return [{"name": f"hist-{k}", "k": k, "n": 2 if q else 30, "budget_s": 170 if q else 1500} for k in range(16)]


def run_shard(spec, ctx):
    import contextlib
    import copy
    import hashlib
    import io
    import os
    import shutil
    import tempfile

    import numpy as np
    import pandas as pd
    import torch

    from leaspy.algo import AlgorithmSettings
    from leaspy.io.outputs import IndividualParameters
    from leaspy.models import BaseModel
    from leaspy.utils.weighted_tensor import WeightedTensor
    from vf import gen
    from vf.checks.c15 import install_contract

    install_contract()

    def dig(x):
        h = hashlib.sha256()

        def feed(o):
            if o is None:
                h.update(b"N")
            elif isinstance(o, WeightedTensor):
                feed(o.value)
                feed(o.weight)
            elif isinstance(o, torch.Tensor):
                h.update(str(o.dtype).encode() + str(tuple(o.shape)).encode())
                h.update(o.detach().cpu().contiguous().numpy().tobytes())
            elif isinstance(o, np.ndarray):
                h.update(str(o.dtype).encode() + str(o.shape).encode() + np.ascontiguousarray(o).tobytes())
            elif isinstance(o, pd.DataFrame):
                h.update(repr(list(o.columns)).encode() + repr(list(o.dtypes.astype(str))).encode() + repr(list(o.index.names)).encode())
                h.update(pd.util.hash_pandas_object(o, index=True).values.tobytes())
            elif isinstance(o, dict):
                for k in sorted(o, key=str):
                    h.update(str(k).encode())
                    feed(o[k])
            elif isinstance(o, (list, tuple)):
                h.update(b"[")
                for v in o:
                    feed(v)
                h.update(b"]")
            else:
                h.update(repr(o).encode())

        feed(x)
        return h.hexdigest()[:16]

    def model_snapshot(m):
        st = m.state
        names = set(st.dag.sorted_variables_names)
        data_vars = [n for n in ("t", "y", "event") if n in names]
        return {
            "parameters": dig({k: v for k, v in m.parameters.items()}),
            "hyperparameters": dig(dict(m.hyperparameters)) if m.hyperparameters is not None else None,
            "population": dig({p: st._values[p] for p in m.population_variables_names}),
            "data_present": tuple(n for n in data_vars if st._values[n] is not None),
            "individual_present": tuple(n for n in m.individual_variables_names if st._values[n] is not None),
        }

    def settings_snapshot(s):
        return dig({"parameters": copy.deepcopy(s.parameters), "seed": s.seed, "name": s.name,
                    "logs": None if getattr(s, "logs", None) is None else repr(sorted(vars(s.logs).items()))})

    # ---- the benchmark models (no state, no sampler): estimate must not touch the ages it is given and answers the same when repeated -----
    if spec["k"] < 4:
        try:
            import warnings as _w

            from leaspy.models import ConstantModel, LMEModel
            from vf.checks.c20 import gen_lme_cohort, lme_truth

            for j in range(3):
                rb = ctx.rng("bench", spec["k"], j)
                slope = bool(j % 2)
                dfb = gen_lme_cohort(rb, int(rb.integers(6, 15)), lme_truth(rb, slope), one_visit_p=0.0)
                with _w.catch_warnings():
                    _w.simplefilter("ignore")
                    lme = LMEModel("lme", with_random_slope_age=slope)
                    lme.fit(dfb, "lme_fit")
                    ipb = lme.personalize(dfb, "lme_personalize")
                    cst = ConstantModel("constant")
                    ipc = cst.personalize(dfb, "constant_prediction")
                for mname, mb, ipx in (("lme", lme, ipb), ("constant", cst, ipc)):
                    ids_ = list(ipx._indices)[:4]
                    req = {s_: np.array(sorted(rb.uniform(50, 95, size=int(rb.integers(1, 5)))), dtype=np.float64)[::-1].copy() for s_ in ids_}
                    req_ref = {k_: v_.copy() for k_, v_ in req.items()}
                    o1 = {k_: np.asarray(v_).copy() for k_, v_ in mb.estimate(req, ipx).items()}
                    o2 = {k_: np.asarray(v_).copy() for k_, v_ in mb.estimate(req, ipx).items()}
                    ctx.count("benchmark_model_estimates_monitored")
                    ctx.evaluated()
                    caseb = {"index": -1 - j, "model": [mname], "call": "estimate", "ages": "float64 numpy arrays"}
                    if any(not np.array_equal(req[k_], req_ref[k_]) for k_ in req_ref):
                        ctx.violation("api/estimate/caller-inputs-modified", f"{mname} model: estimate modified the arrays of ages passed in", caseb)
                    elif any(not np.array_equal(o1[k_], o2[k_], equal_nan=True) for k_ in o1):
                        ctx.violation("api/estimate/repeat-differs", f"{mname} model: the same estimate call repeated gives another answer", caseb)
        except Exception as e:
            ctx.note(f"benchmark_block_skipped_{type(e).__name__}", str(e)[:200])

    for i in ctx.cases(spec["n"]):
        rng = ctx.rng("hist", spec["k"], i)
        g = GRID[(spec["k"] * 2 + i) % len(GRID)]
        kind, dim, src, noise = g
        events = kind == "joint"
        binary = noise == "bernoulli"
        seed_fit = int(rng.integers(1 << 30))
        tmp = tempfile.mkdtemp(prefix="vf-c13-")
        try:
            df_train = gen.cohort(rng, n_ind=int(rng.integers(6, 11)), n_feat=dim, missing="mcar", events=events, one_visit_ok=False, binary=binary)
            df_new = gen.cohort(rng, n_ind=int(rng.choice([2, 4, 13] if events else [1, 1, 2, 4, 13])), n_feat=dim, missing="mcar", events=events,
                                one_visit_ok=not events, binary=binary)

            def fitted():
                m = gen.make_model(kind, dim, src, noise) if noise else gen.make_model(kind, dim, src)
                with contextlib.redirect_stdout(io.StringIO()):
                    m.fit(gen.to_dataset(df_train, events=events), "mcmc_saem", n_iter=15, seed=seed_fit, progress_bar=False)
                return m

            fresh, hist = fitted(), fitted()
            if dig(dict(fresh.parameters)) != dig(dict(hist.parameters)):
                ctx.count("two_seeded_fits_differ_not_judged_here")  # C11's subject
                continue
            path = os.path.join(tmp, "m.json")
            fresh.save(path)
            tiny_prior = (spec["k"] + i) % 4 == 2
            if tiny_prior:
                # a very homogeneous population written by hand into the saved file (admissible parameter values: prior standard deviations
                # of a few 1e-3); the three model objects of the case are then three loads of that file
                import json as _json

                with open(path) as fh:
                    js = _json.load(fh)
                for pn in ("xi_std", "tau_std"):
                    if pn in js["parameters"]:
                        v0_ = js["parameters"][pn]
                        tiny = float(rng.uniform(2e-3, 8e-3))
                        js["parameters"][pn] = [tiny] * len(v0_) if isinstance(v0_, list) else tiny
                with open(path, "w") as fh:
                    _json.dump(js, fh)
                fresh, hist = BaseModel.load(path), BaseModel.load(path)
                ctx.count("cases_with_tiny_prior_std")
            reload_ = BaseModel.load(path)
            reload_same = dig(dict(fresh.parameters)) == dig(dict(reload_.parameters))
        except Exception as e:
            ctx.count("setup_skipped")
            ctx.note(f"setup_skipped_{type(e).__name__}", str(e)[:160])
            shutil.rmtree(tmp, ignore_errors=True)
            continue
        case0 = {"index": i, "model": list(map(str, g))}
        # a reference set of individual parameters for estimate (from the reloaded model, seeded)
        ages = {}

        def do_call(m, what, settings=None, who=""):
            """Run one API call with before/after snapshots of the model and of every caller-owned input. Returns a digest of the output."""
            case = dict(case0, call=what, on=who)
            df_in = df_new.copy(deep=True)
            df_ref = df_in.copy(deep=True)
            int_ids = (not events) and what in ("mean_posterior", "mode_posterior") and (spec["k"] + i) % 3 == 0
            if int_ids:
                # the same cohort under integer identifiers (accepted by the readers and by the sampling-based personalisations), given as a Dataset object
                ids_map = {s_: 100 + 7 * j_ for j_, s_ in enumerate(dict.fromkeys(df_new["ID"]))}
                ds_in = gen.to_dataset(df_new.assign(ID=df_new["ID"].map(ids_map)), events=False)
                ctx.count("personalize_calls_on_a_dataset_with_integer_ids")
            else:
                ds_in = gen.to_dataset(df_new, events=events)

            def ds_digest():
                return dig({"values": ds_in.values, "mask": ds_in.mask, "timepoints": ds_in.timepoints, "event_time": ds_in.event_time, "event_bool": ds_in.event_bool,
                            "indices": [(type(x_).__name__, str(x_)) for x_ in ds_in.indices], "headers": list(ds_in.headers),
                            "n_visits": list(map(int, ds_in.n_visits_per_individual))})

            ds_dig = ds_digest()
            before = model_snapshot(m)
            s_before = settings_snapshot(settings) if settings is not None else None
            out = None
            with contextlib.redirect_stdout(io.StringIO()):
                if what == "estimate":
                    ip = ages["ip"]
                    as_arrays = bool((spec["k"] + i) % 2)  # ages as float64 numpy arrays (same numbers): also an input the call must not touch
                    tp = {sid: (np.array(ages["t"][sid], dtype=np.float64) if as_arrays else list(ages["t"][sid])) for sid in ages["t"]}
                    tp_ref = copy.deepcopy(tp)
                    ip_dig = dig(ip.to_pytorch()[1])
                    res = m.estimate(tp, ip)
                    out = dig({k: np.asarray(v) for k, v in res.items()})
                    if any(not np.array_equal(np.asarray(tp[k_]), np.asarray(tp_ref[k_])) for k_ in tp_ref) or list(tp) != list(tp_ref) or dig(ip.to_pytorch()[1]) != ip_dig:
                        ctx.violation("api/estimate/caller-inputs-modified", "estimate modified the ages dict / individual parameters passed in", case)
                elif what in ("simulate", "simulate_default_spacing"):
                    vp = {"patient_number": 4, "visit_type": "random", "first_visit_mean": 0.0, "first_visit_std": 0.4, "time_follow_up_mean": 4,
                          "time_follow_up_std": 0.5, "distance_visit_mean": 1.0, "distance_visit_std": 0.2, "min_spacing_between_visits": 0.01}
                    if what == "simulate_default_spacing":
                        del vp["min_spacing_between_visits"]  # optional entry left to its documented default
                    vp_ref = copy.deepcopy(vp)
                    feats = list(m.features)
                    res = m.simulate(algorithm="simulate", features=feats, visit_parameters=vp, seed=1234)
                    ipd = res.individual_parameters
                    out = dig({"data": res.data.to_dataframe(), "ip": ipd if isinstance(ipd, pd.DataFrame) else ipd.to_pytorch()[1]})
                    if vp != vp_ref or feats != list(m.features):
                        ctx.violation("api/simulate/caller-inputs-modified", "simulate modified the visit parameters / feature list passed in", case)
                elif what == "simulate_table":
                    # visit design given as a table: IDs in inclusion order (not sorted), rows not sorted by age
                    tab = pd.DataFrame({"ID": ["P3", "P3", "P1", "P1", "P1", "P2", "P2"], "TIME": [71.5, 70.0, 66.0, 68.5, 67.25, 80.0, 78.5]})
                    if (spec["k"] + i) % 2:  # integer identifiers (accepted by the design reader); fixed per case: every model object gets the same design
                        tab["ID"] = tab["ID"].map({"P3": 30, "P1": 4, "P2": 17})
                        ctx.count("simulate_tables_with_integer_ids")
                    tab_ref = tab.copy(deep=True)
                    vp = {"visit_type": "dataframe", "df_visits": tab}
                    feats = list(m.features)
                    res = m.simulate(algorithm="simulate", features=feats, visit_parameters=vp, seed=1234)
                    ipd = res.individual_parameters
                    out = dig({"data": res.data.to_dataframe(), "ip": ipd if isinstance(ipd, pd.DataFrame) else ipd.to_pytorch()[1]})
                    ctx.count("input_snapshots")
                    if not (tab.equals(tab_ref) and list(tab.index) == list(tab_ref.index) and list(tab.dtypes) == list(tab_ref.dtypes)):
                        ctx.violation("api/simulate/caller-visit-table-modified", "simulate modified (reordered / changed) the visit table passed in", case)
                    # the same table object reused for a second call: same answer
                    res2 = m.simulate(algorithm="simulate", features=feats, visit_parameters=vp, seed=1234)
                    ipd2 = res2.individual_parameters
                    out2 = dig({"data": res2.data.to_dataframe(), "ip": ipd2 if isinstance(ipd2, pd.DataFrame) else ipd2.to_pytorch()[1]})
                    if out2 != out:
                        ctx.violation("api/simulate/repeat-with-reused-table-differs", "simulate called twice with the same visit-table object and seed gives two answers", case)
                elif what == "scipy_minimize_custom":
                    ipr = m.personalize(ds_in, "scipy_minimize", seed=77, progress_bar=False, use_jacobian=False,
                                        custom_scipy_minimize_params={"method": "Powell", "options": {"xtol": 1e-2, "ftol": 1e-2, "maxiter": 30}})
                    out = dig({"ids": list(ipr._indices), "ip": ipr.to_pytorch()[1]})
                else:
                    use_df = bool(rng.random() < 0.5) and not events and not int_ids
                    data_arg = df_in.set_index(["ID", "TIME"]) if use_df else ds_in
                    if use_df:
                        df_ref = data_arg.copy(deep=True)
                    if settings is not None:
                        ipr = m.personalize(data_arg, algorithm_settings=settings)
                    else:
                        kws = dict(seed=77, progress_bar=False)
                        kws.update(dict(use_jacobian=False) if what == "scipy_minimize" else dict(n_iter=12, n_burn_in_iter=4))
                        ipr = m.personalize(data_arg, what, **kws)
                    out = dig({"ids": list(ipr._indices), "ip": ipr.to_pytorch()[1]})
                    ctx.count("input_snapshots")
                    if use_df and not (data_arg.equals(df_ref) and list(data_arg.dtypes) == list(df_ref.dtypes) and data_arg.index.equals(df_ref.index)):
                        ctx.violation("api/personalize/caller-table-modified", f"{what} modified the DataFrame passed in", case)
                    if ds_digest() != ds_dig:
                        ctx.violation("api/personalize/caller-dataset-modified", f"{what} modified the Dataset tensors passed in", case)
            after = model_snapshot(m)
            ctx.count("calls_monitored")
            ctx.evaluated()
            for part in ("parameters", "hyperparameters", "population"):
                if before[part] != after[part]:
                    ctx.violation(f"api/{what}/model-{part}-changed", f"{what} changed the model's {part}", case)
            new_data = set(after["data_present"]) - set(before["data_present"])
            new_ind = set(after["individual_present"]) - set(before["individual_present"])
            if new_data or new_ind:
                ctx.violation(f"api/{what}/leaves-call-data-in-model", f"after {what} the model state newly holds {sorted(new_data | new_ind)}", case)
            if settings is not None and settings_snapshot(settings) != s_before:
                ctx.violation(f"api/{what}/settings-object-modified", f"{what} modified the AlgorithmSettings object passed in", case)
            return out

        try:
            with contextlib.redirect_stdout(io.StringIO()):
                ip0 = reload_.personalize(gen.to_dataset(df_new, events=events), "mode_posterior", seed=5, n_iter=8, n_burn_in_iter=2, progress_bar=False)
            ages["ip"] = ip0
            ages["t"] = {sid: [float(x) for x in rng.uniform(50, 95, size=int(rng.integers(1, 5)))] for sid in ip0._indices}
            # random intermediate history on `hist`
            allowed = [c for c in CALLS if not (c.startswith("simulate") and (kind != "logistic" or binary or src < 1))]
            finals = allowed if ctx.tier == "thorough" else [allowed[(spec["k"] + i + j) % len(allowed)] for j in range(3)]
            finals = list(dict.fromkeys(finals))
            # answers BEFORE anything else happens in this interpreter on these models (process-level history must not matter either)
            before_any = {what: do_call(reload_, what, who="reloaded(before any other call)") for what in finals} if reload_same else {}
            h_len = int(rng.integers(1, 5))
            hist_ops = allowed + ([] if kind in ("joint",) else HISTORY_ONLY)
            history = [hist_ops[int(rng.integers(len(hist_ops)))] for _ in range(h_len)]
            if (spec["k"] + i) % 3 == 0 and kind not in ("joint",) and "scipy_minimize_custom" not in history:
                history.append("scipy_minimize_custom")
            refit = bool((spec["k"] + i) % 4 == 1) and kind != "joint"
            for what in history:
                do_call(hist, what, who="history-model(intermediate)")
            if (spec["k"] + i) % 3 == 1:
                # a call the library refuses half-way (data of another layout than the model's): afterwards the model object must still behave
                # like one that never saw that call (checked by the final comparisons below)
                try:
                    if events:
                        bad_data = gen.to_dataset(df_new.drop(columns=["EVENT_TIME", "EVENT_BOOL"]), events=False)
                    else:
                        from leaspy.io.data import Data as _Data

                        ids_ = list(dict.fromkeys(df_new["ID"]))
                        ev_df = pd.DataFrame({"ID": ids_, "EVENT_TIME": [90.0 + j_ for j_ in range(len(ids_))], "EVENT_BOOL": [j_ % 2 for j_ in range(len(ids_))]})
                        bad_data = _Data.from_dataframe(ev_df, data_type="event")
                    try:
                        with contextlib.redirect_stdout(io.StringIO()):
                            hist.personalize(bad_data, "mean_posterior", n_iter=5, n_burn_in_iter=2, seed=3, progress_bar=False)
                        ctx.count("ill_suited_call_in_history_was_accepted")
                    except Exception:
                        ctx.count("refused_calls_in_history")
                        history = history + ["(refused call)"]
                except Exception as e:
                    ctx.note(f"refused_call_setup_{type(e).__name__}", str(e)[:160])
            if refit:
                # the calibration of the history model is resumed (second fit on the same object) after it was used: whatever it answers
                # afterwards must be what a model reloaded from its own saved file answers (same parameters, no history)
                with contextlib.redirect_stdout(io.StringIO()):
                    hist.fit(gen.to_dataset(df_train, events=events), "mcmc_saem", n_iter=6, seed=seed_fit + 1, progress_bar=False)
                p2 = os.path.join(tmp, "hist.json")
                hist.save(p2)
                twin = BaseModel.load(p2)
                ctx.count("refits_in_history")
                if dig(dict(twin.parameters)) == dig(dict(hist.parameters)):
                    for what in [w for w in ("estimate", "mean_posterior") if w in allowed]:
                        o_h = do_call(hist, what, who="history-model(after resumed fit)")
                        o_t = do_call(twin, what, who="reloaded copy of the history-model")
                        ctx.count("diff_refit_vs_its_reload")
                        if o_h != o_t:
                            ctx.violation(f"api/{what}/stale-after-resumed-fit",
                                          f"{what}: after {history} + a resumed fit, the model's answer differs from the answer of its own reloaded copy", dict(case0, history=history))
                history = history + ["(resumed fit)"]
            # final calls
            for what in finals:
                case = dict(case0, final=what, history=history)
                try:
                    o_fresh = do_call(fresh, what, who="fresh-from-fit")
                except Exception as e_f:
                    if before_any.get(what) is not None:
                        ctx.violation(f"api/{what}/result-depends-on-earlier-calls-in-the-process",
                                      f"{what}: raises {type(e_f).__name__} ({str(e_f)[:120]}) after {history} were run in this interpreter, while the very same "
                                      "call had succeeded before them", case)
                        continue
                    raise
                try:
                    o_hist = do_call(hist, what, who="after-history") if not refit else o_fresh
                except Exception as e_h:
                    # the freshly fitted twin just answered this very call: a model that only differs by its history must answer too
                    ctx.violation(f"api/{what}/result-depends-on-earlier-calls", f"{what}: raises {type(e_h).__name__} ({str(e_h)[:120]}) on the model after {history}, "
                                  "while the same call succeeds on the freshly fitted model holding the same parameters", case)
                    continue
                ctx.count("diff_fresh_vs_history")
                ctx.count("final_estimate" if what == "estimate" else ("final_simulate" if what.startswith("simulate") else "final_personalize"))
                key_suffix = "scipy_minimize/start-from-leftover-state" if what == "scipy_minimize" else f"api/{what}/result-depends-on-earlier-calls"
                if o_fresh != o_hist:
                    ctx.violation(key_suffix, f"{what}: result on the freshly fitted model differs from the result on the same-parameter model after {history}", case)
                if reload_same:
                    o_rel = do_call(reload_, what, who="reloaded")
                    ctx.count("diff_fresh_vs_reload")
                    if o_rel != o_fresh:
                        ctx.violation(key_suffix, f"{what}: result on the freshly fitted model differs from the result on its reloaded copy (same parameters)", case)
                    ctx.count("diff_before_vs_after_history")
                    if before_any.get(what) is not None and before_any[what] != o_rel:
                        ctx.violation(f"api/{what}/result-depends-on-earlier-calls-in-the-process",
                                      f"{what}: the same call on the same reloaded model gives another answer after {history} were run on another model object", case)
                    if what in ("scipy_minimize", "mean_posterior", "mode_posterior"):
                        kws = dict(seed=77, progress_bar=False)
                        kws.update(dict(use_jacobian=False) if what == "scipy_minimize" else dict(n_iter=12, n_burn_in_iter=4))
                        st = AlgorithmSettings(what, **kws)
                        o1 = do_call(reload_, what, settings=st, who="reloaded(settings object)")
                        o2 = do_call(reload_, what, settings=st, who="reloaded(settings object reused)")
                        ctx.count("diff_repeat_reused_settings")
                        if o1 != o2 or o1 != o_rel:
                            ctx.violation(f"api/{what}/repeat-differs", f"{what}: repeating the call with a reused settings object gives another answer", case)
                        if what == "scipy_minimize" and (spec["k"] + i) % 2 == 0:
                            # two worker processes: the seed (not the workers' own random state) decides the start points, call after call
                            st2 = AlgorithmSettings(what, seed=77, progress_bar=False, use_jacobian=False, n_jobs=2)
                            w1 = do_call(reload_, what, settings=st2, who="reloaded(settings object, 2 workers)")
                            w2 = do_call(reload_, what, settings=st2, who="reloaded(settings object reused, 2 workers)")
                            ctx.count("diff_repeat_two_workers")
                            if w1 != w2 or w1 != o_rel:
                                ctx.violation(f"api/{what}/repeat-differs", f"{what} with 2 workers: repeating the call with the same settings object and seed gives another answer "
                                              "(or another answer than with 1 worker)", case)
                        if what != "scipy_minimize":
                            # non-default options held in nested settings (tempered chains): the object is reused as is, then after its
                            # iteration count was changed by the caller; each time it must answer like a brand-new object with those options
                            def tempered(n):
                                return AlgorithmSettings(what, seed=77, progress_bar=False, n_iter=n, n_burn_in_iter=4,
                                                         annealing={"do_annealing": True, "initial_temperature": 5.0, "n_plateau": 3, "n_iter_frac": 0.5})

                            st = tempered(12)
                            a1 = do_call(reload_, what, settings=st, who="reloaded(tempered settings object)")
                            a2 = do_call(reload_, what, settings=st, who="reloaded(tempered settings object reused)")
                            a3 = do_call(reload_, what, settings=tempered(12), who="reloaded(new tempered settings object)")
                            st.parameters["n_iter"] = 20
                            b1 = do_call(reload_, what, settings=st, who="reloaded(tempered settings object reused with another n_iter)")
                            b2 = do_call(reload_, what, settings=tempered(20), who="reloaded(new tempered settings object, other n_iter)")
                            ctx.count("diff_repeat_reused_tempered_settings")
                            if not (a1 == a2 == a3) or b1 != b2:
                                ctx.violation(f"api/{what}/repeat-differs", f"{what}: a reused settings object with annealing options answers differently from a new, identical one", case)
                ctx.distinct(case0["model"], what, tuple(history))
            if i < 1:
                ctx.sample(dict(case0, history=history, finals=list(dict.fromkeys(finals)), reload_bit_identical=reload_same), limit=1)
        except Exception as e:
            import traceback

            msg = str(e)
            if kind == "joint" and "Shape of passed values" in msg:
                ctx.violation("scipy_minimize/start-from-leftover-state", "scipy_minimize on a fitted joint model crashes on the training cohort's left-over latent values "
                              f"({type(e).__name__}: {msg[:100]})", dict(case0))
            else:
                ctx.count("case_aborted")
                ctx.note(f"case_aborted_{type(e).__name__}", traceback.format_exc()[-400:])
        finally:
            shutil.rmtree(tmp, ignore_errors=True)
