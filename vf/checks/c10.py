"""C10 — re-centring is a pure gauge change; space shifts are orthogonal to progression.  DESIGN §2/C10.

Monitors: (A) a class-level wrapper around the real ``_center_xi_realizations`` compares trajectories / attachment terms /
event likelihood terms read just before and just after the call (both inside real fits and on states with random latent
values) and asserts mean(xi)=0 afterwards; (B) the defining inner product  sum_k a_k G_kk d_k  is evaluated in float64 for
every row a of ``mixing_matrix`` (d = direction of progression, G = the model's metric) on every state visited; (C) a
postcondition on direct calls of the real ``compute_orthonormal_basis`` over hostile directions / metrics.
"""
from __future__ import annotations

RULE = (
    "A: a case = one call of the real re-centring step (inside short real fits of logistic / linear / joint / mixture-logistic models with and "
    "without sources, and on ready states whose xi were shifted by a random offset in [-3,3]); B: one orthogonality evaluation per state visited "
    "(random population values: log_v0 spanning 6 orders of magnitude, log_g in [-3,3], betas in [-2,2], dimension 2-8, sources 1..dim-1) for "
    "logistic / linear / joint / shared-speed; C: one direct call of compute_orthonormal_basis(direction, metric) with directions containing exact "
    "zeros in the stripped coordinate, negative entries and 6 orders of magnitude. evaluations = A+B+C; distinct_nontrivial = distinct (model "
    "kind, dimension, sources, monitor) cells with |mean xi| > 1e-3 before the call (A) or a non-trivial mixing matrix (B)"
)
REQUIRED = {"recentre_calls": 300, "recentre_in_fit": 100, "ortho_states": 300, "ortho_direct": 300, "recentre_joint": 20, "ortho_shared_speed": 20, "two_event_joint_cases": 2, "states_after_a_rejected_trial_move": 20, "ortho_direct_with_non_default_strip_col": 50, "joint_states_with_wide_event_scales": 5, "recentre_through_statistics_on_a_working_copy": 20}
ASSUMPTIONS = [
    "float32 exp/log round trip: trajectories compared at 1e-5 absolute, attachment terms at 1e-5 relative (+1e-5 absolute); orthogonality "
    "residual judged relative to |a| |G d| at 1e-5 (measured 4e-8 on the unchanged tree)",
    "the mixture model's additional centring of sources is not the re-centring of log-accelerations and is outside the statement",
]


def shards(tier, seed):
    q = tier == "quick"
    out = [{"name": f"fit-{k}", "kind": "fit", "k": k, "n": 4 if q else 50, "budget_s": 120 if q else 1500} for k in range(8)]
    out += [{"name": f"states-{k}", "kind": "states", "k": k, "n": 60 if q else 1500, "budget_s": 120 if q else 1500} for k in range(6)]
    out += [{"name": f"direct-{k}", "kind": "direct", "k": k, "n": 400 if q else 20000} for k in range(2)]
    return out


GAUGE_NODES = ("model", "nll_attach_ind", "nll_attach_y_ind", "nll_attach_event_ind", "nll_attach", "predictions_event")


def _snapshot(state):
    from leaspy.utils.weighted_tensor import WeightedTensor

    probe = state.clone()
    out = {}
    names = set(state.dag.sorted_variables_names)
    for n in GAUGE_NODES:
        if n in names:
            try:
                v = probe[n]
            except Exception:
                continue
            out[n] = v.weighted_value.double() if isinstance(v, WeightedTensor) else v.double()
    return out


def install_recentre_monitor(ctx, current_case):
    """Patch, at class level, every model class that defines the re-centring step."""
    import torch

    import leaspy.models.joint as mj
    import leaspy.models.mixture as mm
    import leaspy.models.riemanian_manifold as mr

    classes = [mr.RiemanianManifoldModel, mj.JointModel]
    for nm in dir(mm):
        c = getattr(mm, nm)
        if isinstance(c, type) and "_center_xi_realizations" in c.__dict__:
            classes.append(c)
    for cls in classes:
        if "_vf_orig_center" in cls.__dict__:
            continue
        orig = cls.__dict__["_center_xi_realizations"].__func__
        cls._vf_orig_center = orig

        def wrapper(kls, state, _orig=orig):
            before = _snapshot(state)
            xi0 = state["xi"].double()
            # sensitivity of every monitored term to a uniform shift of xi (what a forgotten compensation would produce), used to
            # express the float32 exp/log round-trip error as an equivalent error on xi (<= 2e-4, measured <= 1e-5)
            bumped = state.clone(disable_auto_fork=True)
            bumped["xi"] = bumped["xi"] + 1e-2
            bumped_vals = _snapshot(bumped)
            sens = {n: (v - before[n]).abs() / 1e-2 for n, v in bumped_vals.items() if n in before and v.shape == before[n].shape}
            _orig(kls, state)
            after = _snapshot(state)
            case = dict(current_case)
            ctx.count("recentre_calls")
            ctx.evaluated()
            if case.get("in_fit"):
                ctx.count("recentre_in_fit")
            if "joint" in kls.__name__.lower():
                ctx.count("recentre_joint")
            m = float(state["xi"].double().mean())
            if abs(m) > 1e-6 * max(1.0, float(xi0.abs().max())):
                ctx.violation("recentre/xi-not-zero-mean", f"mean(xi) = {m} after re-centring", case)
            for n, b in before.items():
                a = after.get(n)
                if a is None:
                    ctx.violation("recentre/term-unavailable-after", f"'{n}' cannot be evaluated after re-centring", case)
                    continue
                fin = torch.isfinite(b) & torch.isfinite(a)
                sn = sens.get(n)
                sn = torch.nan_to_num(sn, nan=0.0, posinf=0.0)[fin] if sn is not None else 0.0
                # attachment totals are cancelling float32 sums (quadratic terms + log-scale terms): their rounding noise scales with the largest
                # term of the tensor, not with the entry itself (0.82 next to 130 moved by 4.5e-5 on the unchanged tree, thorough tier)
                scale = float(torch.clamp(b[fin].abs().max(), max=1e6)) if bool(fin.any()) else 0.0
                tol = (1e-5 if n in ("model",) else 1e-5 + 1e-5 * torch.maximum(a.abs(), b.abs())[fin] + 2e-6 * scale) + 2e-4 * sn
                d = (a - b).abs()[fin]
                # an entry whose value with xi shifted by 1e-2 is not even finite (overflowing power of an extremely peaked event law) has a
                # sensitivity that cannot be measured: the float32 rounding of the compensation, amplified by it, is not a gauge defect
                raw = sens.get(n)
                if raw is not None and raw.shape == b.shape:
                    unmeasurable = ~torch.isfinite(raw)[fin]
                    if bool(unmeasurable.any()):
                        ctx.count("gauge_entries_not_judged_unmeasurable_sensitivity", int(unmeasurable.sum()))
                        d = torch.where(unmeasurable, torch.zeros_like(d), d)
                if d.numel() and bool((d > tol).any()):
                    ctx.violation("recentre/not-a-gauge-change", f"re-centring changed '{n}' (max abs change {float(d.max()):.3g}, |mean xi| was {float(xi0.mean().abs()):.3g})",
                                  case, before=b.flatten()[:6].tolist(), after=a.flatten()[:6].tolist(),
                                  tolerance=(tol.flatten()[:6].tolist() if hasattr(tol, "flatten") else tol),
                                  sensitivity=(sn.flatten()[:6].tolist() if hasattr(sn, "flatten") else sn),
                                  with_xi_bumped=(bumped_vals[n].flatten()[:6].tolist() if n in bumped_vals else None))
                if not torch.equal(torch.isfinite(b), torch.isfinite(a)):
                    ctx.violation("recentre/not-a-gauge-change", f"re-centring changed finiteness of '{n}'", case)
            if float(xi0.mean().abs()) > 1e-3:
                ctx.distinct("A", kls.__name__, case.get("model"))

        cls._center_xi_realizations = classmethod(wrapper)


def ortho_residual(state, kind):
    """max_rows |sum_k a_k G_kk d_k| / (|a| |G d|) in float64, from the state's own mixing matrix, metric and direction."""
    import numpy as np

    a = state["mixing_matrix"].double().numpy()  # (n_sources, n_features)
    if kind == "shared_speed_logistic":
        d = state["collin_to_d_gamma_t0"].double().numpy()
        G = state["g_metric"].double().numpy()
    else:
        d = state["v0"].double().numpy()
        G = state["metric_sqr"].double().numpy()
    Gd = G * d if G.ndim <= 1 else G @ d
    res = np.abs(a @ Gd)
    scale = np.linalg.norm(a, axis=1) * np.linalg.norm(Gd)
    return float(np.max(res / np.maximum(scale, 1e-300))), a


def run_shard(spec, ctx):
    import numpy as np
    import torch

    from vf import gen
    from vf.checks.c15 import install_contract

    install_contract()
    current_case = {}
    install_recentre_monitor(ctx, current_case)
    kind = spec["kind"]
    GRID = [("logistic", 2, 1, "gaussian-diagonal"), ("logistic", 3, 0, "gaussian-scalar"), ("logistic", 4, 2, "gaussian-diagonal"),
            ("linear", 3, 1, "gaussian-diagonal"), ("linear", 2, 0, "gaussian-scalar"), ("joint", 1, 0, None), ("joint", 3, 1, None),
            ("joint", 4, 2, None), ("mixture_logistic", 3, 2, None), ("shared_speed_logistic", 3, 1, None), ("shared_speed_logistic", 5, 3, None),
            ("logistic", 8, 5, "gaussian-diagonal"), ("logistic", 6, 1, "gaussian-scalar"), ("linear", 7, 6, "gaussian-diagonal"),
            ("joint", 3, 1, "events2"), ("joint", 1, 0, "events2")]  # "events2": joint model with two competing events
    if kind == "fit":
        from leaspy.exceptions import LeaspyConvergenceError
        from vf.checks.c04 import fit_with_probe

        for i in ctx.cases(spec["n"]):
            rng = ctx.rng("fit", spec["k"], i)
            g = GRID[(spec["k"] * 3 + i) % len(GRID)]
            if g[0] == "shared_speed_logistic":
                g = (GRID[:9] + GRID[-2:])[(spec["k"] + i) % 11]
            knd, dim, src, noise = g
            events = knd == "joint"
            current_case.clear()
            current_case.update({"index": i, "model": list(map(str, g)), "in_fit": True})
            try:
                nb_ev = 2 if noise == "events2" else 1
                df = gen.cohort(rng, n_ind=int(rng.integers(5, 10)), n_feat=dim, missing="mcar", events=events, one_visit_ok=not events, nb_events=nb_ev)
                ds = gen.to_dataset(df, events=events, nb_events=nb_ev)
                kw = {"n_clusters": 2} if knd == "mixture_logistic" else ({"nb_events": 2} if nb_ev == 2 else {})
                if nb_ev == 2:
                    noise = None
                    ctx.count("two_event_joint_cases")
                model = gen.make_model(knd, dim, src, noise, **kw) if noise else gen.make_model(knd, dim, src, **kw)
                model.initialize(ds)
            except Exception:
                ctx.count("setup_skipped")
                continue

            def on_step(rec, state, _g=g):
                if _g[2] >= 1 and "mixing_matrix" in set(state.dag.sorted_variables_names):
                    _judge_ortho(ctx, state.clone(), _g, dict(current_case, k=rec["k"]))

            try:
                fit_with_probe(model, ds, dict(n_iter=int(rng.integers(8, 25)), seed=int(rng.integers(1 << 30))), on_step=on_step)
            except LeaspyConvergenceError:
                ctx.count("fit_aborted_by_convergence_guard")
            except Exception as e:
                ctx.count("fit_aborted_other")
                ctx.note(f"fit_aborted_{type(e).__name__}", str(e)[:160])
            if i < 1:
                ctx.sample(dict(current_case), limit=1)
    elif kind == "states":
        for i in ctx.cases(spec["n"]):
            rng = ctx.rng("states", spec["k"], i)
            g = GRID[(spec["k"] * 5 + i) % len(GRID)]
            knd, dim, src, noise = g
            current_case.clear()
            current_case.update({"index": i, "model": list(map(str, g)), "in_fit": False})
            try:
                model, ds, state, df = gen.ready_state(rng, *g, n_ind=int(rng.integers(3, 8)))
            except Exception:
                ctx.count("setup_skipped")
                continue
            st = state.clone()
            with st.auto_fork(None):
                # random admissible population values and shifted individual values
                for pv in model.population_variables_names:
                    cur = st[pv]
                    if pv == "log_v0":
                        new = torch.tensor(rng.uniform(-9.0, 0.0, size=tuple(cur.shape)), dtype=cur.dtype)
                    elif pv == "log_g":
                        new = torch.tensor(rng.uniform(-3.0, 3.0, size=tuple(cur.shape)), dtype=cur.dtype)
                    elif pv == "betas":
                        new = torch.tensor(rng.uniform(-2.0, 2.0, size=tuple(cur.shape)), dtype=cur.dtype)
                    elif pv == "n_log_nu" and i % 2:
                        # Weibull scales from 1e-5 to 1e5 time units (ages counted in days, or in centuries)
                        new = torch.tensor(rng.uniform(-11.5, 11.5, size=tuple(cur.shape)), dtype=cur.dtype)
                        ctx.count("joint_states_with_wide_event_scales")
                    elif pv == "log_rho" and i % 2:
                        new = torch.tensor(rng.uniform(-1.5, 1.5, size=tuple(cur.shape)), dtype=cur.dtype)
                    else:
                        new = cur + torch.tensor(rng.normal(0, 0.3, size=tuple(cur.shape)), dtype=cur.dtype)
                    st[pv] = new
                st["xi"] = st["xi"] * float(rng.uniform(0.2, 2.0)) + float(rng.uniform(-3, 3))
                if "sources" in model.individual_variables_names:
                    st["sources"] = torch.tensor(rng.uniform(-3, 3, size=tuple(st["sources"].shape)), dtype=st["sources"].dtype)
            if (spec["k"] + i) % 2 == 0:
                # the state has just been assigned (nothing derived is evaluated yet): a rejected trial move - assign under fork, evaluate, revert -
                # as a sampler does, must leave no trace in what is judged below
                from leaspy.variables.state import StateForkType

                try:
                    for tv_, delta in (("log_v0", 0.7), ("xi", 0.37)):
                        if tv_ in set(st.dag.sorted_variables_names):
                            with st.auto_fork(StateForkType.REF):
                                st[tv_] = st[tv_] + delta
                                for n_ in GAUGE_NODES + ("mixing_matrix", "space_shifts"):
                                    if n_ in set(st.dag.sorted_variables_names):
                                        try:
                                            st[n_]
                                        except Exception:
                                            pass
                                st.revert()
                    ctx.count("states_after_a_rejected_trial_move")
                    current_case["after_rejected_trial_moves"] = True
                except Exception as e:
                    ctx.count("trial_move_skipped")
                    ctx.note(f"trial_move_skipped_{type(e).__name__}", str(e)[:160])
            if src >= 1:
                _judge_ortho(ctx, st.clone(), g, dict(current_case))
            cls = type(model)
            if hasattr(cls, "_center_xi_realizations") and i % 3 == 0 and knd != "mixture_logistic":
                # the re-centring as the fit reaches it (through the statistics step), on a working copy that is NOT the model's own state
                try:
                    work = st.clone()
                    own_before = {v_: (model.state._values.get(v_).clone() if model.state._values.get(v_) is not None else None) for v_ in ("xi", "log_v0", "n_log_nu")
                                  if v_ in set(model.state.dag.sorted_variables_names)}
                    with work.auto_fork(None):
                        model.compute_sufficient_statistics(work)
                    ctx.count("recentre_through_statistics_on_a_working_copy")
                    mw = float(work["xi"].double().mean())
                    if abs(mw) > 1e-6 * max(1.0, float(work["xi"].double().abs().max())):
                        ctx.violation("recentre/xi-not-zero-mean", f"mean(xi) = {mw} on the state handed to compute_sufficient_statistics (a working copy of the model's state)",
                                      dict(current_case, via="compute_sufficient_statistics(copy)"))
                    for v_, b_ in own_before.items():
                        a_ = model.state._values.get(v_)
                        if (a_ is None) != (b_ is None) or (a_ is not None and not torch.equal(a_, b_)):
                            ctx.violation("recentre/other-state-modified", f"compute_sufficient_statistics(copy) changed '{v_}' of the model's own state", dict(current_case))
                            break
                except Exception as e:
                    ctx.count("recentre_through_statistics_skipped")
                    ctx.note(f"recentre_through_statistics_skipped_{type(e).__name__}", str(e)[:160])
            if hasattr(cls, "_center_xi_realizations"):
                try:
                    with st.auto_fork(None):
                        cls._center_xi_realizations(st)
                except Exception as e:
                    ctx.violation("recentre/raises", f"re-centring raised {type(e).__name__}: {e}", dict(current_case))
                if src >= 1:
                    _judge_ortho(ctx, st.clone(), g, dict(current_case, after_recentre=True))
            if i < 1:
                ctx.sample(dict(current_case), limit=1)
    else:
        _direct(spec, ctx)


def _judge_ortho(ctx, st, g, case):
    try:
        r, a = ortho_residual(st, g[0])
    except Exception as e:
        ctx.count("ortho_not_evaluable")
        return
    ctx.count("ortho_states")
    ctx.evaluated()
    if g[0] == "shared_speed_logistic":
        ctx.count("ortho_shared_speed")
    import numpy as np

    if not np.isfinite(r):
        ctx.count("ortho_non_finite_not_judged")
        return
    if r > 1e-5:
        ctx.violation("ortho/mixing-matrix-row-not-orthogonal",
                      f"a row of the mixing matrix has relative inner product {r:.3g} with the direction of progression in the model's metric", case)
    if float(np.abs(a).max()) > 1e-6:
        ctx.distinct("B", g[0], g[1], g[2])


def _direct(spec, ctx):
    import numpy as np
    import torch

    from leaspy.utils.linalg import compute_orthonormal_basis

    for i in ctx.cases(spec["n"]):
        rng = ctx.rng("direct", spec["k"], i)
        dim = int(rng.integers(2, 9))
        style = int(rng.integers(0, 5))
        d = np.exp(rng.uniform(-7, 7, size=dim)) if style in (0, 1) else rng.normal(size=dim)
        if style == 1:
            d = d * rng.choice([-1.0, 1.0], size=dim)
        if style == 3:
            d[0] = 0.0  # sign(0) corner of the Householder step (stripped column is 0)
        if style == 4:
            d[:] = 0.0
            d[int(rng.integers(1, dim))] = float(rng.normal()) or 1.0
        gm = int(rng.integers(0, 3))
        G = [np.array(float(np.exp(rng.uniform(-3, 3)))), np.exp(rng.uniform(-4, 4, size=dim)), None][gm]
        if G is None:
            A = rng.normal(size=(dim, dim))
            G = A @ A.T + dim * np.eye(dim)
        dt = torch.tensor(d, dtype=torch.float32)
        Gt = torch.tensor(G, dtype=torch.float32)
        case = {"index": i, "direction": d.tolist(), "metric_kind": ["scalar", "diagonal", "matrix"][gm], "style": style}
        ctx.evaluated()
        ctx.count("ortho_direct")
        # documented keyword: which column of the full basis is the one collinear to the direction (and dropped); default 0
        strip = 0 if i % 3 else int(rng.integers(0, dim))
        if strip:
            case["strip_col"] = strip
            ctx.count("ortho_direct_with_non_default_strip_col")
        try:
            B = (compute_orthonormal_basis(dt, Gt, strip_col=strip) if strip else compute_orthonormal_basis(dt, Gt)).double().numpy()
        except Exception as e:
            ctx.violation("ortho/basis-raises", f"compute_orthonormal_basis raised {type(e).__name__}: {e} on an admissible (direction, metric)", case)
            continue
        Gd = (G * d) if np.ndim(G) <= 1 else (G @ d)
        Gd32 = Gt.double().numpy() * dt.double().numpy() if np.ndim(G) <= 1 else Gt.double().numpy() @ dt.double().numpy()
        if B.shape != (dim, dim - 1) or not np.isfinite(B).all():
            ctx.violation("ortho/basis-shape-or-nonfinite", f"basis has shape {B.shape} / non-finite entries", case)
            continue
        res = np.abs(B.T @ Gd32) / max(np.linalg.norm(Gd32), 1e-300)
        gram = B.T @ B
        if res.max() > 2e-5:
            ctx.violation("ortho/basis-not-orthogonal-to-G-direction", f"basis column has relative inner product {res.max():.3g} with G.direction", case)
        if np.abs(gram - np.eye(dim - 1)).max() > 2e-5:
            ctx.violation("ortho/basis-not-orthonormal", f"basis columns are not orthonormal (max dev {np.abs(gram - np.eye(dim - 1)).max():.3g})", case)
        ctx.distinct("C", dim, style, gm, i % 50)
        # a metric that is not a scalar, a vector or a square matrix of the direction's size is documented as refused (model-input error): a
        # wrongly shaped metric must never be turned silently into a basis that is not one
        if i % 5 == 0:
            from leaspy.exceptions import LeaspyModelInputError

            bad_shape = [(1, dim), (2, dim) if dim != 2 else (3, dim), (dim, 1), (dim + 1,)][int(rng.integers(0, 4))]
            Gbad = torch.tensor(np.exp(rng.uniform(-1, 1, size=bad_shape)), dtype=torch.float32)
            ctx.count("ortho_direct_ill_shaped_metrics")
            try:
                Bb = compute_orthonormal_basis(dt, Gbad)
            except Exception as e:  # refused (whatever the exception type: the statement is about what an ACCEPTED metric yields)
                ctx.count("ortho_direct_ill_shaped_metric_refused")
                if not isinstance(e, (LeaspyModelInputError, ValueError)):
                    ctx.count("ortho_direct_ill_shaped_metric_refused_with_another_exception_type")
            else:
                Bb = Bb.double().numpy()
                gram_b = Bb.T @ Bb if Bb.ndim == 2 else None
                if gram_b is None or Bb.shape != (dim, dim - 1) or not np.isfinite(Bb).all() or np.abs(gram_b - np.eye(dim - 1)).max() > 2e-5:
                    ctx.violation("ortho/ill-shaped-metric-accepted", f"metric of shape {bad_shape} for a direction of size {dim} was accepted and gave a 'basis' that is not "
                                  "orthonormal", dict(case, metric_shape=list(bad_shape)))
