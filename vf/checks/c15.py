"""C15 — dependency-graph construction is exact.  DESIGN §2/C15.

Oracle: a runtime contract (icontract.ensure) on the real ``VariablesDAG.__post_init__`` that
compares what the constructed object reports with an independent DFS closure (vf.refmodel.dagref),
plus an outer monitor on accept / refuse and on determinism under re-ordering of the definitions.
Workload: exhaustive enumeration of small digraphs, sampled larger ones, real model graphs.
"""
from __future__ import annotations

import itertools

RULE = (
    "every labelled digraph (incl. self-loops) on n<=4 nodes and every loop-free digraph on 5 nodes is enumerated "
    "(thorough: + all 2^25 digraphs on 5 nodes, all 2^15 upper-triangular 6-node graphs under 1+20 relabelings); random "
    "6-60 node digraphs and the graphs of all shipped model kinds are added; a case = one definition set handed to the real "
    "constructor; distinct = distinct (node names, edge set); non-trivial = every case (accepted: closure+order contract "
    "evaluated; refused: reference confirms a cycle/self-loop/unknown/isolated node)"
)
REQUIRED = {"contract_evaluations": 1000, "accepted": 1000, "refused": 1000, "model_graphs": 10, "incremental_equal": 30, "listing_checks": 1000, "fromdict_decorated_link_functions": 50, "fromdict_definitions_implementing_the_interface_directly": 50, "mappings_in_different_key_orders": 300, "case_colliding_namings": 200}
EXHAUSTIVE = {"quick": True, "thorough": True}
ASSUMPTIONS = [
    "exhaustive scopes are finite (n<=5, loop-free at n=5 in quick); beyond them graphs are sampled",
    "any ValueError subclass (LeaspyInputError included) counts as refusal",
]


def shards(tier, seed):
    out = [{"name": "small-exhaustive", "kind": "small"}]
    out += [{"name": f"n5-loopfree-{k}", "kind": "n5", "part": k, "parts": 16} for k in range(16)]
    out += [{"name": f"sampled-{k}", "kind": "sampled", "n": 1500 if tier == "quick" else 20000, "k": k} for k in range(2)]
    out += [{"name": "models", "kind": "models"}]
    out += [{"name": "fromdict", "kind": "fromdict", "n": 400 if tier == "quick" else 5000}]
    if tier == "thorough":
        out += [{"name": f"n5-loops-{k}", "kind": "n5loops", "part": k, "parts": 64} for k in range(64)]
        out += [{"name": f"n6-tri-{k}", "kind": "n6tri", "part": k, "parts": 32} for k in range(32)]
    return out


class ContractBroken(Exception):
    pass


_state = {"evals": 0, "last_problems": None}


def install_contract():
    """icontract postcondition on the real constructor hook; returns the patched class."""
    import icontract
    from leaspy.variables.dag import VariablesDAG
    from vf.refmodel import dagref

    if getattr(VariablesDAG, "_vf_contract", False):
        return VariablesDAG

    def dag_reports_exact_closure_and_order(self) -> bool:
        _state["evals"] += 1
        nodes = list(self.variables.keys())
        anc = {n: set(self.direct_ancestors[n]) for n in nodes}
        probs = dagref.problems(
            nodes, anc, self.sorted_variables_names, self.sorted_children, self.sorted_ancestors, self.direct_children
        )
        if tuple(iter(self)) != tuple(self.sorted_variables_names):
            probs.append("iteration order differs from sorted_variables_names")
        _state["last_problems"] = probs
        return not probs

    orig = VariablesDAG.__post_init__
    wrapped = icontract.ensure(dag_reports_exact_closure_and_order, error=lambda self: ContractBroken(str(_state["last_problems"][:3])))(orig)
    VariablesDAG.__post_init__ = wrapped
    VariablesDAG._vf_contract = True
    return VariablesDAG


def _attempt(VariablesDAG, names, anc, ctx, case, check_determinism=True, rng=None):
    """Hand one definition set to the real constructor and judge accept/refuse + determinism."""
    from vf.refmodel import dagref

    variables = {n: object() for n in names}
    d_anc = {n: frozenset(anc[n]) for n in names}
    reason = dagref.classify(names, anc)
    ctx.evaluated()
    try:
        dag = VariablesDAG(variables, direct_ancestors=d_anc)
    except ContractBroken as e:
        ctx.violation("dag/closure-or-order-wrong", f"constructed graph misreports closure/order: {e}", case)
        return None
    except ValueError as e:
        if reason is None:
            ctx.violation("dag/valid-definitions-refused", f"valid definitions refused: {type(e).__name__}: {e}", case)
        else:
            ctx.count("refused")
            ctx.count(f"refused_{reason}")
        return None
    except Exception as e:  # any other exception type on a bad graph is not a clean refusal
        if reason is None:
            ctx.violation("dag/valid-definitions-crash", f"{type(e).__name__}: {e}", case)
        else:
            ctx.violation("dag/refusal-with-wrong-exception", f"{reason} graph raised {type(e).__name__}: {e}", case)
        return None
    if reason is not None:
        ctx.violation(f"dag/{reason}-accepted", f"definitions with a {reason} were accepted", case)
        return None
    ctx.count("accepted")
    if not _listing_ok(dag, variables, ctx, case):
        return None
    if check_determinism:
        # same definitions, different dict insertion order / set construction order
        perm = list(names)
        if rng is not None:
            rng.shuffle(perm)
        else:
            perm = perm[::-1]
        variables2 = {n: variables[n] for n in perm}
        _state["attempts"] = _state.get("attempts", 0) + 1
        plain_sets = _state["attempts"] % 2 == 0  # the dependencies written as ordinary (mutable) sets: same graph
        # the two mappings of the explicit constructor need not be written in the same key order
        perm_e = list(perm)
        if _state["attempts"] % 3 == 0:
            perm_e = perm_e[::-1] if rng is None else list(rng.permutation(perm_e))
            ctx.count("mappings_in_different_key_orders")
        d_anc2 = {n: (set if plain_sets else frozenset)(sorted(anc[n], reverse=True)) for n in perm_e}
        try:
            dag2 = VariablesDAG(variables2, direct_ancestors=d_anc2)
            if plain_sets:
                # the caller's definitions are an input: untouched, and usable for a second construction with the same result
                ctx.count("definitions_given_as_plain_sets")
                if {n: set(v) for n, v in d_anc2.items()} != {n: set(anc[n]) for n in names}:
                    ctx.violation("dag/caller-definitions-modified", "constructing the graph modified the dependency sets passed in", case)
                    return dag
                if {n: set(v) for n, v in dag2.direct_ancestors.items()} != {n: set(anc[n]) for n in names}:
                    ctx.violation("dag/closure-or-order-wrong", "direct dependencies held by the graph differ from the definitions", case)
                    return dag
                dag3 = VariablesDAG(variables2, direct_ancestors=d_anc2)
                if dag3.sorted_variables_names != dag2.sorted_variables_names:
                    ctx.violation("dag/order-not-deterministic", "second construction from the same definition objects gives another order", case)
                    return dag
        except ContractBroken as e:
            ctx.violation("dag/closure-or-order-wrong", f"constructed graph misreports closure/order (definitions as {'plain sets' if plain_sets else 'frozensets'}): {e}", case)
            return dag
        except Exception as e:
            ctx.violation("dag/order-dependent-refusal", f"same definitions in another insertion order raised {e!r}", case)
            return dag
        ctx.count("determinism_checks")
        if (
            dag.sorted_variables_names != dag2.sorted_variables_names
            or dict(dag.sorted_children) != dict(dag2.sorted_children)
            or dict(dag.sorted_ancestors) != dict(dag2.sorted_ancestors)
        ):
            ctx.violation(
                "dag/order-not-deterministic",
                "order depends on insertion order of the definitions",
                case,
                a=dag.sorted_variables_names,
                b=dag2.sorted_variables_names,
            )
    return dag


def _listing_ok(dag, variables, ctx, case):
    """Every public way of listing the graph (iteration, keys / items / values of the mapping) gives the one documented order."""
    order = list(dag.sorted_variables_names)
    try:
        listings = {"iter": list(dag), "keys": list(dag.keys()), "items": [k for k, _ in dag.items()]}
        vals = list(dag.values())
        its = list(dag.items())
    except Exception as e:
        ctx.violation("dag/listing-raises", f"listing the graph raised {e!r}", case)
        return False
    ctx.count("listing_checks")
    for how, got in listings.items():
        if got != order:
            ctx.violation("dag/listing-order-differs", f"listing the graph through {how} gives {got[:8]}, the order of the graph is {order[:8]}", case)
            return False
    if variables is not None and (any(v is not variables[k] for k, v in its) or any(v is not variables[k] for k, v in zip(order, vals))):
        ctx.violation("dag/listing-order-differs", "items() / values() do not pair the names of the graph's order with their definitions", case)
        return False
    return True


def _graph_from_mask(n, mask, names, with_loops):
    """Bit k of mask <-> k-th ordered pair (i -> j means i is a direct ancestor of j)."""
    anc = {nm: set() for nm in names}
    k = 0
    for i in range(n):
        for j in range(n):
            if i == j and not with_loops:
                continue
            if (mask >> k) & 1:
                anc[names[j]].add(names[i])
            k += 1
    return anc


# names chosen so that name order is unrelated to index order
NAMESETS = {
    1: [["a"]],
    2: [["b", "a"]],
    3: [["b", "c", "a"]],
    4: [["c", "a", "d", "b"]],
    5: [["d", "b", "e", "a", "c"]],
    6: [["d", "b", "f", "a", "e", "c"]],
}


def run_shard(spec, ctx):
    VariablesDAG = install_contract()
    kind = spec["kind"]
    rng = ctx.rng("c15")
    only = spec.get("only")

    def do_mask(n, mask, with_loops, extra_namings=0):
        names = NAMESETS[n][0]
        case = {"index": mask + (n << 40), "n": n, "mask": mask, "with_loops": with_loops, "names": names}
        anc = _graph_from_mask(n, mask, names, with_loops)
        dag = _attempt(VariablesDAG, names, anc, ctx, case)
        if dag is not None and n >= 2 and mask % 7 == 0:
            # names differing only by case ("t"/"T"): the order must still be a function of the definitions alone
            pool = ["t", "T", "g", "G", "Tt", "tT"][:n] if n <= 6 else names
            nm = list(rng.permutation(pool))
            anc_c = _graph_from_mask(n, mask, nm, with_loops)
            _attempt(VariablesDAG, nm, anc_c, ctx, dict(case, names=nm), rng=rng)
            ctx.count("case_colliding_namings")
            ctx.distinct_add(1)
        if dag is not None and extra_namings:
            for _ in range(extra_namings):
                nm = list(rng.permutation(names))
                anc2 = _graph_from_mask(n, mask, nm, with_loops)
                _attempt(VariablesDAG, nm, anc2, ctx, dict(case, names=nm), rng=rng)
                ctx.distinct_add(1)
        ctx.distinct_add(1)
        if mask % 9973 == 0:
            ctx.sample({"n": n, "edges(anc)": {k: sorted(v) for k, v in anc.items()}, "accepted": dag is not None,
                        "order": list(dag.sorted_variables_names) if dag is not None else None}, limit=2)

    if kind == "small":
        if only is not None:
            for m in only:
                do_mask(m >> 40, m & ((1 << 40) - 1), True)
        else:
            for n in (1, 2, 3, 4):
                for mask in range(2 ** (n * n)):
                    do_mask(n, mask, True, extra_namings=2 if n <= 3 else 0)
    elif kind == "n5":
        total = 2 ** 20
        lo, hi = total * spec["part"] // spec["parts"], total * (spec["part"] + 1) // spec["parts"]
        for mask in ([m & ((1 << 40) - 1) for m in only] if only is not None else range(lo, hi)):
            do_mask(5, mask, False, extra_namings=1)
    elif kind == "n5loops":
        total = 2 ** 25
        lo, hi = total * spec["part"] // spec["parts"], total * (spec["part"] + 1) // spec["parts"]
        for mask in ([m & ((1 << 40) - 1) for m in only] if only is not None else range(lo, hi)):
            do_mask(5, mask, True)
    elif kind == "n6tri":
        pairs = [(i, j) for i in range(6) for j in range(i + 1, 6)]
        total = 2 ** 15
        lo, hi = total * spec["part"] // spec["parts"], total * (spec["part"] + 1) // spec["parts"]
        base = NAMESETS[6][0]
        for mask in (only if only is not None else range(lo, hi)):
            r = ctx.rng("n6", mask)
            for rep in range(21):
                names = list(base) if rep == 0 else list(r.permutation(base))
                anc = {nm: set() for nm in names}
                for k, (i, j) in enumerate(pairs):
                    if (mask >> k) & 1:
                        anc[names[j]].add(names[i])
                _attempt(VariablesDAG, names, anc, ctx, {"index": mask, "n": 6, "tri_mask": mask, "names": names}, rng=r)
                ctx.distinct_add(1)
    elif kind == "sampled":
        for i in ctx.cases(spec["n"]):
            r = ctx.rng("sampled", spec["k"], i)
            n = int(r.integers(6, 61))
            names = [f"v{int(x):03d}" for x in r.permutation(n * 3)[:n]]
            if i % 4 == 0:  # half of the names get a case twin of another one ("v012" / "V012")
                names = [names[j - 1].upper() if (j % 2 and names[j - 1].upper() not in names) else nm for j, nm in enumerate(names)]
            topo = list(r.permutation(names))
            style = int(r.integers(0, 6))
            anc = {nm: set() for nm in names}
            p = float(r.choice([0.03, 0.1, 0.3]))
            for jj, child in enumerate(topo):
                for parent in topo[:jj]:
                    if r.random() < p:
                        anc[child].add(parent)
            if style == 1:  # long chain
                for a, b in zip(topo, topo[1:]):
                    anc[b].add(a)
            if style == 2:  # back edge -> cycle (possibly unreachable from any root)
                a, b = sorted(r.choice(n, 2, replace=False))
                anc[topo[a]].add(topo[b])
                for x, y in zip(topo[a:b], topo[a + 1 : b + 1]):
                    anc[y].add(x)
            if style == 3:  # self loop
                x = topo[int(r.integers(n))]
                anc[x].add(x)
            if style == 4:  # unknown name
                anc[topo[int(r.integers(n))]].add("ghost")
            if style == 5:  # late root + diamonds
                root = topo[-1]
                anc[root] = set()
                for c in topo[: n // 2]:
                    if r.random() < 0.3:
                        anc[c] = set(anc[c]) - {root}
            # make sure no accidental isolated node unless intended
            if style != 0:
                has_child = set().union(*anc.values())
                for nm in names:
                    if not anc[nm] and nm not in has_child:
                        other = [x for x in topo if x != nm][0]
                        if topo.index(other) < topo.index(nm):
                            anc[nm].add(other)
                        else:
                            anc[other].add(nm)
            case = {"index": i, "n": n, "style": style, "anc": {k: sorted(v) for k, v in anc.items()}}
            _attempt(VariablesDAG, names, anc, ctx, case, rng=r)
            ctx.distinct(names, sorted((k, tuple(sorted(v))) for k, v in anc.items()))
            if i < 2:
                ctx.sample({"n": n, "style": style, "n_edges": sum(len(v) for v in anc.values())})
    elif kind == "fromdict":
        _run_fromdict(spec, ctx, VariablesDAG)
    elif kind == "models":
        _run_models(ctx, VariablesDAG)
    ctx.count("contract_evaluations", _state["evals"])


def _custom_variable(deps):
    from leaspy.variables.specs import VariableInterface

    class Affine(VariableInterface):
        """A user-defined dependent variable: implements the documented interface without deriving from LinkedVariable."""
        is_settable = False
        fixed_shape = False

        def __init__(self, deps):
            self._deps = deps

        def get_ancestors_names(self):
            return self._deps

        def compute(self, state):
            return 0

    return Affine(deps)


def _linked_subclass():
    from leaspy.variables.specs import LinkedVariable

    class Traced(LinkedVariable):
        pass

    return Traced


def _run_fromdict(spec, ctx, VariablesDAG):
    """Definitions given as real IndepVariable / LinkedVariable objects (dependencies inferred from signatures)."""
    from leaspy.variables.specs import IndepVariable, LinkedVariable
    from vf.refmodel import dagref

    for i in ctx.cases(spec["n"]):
        r = ctx.rng("fromdict", i)
        n = int(r.integers(2, 12))
        names = [f"x{int(k)}" for k in r.permutation(40)[:n]]
        topo = list(r.permutation(names))
        anc = {nm: set() for nm in names}
        for jj, child in enumerate(topo):
            for parent in topo[:jj]:
                if r.random() < 0.35:
                    anc[child].add(parent)
        bad = int(r.integers(0, 4))
        if bad == 1:  # cycle through two linked variables
            a, b = topo[0], topo[-1]
            anc[a].add(b)
            anc[b].add(a)
        elif bad == 2:
            anc[topo[-1]].add("nowhere")
        defs = {}
        for nm in r.permutation(names):
            if anc[nm]:
                src = "lambda *, " + ", ".join(sorted(anc[nm])) + ": 0"
                fn = eval(src)
                style = int(r.integers(0, 4))
                if style == 1:
                    # a link function that went through a functools.wraps-based decorator (tracing, torch.no_grad(), ...): same signature
                    import functools

                    def deco(f):
                        @functools.wraps(f)
                        def wrapper(*args, **kwargs):
                            return f(*args, **kwargs)
                        return wrapper

                    fn = deco(fn)
                    ctx.count("fromdict_decorated_link_functions")
                elif style == 2:
                    import functools

                    fn = functools.partial(fn)  # a partial object without bound arguments: same signature
                how = int(r.integers(0, 6))
                if how == 0:
                    # a definition written against the public interface itself (VariableInterface is what the graph is documented to hold):
                    # it declares its dependencies through get_ancestors_names() like every other kind
                    defs[nm] = _custom_variable(frozenset(anc[nm]))
                    ctx.count("fromdict_definitions_implementing_the_interface_directly")
                elif how == 1:
                    defs[nm] = _linked_subclass()(fn)
                    ctx.count("fromdict_definitions_of_a_linked_subclass")
                else:
                    defs[nm] = LinkedVariable(fn)
            else:
                defs[nm] = IndepVariable()
        reason = dagref.classify(names, anc)
        ctx.evaluated()
        case = {"index": i, "anc": {k: sorted(v) for k, v in anc.items()}}
        try:
            dag = VariablesDAG.from_dict(defs)
        except ContractBroken as e:
            ctx.violation("dag/closure-or-order-wrong", f"from_dict: {e}", case)
            continue
        except ValueError as e:
            if reason is None:
                ctx.violation("dag/valid-definitions-refused", f"from_dict refused valid definitions: {e}", case)
            else:
                ctx.count("refused")
            continue
        if reason is not None:
            ctx.violation(f"dag/{reason}-accepted", f"from_dict accepted definitions with a {reason}", case)
            continue
        ctx.count("accepted")
        # inferred direct ancestors must be exactly the functions' keyword names
        for nm in names:
            if set(dag.direct_ancestors[nm]) != anc[nm]:
                ctx.violation("dag/from_dict-wrong-ancestors", f"direct ancestors of {nm} differ from the definition", case)
        ctx.distinct(sorted((k, tuple(sorted(v))) for k, v in anc.items()))


def model_zoo():
    """(label, factory) for every shipped stateful model kind x sources x noise."""
    from leaspy.models import (
        JointModel, LinearModel, LogisticModel, SharedSpeedLogisticModel,
    )

    zoo = []
    for dim, src in ((1, 0), (2, 0), (3, 1), (4, 2), (5, 3)):
        for noise in ("gaussian-scalar", "gaussian-diagonal"):
            zoo.append((f"logistic-d{dim}-s{src}-{noise}", lambda dim=dim, src=src, noise=noise: LogisticModel(
                "logistic", dimension=dim, source_dimension=src, obs_models=noise)))
            zoo.append((f"linear-d{dim}-s{src}-{noise}", lambda dim=dim, src=src, noise=noise: LinearModel(
                "linear", dimension=dim, source_dimension=src, obs_models=noise)))
        if dim >= 2:
            zoo.append((f"shared-d{dim}-s{src}", lambda dim=dim, src=src: SharedSpeedLogisticModel(
                "shared_speed_logistic", dimension=dim, source_dimension=src)))
        zoo.append((f"logistic-bernoulli-d{dim}-s{src}", lambda dim=dim, src=src: LogisticModel(
            "logistic", dimension=dim, source_dimension=src, obs_models="bernoulli")))
    for dim, src in ((1, 0), (3, 1), (4, 2)):
        zoo.append((f"joint-d{dim}-s{src}", lambda dim=dim, src=src: JointModel("joint", dimension=dim, source_dimension=src)))
    try:
        from leaspy.models import LogisticMultivariateMixtureModel as Mix

        for dim, src, k in ((2, 1, 2), (3, 2, 3)):
            zoo.append((f"mixture-d{dim}-s{src}-k{k}", lambda dim=dim, src=src, k=k: Mix(
                "mixture_logistic", dimension=dim, source_dimension=src, n_clusters=k)))
    except Exception:
        pass
    return zoo


def _run_models(ctx, VariablesDAG):
    from vf.refmodel import dagref

    for label, factory in model_zoo():
        ctx.evaluated()
        before = _state["evals"]
        try:
            model = factory()
            specs = model.get_variables_specs()
            dag = VariablesDAG.from_dict(specs)
        except ContractBroken as e:
            ctx.violation("dag/closure-or-order-wrong", f"model graph {label}: {e}", {"model": label})
            continue
        except Exception as e:
            ctx.count("model_graph_build_errors")
            ctx.note(f"model_build_error_{label}", repr(e))
            continue
        if _state["evals"] == before:
            ctx.inconclusive_because(f"contract not evaluated while building {label}")
        # second construction from a shuffled copy of the definitions: same order
        items = list(dict(specs).items()) if not hasattr(specs, "data") else [(k, specs[k]) for k in specs]
        dag2 = VariablesDAG({k: v for k, v in reversed(items)}, direct_ancestors={k: v.get_ancestors_names() for k, v in reversed(items)})
        if dag.sorted_variables_names != dag2.sorted_variables_names:
            ctx.violation("dag/order-not-deterministic", f"model graph {label} order depends on insertion order", {"model": label})
        if not _listing_ok(dag, None, ctx, {"model": label}):
            continue
        ctx.count("model_graphs")
        ctx.count("accepted")
        ctx.distinct("model", label, len(dag))
        _incremental(ctx, VariablesDAG, label, factory, dag)


def _incremental(ctx, VariablesDAG, label, factory, dag_all):
    """The graph is a function of the definitions present WHEN it is built: a collection filled step by step - with its automatic
    variables read, the collection iterated and intermediate graphs built in between - gives the same graph as one filled at once."""
    from leaspy.variables.specs import IndividualLatentVariable, NamedVariables

    specs = factory().get_variables_specs()
    explicit = [(k, v) for k, v in specs.data.items()]
    for style in range(3):
        r = ctx.rng("incremental", label, style)
        nv = NamedVariables()
        cuts = sorted(set(int(c) for c in r.integers(1, max(2, len(explicit)), size=3)))
        for j, (k, v) in enumerate(explicit):
            if k in nv.data:  # already added as a dedicated / regularity variable of an earlier definition
                continue
            nv[k] = v
            if j in cuts or style == 2:
                # the user looks at the collection in between
                for a in nv.AUTOMATIC_VARS:
                    nv[a].get_ancestors_names()
                if style >= 1:
                    list(nv.items())
                    try:
                        VariablesDAG.from_dict(nv)
                    except Exception:
                        pass  # an incomplete collection may legitimately be refused
        ctx.evaluated()
        ctx.count("incremental_builds")
        case = {"model": label, "style": style, "cuts": cuts}
        ind = sorted(k for k, v in nv.data.items() if isinstance(v, IndividualLatentVariable))
        want = {f"nll_regul_{k}_ind" for k in ind}
        try:
            dag = VariablesDAG.from_dict(nv)
        except ContractBroken as e:
            ctx.violation("dag/closure-or-order-wrong", f"incrementally filled collection {label}: {e}", case)
            continue
        except Exception as e:
            ctx.violation("dag/valid-definitions-refused", f"incrementally filled collection of {label} refused: {e!r}", case)
            continue
        got = set(dag.direct_ancestors["nll_regul_ind_sum_ind"])
        if got != want:
            ctx.violation("dag/automatic-node-wrong-ancestors", f"nll_regul_ind_sum_ind depends on {sorted(got)} but the collection has individual latent variables {ind}", case)
        elif {k: set(v) for k, v in dag.direct_ancestors.items()} != {k: set(v) for k, v in dag_all.direct_ancestors.items()}:
            ctx.violation("dag/depends-on-construction-history", f"{label}: direct ancestors differ between step-by-step and all-at-once collections", case)
        elif dag.sorted_variables_names != dag_all.sorted_variables_names:
            ctx.violation("dag/order-not-deterministic", f"{label}: order differs between step-by-step and all-at-once collections", case)
        else:
            ctx.count("incremental_equal")
        ctx.sample({"model": label, "n_nodes": len(dag), "first": list(dag.sorted_variables_names[:6])}, limit=1)
