"""Regenerates /verif/MANIFEST.json from the table below:  /venv/bin/python -m vf.manifest"""
import json
from pathlib import Path

VERIF = Path(__file__).resolve().parent.parent

# id -> (technique, level text, level note, design_ref)
CHECKS = {
    "C15": (
        "runtime contract (icontract postcondition on the real VariablesDAG constructor) vs an independent DFS closure, driven by exhaustive small-graph enumeration + sampled and real model graphs",
        "Held on every execution observed: all digraphs up to 4 nodes and all loop-free 5-node digraphs are pushed through the real constructor (thorough: all 2^25 5-node digraphs and relabelled 6-node DAGs), with a postcondition on closure, order and determinism; larger graphs are sampled. Exploration, not proof: the enumeration is complete only inside the stated scopes.",
        "Trusts the 60-line reference closure (vf/refmodel/dagref.py) and that ValueError subclasses are the refusal channel.",
        "DESIGN.md §2 C15",
    ),
}

CHECKS["C01"] = (
    "online reference-model monitor: every read of the real State compared with a from-scratch evaluation on a shadow of the independent values; quiescent-point cache invariant after every operation; random operation histories on toy and model graphs",
    "Held on the histories observed: thousands of random set/put/read/revert/partial-revert/clone/fork-switch histories on random toy graphs and on every shipped model graph, every read and every cache entry checked against an executable reference that shares no code with State's cache. Exploration: unbounded history space is sampled.",
    "Trusts vf/stateharness.RefState (documented semantics of set/put/revert/clone) and the individual-wise classification used to respect the documented partial-revert precondition.",
    "DESIGN.md §2 C01",
)
CHECKS["C02"] = (
    "twin execution: twin state receives only the accepted part of each proposal; all independent values, cache entries and reads compared after the decision and along a following history; real samplers observed through SamplerProbe (recorded proposals/decisions)",
    "Held on the episodes observed: proposal/decision episodes with finite, huge and non-finite proposals, full / per-individual / no rejection on toy and model graphs, plus every sample() call of the four real sampler kinds under normal and adversarial proposal scales. Exploration.",
    "Trusts the twin (plain assignment of accepted parts) and the recorded proposal/decision events returned by the real sampler methods.",
    "DESIGN.md §2 C02",
)

CHECKS["C03"] = (
    "recorded-trace checker: RNG tap + SamplerProbe record every normal/uniform draw, proposal, acceptance ratio and decision of the real samplers inside real MCMC-SAEM iterations; a reference recomputes proposal, exp(-D) from scratch and the decision, per decision",
    "Held on the decisions observed (thousands per run) over every (model kind, sampler kind, latent variable) cell with both outcomes seen, at several inverse temperatures and under normal / huge / tiny / mixed proposal scales. Exploration; the mixture model's cluster-weighted individual regularity is not recomputed (stated).",
    "Trusts the variables' own definitions for attachment/regularity values (re-evaluated from scratch, independently of the state's cache) and the recorded events returned by the real methods.",
    "DESIGN.md §2 C03",
)

CHECKS["C04"] = (
    "reference-model monitor at a hook: MStepProbe snapshots (parameters before, statistics in force, burn-in flag) at every M-step of real MCMC-SAEM fits; float64 closed forms recomputed from the snapshot and from an independent recount of observed entries",
    "Held on every parameter of every M-step observed (thousands per run) across model kinds, noise structures, missing-data patterns and positions of the memory-less boundary. Exploration; mixture per-cluster means/stds not judged (weighting not documented).",
    "Trusts vf/refmodel/mstep.py (the documented closed forms) and the snapshot taken at entry of update_parameters.",
    "DESIGN.md §2 C04",
)
CHECKS["C05"] = (
    "offline checker over a recorded trace: (k, s_k, S_(k-1), S_k) recorded at every iteration of real runs, recursion replayed in float64; constructor monitor on a grid of step powers",
    "Held on every iteration of the runs observed over a grid of (n_iter, burn-in fraction/count, power, model kind); refusal of powers outside (0.5,1] checked on ~80 values incl. the boundaries. Exploration.",
    "Trusts the recorded s_k (return value of the real compute_sufficient_statistics) as input of the replay.",
    "DESIGN.md §2 C05",
)

CHECKS["C10"] = (
    "before/after monitor wrapped (class level) around the real re-centring step inside real fits and on random states, with a sensitivity-calibrated tolerance; float64 evaluation of the defining inner product on every state visited; postcondition on direct calls of the real Householder routine",
    "Held on every re-centring call and every mixing matrix observed (logistic / linear / joint / mixture / shared-speed, dimension 2-8) plus direct calls with hostile directions (exact zeros, negative, 6 orders of magnitude) and scalar / diagonal / full metrics. Exploration.",
    "Trusts the state's own v0 / metric nodes as the direction and metric (their closed forms are C09's job); tolerance tied to the float32 exp/log round trip via a measured sensitivity.",
    "DESIGN.md §2 C10",
)

CHECKS["C06"] = (
    "metamorphic twin executions of the real code: loader's dataset vs twin with garbage (0, +-1e30, +-inf, NaN, random) at masked positions / padded ages (bit-identity) and vs twin with widened padding (5e-6); state terms, statistics, one M-step, three personalisation families, short seeded fits",
    "Held on every comparison observed over model kinds (Gaussian scalar/diagonal, Bernoulli, joint, mixture, shared-speed), missing patterns incl. whole feature missing for a subject, 8 garbage classes and 3 padding widths. Exploration.",
    "Trusts that writing into Dataset.values/timepoints/mask after the loader ran reaches the same state space the loader's zero fill hides; MCMC outputs judged only under garbage (bit-identical chains).",
    "DESIGN.md §2 C06",
)

CHECKS["C07"] = (
    "metamorphic executions of the real code on related cohorts (others perturbed / target alone / permuted / 1 vs 2 workers) + recorded decisions of the real individual sampler from the same RNG state; bit-identity for the target between two same-shaped executions",
    "Held on every relation observed over model kinds (incl. a two-event joint model: cohorts in which a kind of event goes absent, read with and without the announced number of events), cohorts of 3-13 individuals and three personalisation families. Exploration; personalisation outputs under permutation are not judged (position-indexed draws, the statement's own caveat).",
    "Trusts that loading two datasets into clones of the same initialised model keeps population variables fixed; hash seed pinned.",
    "DESIGN.md §2 C07",
)

CHECKS["C13"] = (
    "history-based differential monitor on the real API: same final call on same-parameter model objects with different call histories (fresh from fit / reloaded / after random estimate-personalize-simulate sequences / reused settings object), outputs compared bit-wise; before/after snapshots of model state and of every caller-owned input around every call",
    "Held on every call and every pair of histories observed over logistic / linear / shared-speed / joint / Bernoulli models and the three personalisation families, estimate and simulate. Exploration over sampled histories (length <= 5).",
    "Trusts sha256 digests of tensors / tables as equality; reload compared only when parameters reload bit-identically.",
    "DESIGN.md §2 C13",
)
CHECKS["C17"] = (
    "postconditions on the real personalize() result + recorders hooked on the algorithm instance: objective at start vs returned point through the algorithm's own objective (scipy), independent per-iteration log of draws / attachment / regularity with float64 mean / argmin over exactly the iterations k > n_burn_in (MCMC)",
    "Held on every subject of every personalisation observed over model kinds, cohorts of 1-30 subjects (one-visit subjects, heavy missingness, str / numeric-looking / int IDs), n_iter 1-80, burn-in 0 / mid / n_iter-1, annealing on/off. Exploration. Two known findings are reported by mechanism (mixture model cannot be personalised; integer IDs with scipy_minimize).",
    "Trusts the algorithm's own objective function for the non-worsening comparison and the state the samplers work on as the source of the recorded draws.",
    "DESIGN.md §2 C17",
)

CHECKS["C08"] = (
    "runtime contracts (icontract postconditions installed from the harness on the real NormalFamily / Bernoulli / right-censored Weibull density methods) comparing every call's result entry by entry with float64 textbook densities; outer comparison of Family.nll / regularization / symbolic functions; whole-state comparison of every attachment / regularity node of real models; contracts left on during short fits and personalisations",
    "Held on every density evaluation observed (>100k contract evaluations per quick run) over all broadcasting layouts, dtypes, extreme probabilities, Weibull shapes incl. peaked laws, events before / at / after the reference time, censoring flags, with and without sources. Exploration.",
    "Trusts vf/refmodel/dens08.py (textbook formulas written from docs/models.md); entries of weight 0 and float32 probabilities within eps of 0/1 (torch clamps) are not judged.",
    "DESIGN.md §2 C08",
)
CHECKS["C09"] = (
    "reference-model monitor + structural postconditions on the real estimate() / compute_individual_trajectory(): float64 closed forms from docs/models.md with a conditioning-aware tolerance; range, monotonicity, value at the reference time; keys / order / index / layout of the result",
    "Held on every request observed (3k+ models x requests per quick run; dict and MultiIndex, unsorted / repeated / scalar / empty / far-extrapolated ages; logistic, linear, shared-speed, joint longitudinal block). Exploration. One known finding (joint model + DataFrame layout).",
    "Trusts vf/refmodel/traj09.py; the mixing matrix is read from the model (its construction is C10's subject).",
    "DESIGN.md §2 C09",
)
CHECKS["C14"] = (
    "reference canonicaliser (plain python) compared cell by cell with the real Data/Dataset; metamorphic row-permutation twins (bit-identical per ID); round trip through to_pandas; icontract postcondition on Dataset.__init__; caller's frame compared with a deep snapshot; one-malformation-at-a-time refusal monitor",
    "Held on every table observed (4 layouts, 10 ID types, 7 missing patterns, 5 row orders, 37 malformation classes). Exploration.",
    "Trusts vf/refmodel/canon14.py; classes of malformation the statement does not clearly promise to reject are reported, not judged.",
    "DESIGN.md §2 C14",
)
CHECKS["C16"] = (
    "runtime contracts (icontract round-trip postconditions set on the real IndividualParameters methods) + plain-dict reference model; chains of two conversions; rejection monitor for malformed additions",
    "Held on every container observed (thousands per run: numeric-looking / quoted / NA-like IDs, scalar / length-1 / length-n shapes, NaN, +-0, 1e+-30). Exploration.",
    "Trusts vf/refmodel/ipref.py; names containing '_' are judged only for the json / tensor forms (the table form cannot represent them by design).",
    "DESIGN.md §2 C16",
)
CHECKS["C18"] = (
    "postcondition monitor on the Result of real simulate() calls + termination monitor on a logical step budget (tap on numpy.random.normal inside the visit generator, no wall clock) + refusal monitor (LeaspyAlgoInputError with zero RNG draws) over 37 inadmissible design variants",
    "Held on every design observed (thousands per run: logistic models dim 1-5, 0-2 sources, scalar/diagonal noise, random and table designs, all spacing regimes). Exploration.",
    "Trusts the draw-count budget 100*follow-up/mean+1000 per subject as the bounded restatement of 'runs to completion'.",
    "DESIGN.md §2 C18",
)
CHECKS["C19"] = (
    "online trace checker: exact rational (Fraction) plateau schedule vs the temperature recorded after every update of the real algorithm object (driven grid + inside real fits/personalisations); reference rolling window fed by the recorded acceptance vectors vs the real samplers' std updates (synthetic and real histories)",
    "Held on every temperature update (hundreds of thousands per run over n_iter 1-300 x annealing counts incl. 0 and < n_plateau-1 x T0 x n_plateau 1-20) and every std update observed on all four sampler kinds. Exploration.",
    "Trusts vf/refmodel/sched19.py; band decisions in exact rationals; float32 products within 2 ulp.",
    "DESIGN.md §2 C19",
)
CHECKS["C20"] = (
    "reference estimators (10-line numpy for the constant model; statsmodels' own random effects + float64 closed form for LME) compared with the real personalize / estimate; recording wrapper on the MixedLM call of the real lme_fit to check the design actually fitted",
    "Held on every history / cohort observed (unsorted rows via permuted Datasets, missing patterns incl. features entirely missing, one-visit subjects, with/without random slope). Exploration; cohorts where statsmodels warns or refuses are skipped and counted.",
    "Trusts statsmodels as the reference library named in the statement and the float64 closed form.",
    "DESIGN.md §2 C20",
)
CHECKS["C11"] = (
    "differential execution in separate interpreters: sha256 digests (per-iteration trace for fits) of the same seeded call in a fresh interpreter vs after prior activity (RNG consumption, re-seeding, unrelated fit+personalisation) x logging configurations vs fresh interpreters with other hash seeds",
    "Held on every pair observed over fits (Gibbs / FastGibbs / MH, +-annealing), the three personalisation families and simulate, a grid of print / save / plot / patient-plot periodicities with and without path. Exploration. One known finding (mixture model + patient plots).",
    "Trusts digests over tensor bytes; changing torch's global default dtype by the user is outside the statement.",
    "DESIGN.md §2 C11",
)

CHECKS["C12"] = (
    "round-trip differential monitor on the real save/load (save -> load -> save -> load -> save in a private directory) + from-scratch re-evaluation of every population-level derived node and of trajectories from the saved parameters only + prior-mode check of population variables after real short fits",
    "Held on every model observed (all 7 kinds x dimension 1-5 x sources 0-2 x noise x feature namings x instance names != kind x fitted / hand-written / quick-start forms). Exploration.",
    "Trusts vf/stateharness.scratch_eval for the derived nodes and JSON parsing for the file comparison (numbers to single precision, structure exactly).",
    "DESIGN.md §2 C12",
)

NOT_YET = {}

QUICK_BASELINE = (
    "cd /repo && env -u LEASPY_VERIF /venv/bin/python -m pytest -ra -q -p no:cacheprovider --timeout=900 "
    "--continue-on-collection-errors --junitxml=/tmp/leaspy-baseline-off.junit.xml"
)


def build():
    props = [json.loads(l) for l in (VERIF / "properties.jsonl").read_text().splitlines() if l.strip()]
    checks, na = [], []
    for p in props:
        pid = p["id"]
        if pid in CHECKS:
            tech, text, note, ref = CHECKS[pid]
            checks.append(
                {
                    "property_id": pid,
                    "quick_cmd": f"./check {pid} --tier quick",
                    "thorough_cmd": f"./check {pid} --tier thorough",
                    "evidence_file": f"evidence/{pid}.json",
                    "replay_cmd_template": f"./check {pid} --replay {{path}}",
                    "engine": "vf",
                    "level_claimed": {"category": "exploration", "text": text, "design_ref": ref},
                    "level_note": note,
                    "technique": tech,
                }
            )
        else:
            na.append({"property_id": pid, "reason": NOT_YET.get(pid, "monitor not built yet (in progress; see DESIGN.md §2 for the planned monitor)")})
    m = {
        "version": 1,
        "setup_cmd": "/venv/bin/python -c 'import sys; sys.path.insert(0, \".\"); from vf import bootstrap; bootstrap.ensure_deps()'",
        "hooks": {
            "guard": "LEASPY_VERIF",
            "enable": "checks import /repo/src (working tree) with LEASPY_VERIF=1; all instrumentation is applied from the harness by wrapping the real classes at import time (vf/probes), no build step",
            "baseline_off_cmd": QUICK_BASELINE,
            "source_commits": [],
            "add_only": True,
        },
        "engines": [
            {
                "name": "vf",
                "path": "vf/",
                "serves_properties": sorted(CHECKS),
                "kind_free_text": "runtime monitors (contracts, reference-model oracles, twin executions, recorded-trace checkers) over seeded hostile workloads on the real code",
            }
        ],
        "checks": checks,
        "notes": "Verdicts are three-valued: exit 0 held-on-observed, exit 1 + VIOLATION line, exit 2 inconclusive (deciding monitor not reached / watchdog). Known findings: known_findings.json.",
        "not_applicable": na,
    }
    (VERIF / "MANIFEST.json").write_text(json.dumps(m, indent=1) + "\n")
    return m


if __name__ == "__main__":
    m = build()
    print(len(m["checks"]), "checks;", len(m["not_applicable"]), "not claimed")
