"""C11 worker: executed as a fresh interpreter per scenario.  Reads a JSON job on argv[1], prints one JSON line:
{"digests": [digest of each seeded call in this process], "errors": [...]}.

A job = {"cell": [kind, dim, src, noise], "cohort_seed": int, "what": "fit"|"scipy_minimize"|"mean_posterior"|"mode_posterior"|"simulate",
         "seed": int, "settings": {...}, "variants": [ {"prelude": [...], "logs": {...}|null}, ... ], "tmp": dir}
Every variant runs the SAME seeded call in this same interpreter, after its prelude (prior activity) and with its logging config.
"""
from __future__ import annotations

import contextlib
import warnings
import hashlib
import io
import json
import os
import random
import sys
import traceback


def main():
    job = json.loads(open(sys.argv[1]).read())
    sys.path.insert(0, os.environ["VF_ROOT"])
    from vf import bootstrap

    bootstrap.activate()
    import numpy as np
    import torch

    from leaspy.algo import AlgorithmSettings, algorithm_factory
    from vf import gen

    kind, dim, src, noise = job["cell"]
    events = kind == "joint"
    binary = noise == "bernoulli"

    def cohort(seed, n=None):
        r = np.random.default_rng(seed)
        return gen.cohort(r, n_ind=n or int(r.integers(5, 9)), n_feat=dim, missing="mcar", events=events, one_visit_ok=False, binary=binary)

    df_train = cohort(job["cohort_seed"])
    # the personalised cohort: 4 new subjects, or as many subjects as the training cohort (what a fit leaves in the model has that size)
    df_new = cohort(job["cohort_seed"] + 1, n=(df_train["ID"].nunique() if job.get("same_size") else 4))
    # the seed as the caller may hold it: a python int, a numpy integer (an element of an array of seeds) or an integral float
    SEED = {"int": int, "np.int64": np.int64, "np.int32": np.int32, "float": float}[job.get("seed_type", "int")](job["seed"])

    def new_model():
        kw = {"n_clusters": 2} if kind == "mixture_logistic" else {}
        return gen.make_model(kind, dim, src, noise, **kw) if noise else gen.make_model(kind, dim, src, **kw)

    def dig_tensors(d):
        h = hashlib.sha256()
        for k in sorted(d):
            v = d[k]
            h.update(k.encode())
            if isinstance(v, torch.Tensor):
                h.update(str(v.dtype).encode() + str(tuple(v.shape)).encode() + v.detach().contiguous().numpy().tobytes())
            else:
                h.update(repr(v).encode())
        return h.hexdigest()[:16]

    base_model = {}

    def fitted_model():
        """A deterministic fitted model used as the subject of personalize / simulate jobs (built once per process, BEFORE the variants)."""
        if "m" not in base_model:
            m = new_model()
            with contextlib.redirect_stdout(io.StringIO()):
                m.fit(gen.to_dataset(df_train, events=events), "mcmc_saem", n_iter=12, seed=4242, progress_bar=False)
            base_model["m"] = m
        return base_model["m"]

    def prelude(steps):
        for st in steps:
            if st == "consume_rng":
                random.random()
                np.random.normal(size=17)
                torch.randn(33)
                torch.rand(5)
            elif st == "reseed_other":
                random.seed(999)
                np.random.seed(999)
                torch.manual_seed(999)
            elif st == "unrelated_fit":
                m = gen.make_model("logistic", 2, 1, "gaussian-diagonal")
                r = np.random.default_rng(77)
                d = gen.cohort(r, n_ind=5, n_feat=2, missing="none", one_visit_ok=False)
                with contextlib.redirect_stdout(io.StringIO()):
                    m.fit(gen.to_dataset(d), "mcmc_saem", n_iter=6, seed=3, progress_bar=False)
                    m.personalize(gen.to_dataset(d), "mode_posterior", seed=1, n_iter=5, n_burn_in_iter=1, progress_bar=False)
            elif st == "customised_calls":
                # earlier calls that customised nested option dictionaries of the algorithms (an optimiser's options, an annealing scheme,
                # acceptance bounds): options given to ONE call belong to that call
                m = gen.make_model("logistic", 2, 1, "gaussian-diagonal")
                r = np.random.default_rng(78)
                d = gen.cohort(r, n_ind=5, n_feat=2, missing="none", one_visit_ok=False)
                with contextlib.redirect_stdout(io.StringIO()), warnings.catch_warnings():
                    warnings.simplefilter("ignore")
                    m.fit(gen.to_dataset(d), "mcmc_saem", n_iter=8, seed=3, progress_bar=False,
                          annealing={"do_annealing": True, "initial_temperature": 4.0, "n_plateau": 3, "n_iter_frac": 0.4},
                          sampler_pop_params={"acceptation_history_length": 5, "mean_acceptation_rate_target_bounds": (0.1, 0.6), "adaptive_std_factor": 0.3},
                          sampler_ind_params={"acceptation_history_length": 4, "mean_acceptation_rate_target_bounds": (0.15, 0.5), "adaptive_std_factor": 0.2})
                    for uj in (False, True):
                        m.personalize(gen.to_dataset(d), "scipy_minimize", seed=1, progress_bar=False, use_jacobian=uj,
                                      custom_scipy_minimize_params={"method": "Powell", "options": {"maxiter": 2, "xtol": 1e-1, "ftol": 1e-1}}
                                      if not uj else {"method": "BFGS", "options": {"maxiter": 2, "gtol": 1e-1}})
                    m.personalize(gen.to_dataset(d), "mean_posterior", seed=1, n_iter=6, n_burn_in_iter=2, progress_bar=False,
                                  annealing={"do_annealing": True, "initial_temperature": 3.0, "n_plateau": 2, "n_iter_frac": 0.5})
            elif st == "double_default":
                torch.set_default_dtype(torch.float64)
            elif st == "float_default":
                torch.set_default_dtype(torch.float32)

    _shared = {}

    def seeded_call(logs, tag, reuse_settings=False):
        what = job["what"]
        trace = []
        out = io.StringIO()
        with contextlib.redirect_stdout(out):
            if what == "fit":
                m = new_model()
                if reuse_settings:
                    # the caller's settings object already served another (shorter, annealed) fit: a settings object can be reused
                    settings = AlgorithmSettings("mcmc_saem", seed=3, progress_bar=False, **dict(job["settings"], n_iter=max(4, job["settings"]["n_iter"] // 2)))
                    m0 = gen.make_model("logistic", 2, 1, "gaussian-diagonal")
                    d0 = gen.cohort(np.random.default_rng(77), n_ind=5, n_feat=2, missing="none", one_visit_ok=False)
                    m0.fit(gen.to_dataset(d0), algorithm_settings=settings)
                    settings.parameters["n_iter"] = job["settings"]["n_iter"]
                    settings.seed = int(job["seed"])  # (attribute assignment bypasses the constructor's conversion: a plain int here)
                else:
                    settings = AlgorithmSettings("mcmc_saem", seed=SEED, progress_bar=False, **job["settings"])
                if logs is not None:
                    lg = dict(logs)
                    if lg.get("path"):
                        lg["path"] = os.path.join(job["tmp"], f"logs-{tag}")
                        os.makedirs(lg["path"], exist_ok=True)
                        lg["overwrite_logs_folder"] = True
                    settings.set_logs(**lg)
                algo = algorithm_factory(settings)
                ds = gen.to_dataset(df_train, events=events)
                m.initialize(ds)
                orig_it = algo._iteration

                def it(model_, state_):
                    orig_it(model_, state_)
                    trace.append(dig_tensors({k: state_._values[k] for k in list(model_.parameters_names) + list(model_.population_variables_names) + list(model_.individual_variables_names)}))

                algo._iteration = it
                algo.run(m, ds)
                fm = getattr(m, "fit_metrics", None) or {}
                return {"final": dig_tensors(dict(m.parameters)) + ":" + repr(sorted((k, float(v)) for k, v in fm.items())), "trace": trace}
            m = fitted_model()
            if what == "simulate":
                vp = {"patient_number": 5, "visit_type": "random", "first_visit_mean": 0.0, "first_visit_std": 0.4, "time_follow_up_mean": 4,
                      "time_follow_up_std": 0.5, "distance_visit_mean": 1.0, "distance_visit_std": 0.2, "min_spacing_between_visits": 0.01}
                import pandas as pd

                if job.get("sim_design") == "table":
                    # visits given as a table: string identifiers in inclusion order (not sorted), unsorted rows
                    if "table" not in _shared:
                        ids_ = ["sub-%s" % x for x in ("k", "b", "z", "a", "m", "c", "y", "d")]
                        rows_ = [(s_, round(60.0 + 3.0 * j_ + 1.5 * v_, 2)) for j_, s_ in enumerate(ids_) for v_ in (2, 0, 1)]
                        _shared["table"] = pd.DataFrame(rows_, columns=["ID", "TIME"])
                    # one table object for every call of this interpreter (a caller re-using its design)
                    vp = {"visit_type": "dataframe", "df_visits": _shared["table"]}
                res = m.simulate(algorithm="simulate", features=list(m.features), visit_parameters=vp, seed=SEED)
                d = res.data.to_dataframe()
                ipd = res.individual_parameters
                ipd = ipd if isinstance(ipd, pd.DataFrame) else ipd.to_dataframe() if hasattr(ipd, "to_dataframe") else None
                extra = "" if ipd is None else ipd.to_csv(float_format="%.17g")
                return {"final": hashlib.sha256((d.to_csv(float_format="%.17g") + extra).encode()).hexdigest()[:16], "trace": []}
            ip = m.personalize(gen.to_dataset(df_new, events=events), what, seed=SEED, progress_bar=False, **job["settings"])
            ids, t = ip.to_pytorch()
            return {"final": dig_tensors(dict(t)) + ":" + ",".join(ids), "trace": []}

    outs, errors = [], []
    if job["what"] != "fit":
        try:
            fitted_model()
        except Exception:
            print(json.dumps({"digests": [], "errors": ["setup: " + traceback.format_exc()[-600:]], "setup_failed": True}))
            return
    torch.set_num_threads(2)  # a process-wide numeric setting of the caller: no library call may change it behind the caller's back
    for vi, var in enumerate(job["variants"]):
        try:
            prelude(var.get("prelude", []))
            outs.append(seeded_call(var.get("logs"), vi, reuse_settings=bool(var.get("reuse_settings"))))
            if torch.get_num_threads() != 2 and outs[-1] is not None:
                outs[-1] = dict(outs[-1], final=outs[-1]["final"] + f":torch-threads-changed-to-{torch.get_num_threads()}")
                torch.set_num_threads(2)
        except Exception as e:
            outs.append(None)
            errors.append({"variant": vi, "type": type(e).__name__, "msg": str(e)[:300], "tb": traceback.format_exc()[-3000:]})
        finally:
            torch.set_default_dtype(torch.float32)
    print(json.dumps({"digests": outs, "errors": errors}))


if __name__ == "__main__":
    main()
