"""Reference schedules for C19, written from the documentation / the property statement (no leaspy import).

(a) Plateau annealing, exact rational arithmetic (fractions.Fraction).
    Documented scheme: the run starts at the initial temperature T0 > 1; there are ``n_plateau`` plateaus; the
    temperature goes down linearly, by (T0 - 1)/(n_plateau - 1) at each plateau boundary; it never goes below 1 and is
    1 once the ``A`` annealing iterations are over; with a single plateau the temperature stays at T0 (documented by
    the warning of the initialiser); without annealing it is 1 everywhere.
    Plateaus have equal length: the A annealing iterations are shared by the n_plateau-1 plateaus above 1, i.e.
    plateau length  L = floor(A / (n_plateau - 1));  the last plateau (T = 1) takes whatever remains.
    ``temps[k]`` denotes the temperature after k updates = the temperature in effect during iteration k+1.
    Iteration j is "after the annealing iterations" iff j > A, hence temps[k] must be exactly 1 for k >= A.
    For A = 0 this clashes with "starts at the initial value" for k = 0 only; the weakest reading is used:
    temps[0] may be T0 or 1, temps[k] = 1 for k >= 1.
    When L = 0 (fewer annealing iterations than plateau boundaries) the documentation defines no exact schedule: only
    the envelope is judged there.

(b) Adaptive proposal scale: rolling window of the last L acceptance vectors, adaptation every L-th call,
    per block:  mean < lower -> std * (1 - factor);  mean > upper -> std * (1 + factor);  otherwise unchanged.
    Means and bounds are compared as exact rationals (acceptances are 0/1, bounds are given as decimal strings).
"""
from __future__ import annotations

from collections import deque
from fractions import Fraction

import numpy as np

RESIDUE = 1e-9  # "1 + k*eps": anything in (1, 1+RESIDUE] after the annealing iterations is classified as float residue


def frac(x) -> Fraction:
    """Decimal reading of a setting: 10.5 -> 21/2, 0.2 -> 1/5 (repr round-trips python floats)."""
    if isinstance(x, Fraction):
        return x
    if isinstance(x, (int, np.integer)):
        return Fraction(int(x))
    return Fraction(repr(float(x)))


def plateau_length(A: int, P: int):
    if P < 2:
        return None
    return A // (P - 1)


def plateau_schedule(n_iter: int, A: int, T0, P: int):
    """Exact schedule temps[0..n_iter] or None when the documentation does not define one (L == 0)."""
    T0 = frac(T0)
    if P == 1:
        return [T0] * (n_iter + 1)
    L = plateau_length(A, P)
    if L is None or L < 1:
        return None
    d = (T0 - 1) / (P - 1)
    out = []
    for k in range(n_iter + 1):
        crossed = min(k, A) // L
        out.append(max(Fraction(1), T0 - d * crossed))
    return out


def check_temperature_trace(temps, invs, *, annealing_on: bool, n_iter: int, A, T0, P, atol=1e-11):
    """Judge one observed trace.  Returns (key, message, k) of the FIRST broken monitor, or None.

    ``temps``/``invs``: python numbers observed on the real algorithm object after 0..n_iter updates.
    ``atol``: accumulated error of <= 20 float64 subtractions of numbers <= 100 is < 20 * 1.5e-14; 1e-11 is generous
    and still 10 orders of magnitude below one decrement.
    """
    n = len(temps) - 1
    for k, (t, ti) in enumerate(zip(temps, invs)):
        if not (isinstance(t, (int, float)) and t == t and abs(t) != float("inf")):
            return ("annealing/temperature-not-finite", f"temperature {t!r} after {k} updates", k)
        if t <= 0 or ti != 1.0 / t:
            return ("annealing/inverse-out-of-sync", f"after {k} updates temperature_inv={ti!r} but 1/temperature={1.0 / t if t else None!r}", k)
    if not annealing_on:
        for k, t in enumerate(temps):
            if t != 1:
                return ("annealing/off-but-temperature-not-1", f"annealing off, temperature {t!r} after {k} updates", k)
        return None
    # --- envelope, valid for every configuration -------------------------------------------------------------
    if not (temps[0] == T0 or (A == 0 and P >= 2 and temps[0] == 1)):
        return ("annealing/initial-temperature-wrong", f"temperature after initialisation is {temps[0]!r}, initial value is {T0!r}", 0)
    for k in range(1, n + 1):
        if temps[k] < 1:
            return ("annealing/temperature-below-1", f"temperature {temps[k]!r} < 1 after {k} updates", k)
        if temps[k] > temps[k - 1]:
            return ("annealing/temperature-increases", f"temperature rises {temps[k - 1]!r} -> {temps[k]!r} at update {k}", k)
    if P == 1:
        for k in range(1, n + 1):
            if temps[k] != temps[0]:
                return ("annealing/single-plateau-moves", f"single plateau but temperature {temps[k]!r} after {k} updates", k)
        return None
    ref = plateau_schedule(n, A, T0, P)
    L = plateau_length(A, P)
    if ref is not None:
        # --- exact schedule ----------------------------------------------------------------------------------
        for k in range(1, n + 1):
            if temps[k] != temps[k - 1] and (k % L != 0 or k > A):
                return ("annealing/change-off-plateau-boundary",
                        f"temperature changes {temps[k - 1]!r} -> {temps[k]!r} at update {k}; plateau length {L}, annealing iterations {A}", k)
        for k in range(0, n + 1):
            if k >= A:
                break
            if abs(Fraction(temps[k]) - ref[k]) > atol:
                return ("annealing/schedule-differs-from-reference",
                        f"after {k} updates temperature {temps[k]!r}, documented plateau scheme gives {float(ref[k])!r} (plateau length {L})", k)
    else:
        # --- no documented plateau length: changes are allowed only while annealing iterations last ---------------
        for k in range(1, n + 1):
            if temps[k] != temps[k - 1] and k > max(A, 1):
                return ("annealing/change-off-plateau-boundary",
                        f"temperature changes {temps[k - 1]!r} -> {temps[k]!r} at update {k} > annealing iterations {A}", k)
    # --- exactly 1 once the annealing iterations are over ----------------------------------------------------
    for k in range(max(A, 1), n + 1):
        if temps[k] != 1:
            if A == 0 and all(t == temps[0] for t in temps):
                return ("annealing/zero-annealing-iterations",
                        f"0 annealing iterations: temperature stays {temps[k]!r} for the whole run ({n} iterations), never 1", k)
            if 1 < temps[k] <= 1 + RESIDUE:
                return ("annealing/float-residue-above-1",
                        f"temperature {temps[k]!r} (not exactly 1) after {k} updates >= {A} annealing iterations", k)
            return ("annealing/not-1-after-annealing", f"temperature {temps[k]!r} after {k} updates >= {A} annealing iterations", k)
    return None


# ------------------------------------------------------------------------------------------------------------------
class WindowModel:
    """Rolling window + adaptation rule for one sampler (all blocks at once, numpy)."""

    def __init__(self, L: int, lower, upper, factor, initial_window):
        self.L = int(L)
        self.lower, self.upper, self.factor = frac(lower), frac(upper), float(factor)
        init = np.asarray(initial_window, dtype=np.float64)
        assert init.shape[0] == self.L
        self.win = deque((init[j].copy() for j in range(self.L)), maxlen=self.L)
        self.calls = 0

    def push(self, acc):
        self.win.append(np.asarray(acc, dtype=np.float64).copy())
        self.calls += 1

    def window(self):
        return np.stack(list(self.win))

    def adaptation_due(self) -> bool:
        return self.calls % self.L == 0

    def decisions(self):
        """-1 (too low), 0 (inside the closed band), +1 (too high) per block; exact rational comparison."""
        w = self.window()
        tot = w.sum(axis=0)
        dec = np.zeros(tot.shape, dtype=np.int8)
        binary = bool(np.all((w == 0) | (w == 1)))
        it = np.nditer(tot, flags=["multi_index"])
        for s in it:
            m = Fraction(int(round(float(s))), self.L) if binary else Fraction(float(s)) / self.L
            if m < self.lower:
                dec[it.multi_index] = -1
            elif m > self.upper:
                dec[it.multi_index] = 1
        return dec

    def expected_std(self, before, dec):
        """float32 product by the float32 image of (1 -/+ factor); `before` float32 array."""
        b = np.asarray(before, dtype=np.float32)
        out = b.copy()
        out = np.where(dec < 0, b * np.float32(1.0 - self.factor), out)
        out = np.where(dec > 0, b * np.float32(1.0 + self.factor), out)
        return out.astype(np.float32)
