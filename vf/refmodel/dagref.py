"""Reference for C15: plain DFS closure on dict-of-sets; no leaspy, no torch."""
from __future__ import annotations


def classify(nodes, anc):
    """Return the reason a definition set must be refused, or None if it must be accepted.

    nodes: iterable of names; anc: name -> set of direct ancestors.
    """
    nodes = list(nodes)
    ns = set(nodes)
    if ns != set(anc):
        return "inconsistent-keys"
    for n in nodes:
        if not set(anc[n]) <= ns:
            return "unknown"
    for n in nodes:
        if n in anc[n]:
            return "self-loop"
    has_child = set()
    for n in nodes:
        has_child |= set(anc[n])
    for n in nodes:
        if not anc[n] and n not in has_child:
            return "isolated"
    # cycle detection (iterative colouring)
    color = {n: 0 for n in nodes}
    for s in nodes:
        if color[s]:
            continue
        stack = [(s, iter(anc[s]))]
        color[s] = 1
        while stack:
            v, it = stack[-1]
            for w in it:
                if color[w] == 1:
                    return "cycle"
                if color[w] == 0:
                    color[w] = 1
                    stack.append((w, iter(anc[w])))
                    break
            else:
                color[v] = 2
                stack.pop()
    return None


def closure(nodes, anc):
    """name -> set of all transitive ancestors (graph assumed acyclic)."""
    memo = {}

    def up(v):
        if v in memo:
            return memo[v]
        s = set()
        for a in anc[v]:
            s.add(a)
            s |= up(a)
        memo[v] = s
        return s

    for n in nodes:
        up(n)
    return memo


def problems(nodes, anc, order, sorted_children, sorted_ancestors, direct_children=None):
    """All discrepancies between what the constructed graph reports and the reference."""
    out = []
    nodes = list(nodes)
    if sorted(order) != sorted(nodes) or len(set(order)) != len(order):
        return [f"order is not a permutation of the nodes: {order}"]
    pos = {n: i for i, n in enumerate(order)}
    for n in nodes:
        for a in anc[n]:
            if pos[a] >= pos[n]:
                out.append(f"order: '{n}' listed before its dependency '{a}'")
    up = closure(nodes, anc)
    down = {n: set() for n in nodes}
    for n, s in up.items():
        for a in s:
            down[a].add(n)
    for n in nodes:
        for label, got, want in (("children", sorted_children.get(n), down[n]), ("ancestors", sorted_ancestors.get(n), up[n])):
            if got is None:
                out.append(f"{label}[{n}] missing")
                continue
            got = list(got)
            if len(set(got)) != len(got):
                out.append(f"{label}[{n}] has repeats: {got}")
            if set(got) != want:
                out.append(f"{label}[{n}] = {sorted(got)} but exact set is {sorted(want)}")
            elif [pos[x] for x in got] != sorted(pos[x] for x in got):
                out.append(f"{label}[{n}] = {got} not in the global order {order}")
    if direct_children is not None:
        for n in nodes:
            want = {m for m in nodes if n in anc[m]}
            if set(direct_children.get(n, ())) != want:
                out.append(f"direct_children[{n}] = {sorted(direct_children.get(n, ()))} != {sorted(want)}")
    return out
