"""C09 reference: individual trajectories in closed form (numpy float64), written from the documentation.

Sources (not leaspy code):
* docs/models.md, "Logistic model":
      gamma_{i,k}(t) = [ 1 + g_k * exp( -(1+g_k)^2/g_k * ( v0_k * (psi_i(t) - t0) + w_{i,k} ) ) ]^{-1}
  with the latent disease age  psi_i(t) - t0 = exp(xi_i) * (t - tau_i)   and   1/(1+g_k) the value at t0;
* docs/notations.md / models.md: space shifts  w_i = A s_i  (A = mixing matrix, s_i = sources);
* linear model (property statement):  gamma_{i,k}(t) = g_k + v0_k * exp(xi_i)(t - tau_i) + w_{i,k};
* shared-speed logistic (docstrings of `SharedSpeedLogisticModel.metric`, `pad_deltas`): one g and one speed for all
  features, the curves only time-shifted by delta_k (delta_1 = 0):
      g_k = g * exp(-delta_k),  gamma_{i,k}(t) = [ 1 + g_k * exp( -( exp(xi_i)(t - tau_i) + (1+g_k)^2/g_k * w_{i,k} ) ) ]^{-1}
  (value 1/(1+g_k) at t = tau_i for an unshifted individual).

leaspy evaluates everything in single precision from single-precision inputs.  The reference therefore
(i) quantises every *input* (ages, xi, tau, sources, the parameters as handed to `load_parameters`, the mixing matrix read
from the model) to float32 and then computes in float64, and (ii) returns, next to the value, a first-order bound `dl` on
the error that a float32 evaluation may legitimately make on the *argument of the curve* (the logit, or the linear value):
     dl = K * eps32 * ( sum of the absolute values of the terms that are added up ),   K = 16 ulps
(each term carries a handful of roundings: exp of xi / log g / log v0, 2-3 products, the k-term dot product of the space
shift).  With g in [1e-3, 1e3] the metric reaches 1e3 and the terms of the logit routinely reach 1e3-1e6 while cancelling,
so a fixed "rtol 2e-4" on the value alone would produce false alarms; the interval [curve(l - dl), curve(l + dl)] widened
by (atol + rtol*|value|) is the acceptance region.
"""
from __future__ import annotations

import numpy as np

EPS32 = float(np.finfo(np.float32).eps)  # 2**-23
K_ULPS = 16.0
RTOL = 2e-4
ATOL = 2e-6


def q32(x):
    """Quantise to float32 and return as float64 (what leaspy actually receives)."""
    return np.asarray(x, dtype=np.float32).astype(np.float64)


def _sig_from_g(g, u):
    """[1 + g*exp(-u)]^-1 evaluated without overflow warnings (float64)."""
    with np.errstate(over="ignore", under="ignore", invalid="ignore"):
        return 1.0 / (1.0 + g * np.exp(-u))


def reparam(t, xi, tau):
    """rt = exp(xi) * (t - tau); t: (n_t,) -> (n_t, 1)."""
    t = q32(np.atleast_1d(t)).reshape(-1, 1)
    return np.exp(float(q32(xi))) * (t - float(q32(tau)))


def space_shift(sources, mixing_matrix, d):
    """w = sources @ mixing_matrix (mixing_matrix has shape (n_sources, n_features)); also returns sum |s_l A_lk|."""
    if mixing_matrix is None or sources is None or len(np.atleast_1d(sources)) == 0:
        return np.zeros(d), np.zeros(d)
    s = q32(np.atleast_1d(sources))
    A = q32(mixing_matrix)
    assert A.shape == (s.shape[0], d), (A.shape, s.shape, d)
    return s @ A, np.abs(s) @ np.abs(A)


def logistic(t, xi, tau, sources, *, log_g, log_v0, mixing_matrix=None):
    """Returns (value, lo, hi), each (n_t, d)."""
    g = np.exp(q32(log_g))
    v0 = np.exp(q32(log_v0))
    d = g.shape[0]
    metric = (1.0 + g) ** 2 / g
    rt = reparam(t, xi, tau)
    w, w_abs = space_shift(sources, mixing_matrix, d)
    u = metric * (v0 * rt + w)
    cond = metric * (np.abs(v0 * rt) + w_abs) + np.abs(np.log(g))
    dl = K_ULPS * EPS32 * cond
    return _sig_from_g(g, u), _sig_from_g(g, u - dl), _sig_from_g(g, u + dl)


def linear(t, xi, tau, sources, *, g, log_v0, mixing_matrix=None):
    g = q32(g)
    v0 = np.exp(q32(log_v0))
    d = g.shape[0]
    rt = reparam(t, xi, tau)
    w, w_abs = space_shift(sources, mixing_matrix, d)
    val = g + v0 * rt + w
    dl = K_ULPS * EPS32 * (np.abs(g) + np.abs(v0 * rt) + w_abs)
    return val, val - dl, val + dl


def shared_speed(t, xi, tau, sources, *, log_g, deltas, mixing_matrix=None):
    g0 = float(np.exp(q32(log_g)).reshape(-1)[0])
    delta = np.concatenate([[0.0], q32(np.atleast_1d(deltas)).reshape(-1)])
    d = delta.shape[0]
    gk = g0 * np.exp(-delta)
    metric = (1.0 + gk) ** 2 / gk
    rt = reparam(t, xi, tau)
    w, w_abs = space_shift(sources, mixing_matrix, d)
    u = rt + metric * w
    cond = np.abs(rt) + metric * w_abs + np.abs(delta) + abs(np.log(g0))
    dl = K_ULPS * EPS32 * cond
    return _sig_from_g(gk, u), _sig_from_g(gk, u - dl), _sig_from_g(gk, u + dl)


def value_at_reference_time(kind, params):
    """1/(1+g_k): documented value of an unshifted individual at t = tau (logistic kinds only)."""
    if kind in ("logistic", "joint"):
        return 1.0 / (1.0 + np.exp(q32(params["log_g_mean"])))
    if kind == "shared_speed_logistic":
        g0 = float(np.exp(q32(params["log_g_mean"])).reshape(-1)[0])
        delta = np.concatenate([[0.0], q32(np.atleast_1d(params["deltas_mean"])).reshape(-1)])
        return 1.0 / (1.0 + g0 * np.exp(-delta))
    raise ValueError(kind)


def trajectory(kind, params, t, xi, tau, sources, mixing_matrix):
    """Dispatch on the model kind; `params` is the dict handed to `load_parameters`."""
    if kind in ("logistic", "joint"):
        return logistic(t, xi, tau, sources, log_g=params["log_g_mean"], log_v0=params["log_v0_mean"], mixing_matrix=mixing_matrix)
    if kind == "linear":
        return linear(t, xi, tau, sources, g=params["g_mean"], log_v0=params["log_v0_mean"], mixing_matrix=mixing_matrix)
    if kind == "shared_speed_logistic":
        return shared_speed(t, xi, tau, sources, log_g=params["log_g_mean"], deltas=params["deltas_mean"], mixing_matrix=mixing_matrix)
    raise ValueError(kind)


def mismatch(obs, ref, lo, hi):
    """Boolean array: obs outside [min(lo,hi) - tol, max(lo,hi) + tol], tol = ATOL + RTOL*|ref|; NaN always mismatches."""
    obs = np.asarray(obs, dtype=np.float64)
    a, b = np.minimum(lo, hi), np.maximum(lo, hi)
    tol = ATOL + RTOL * np.abs(ref)
    bad = ~((obs >= a - tol) & (obs <= b + tol))
    return bad
