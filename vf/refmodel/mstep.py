"""Reference closed-form M-step (C04) and SA recursion (C05), float64 numpy, written from the documented rules."""
from __future__ import annotations

import numpy as np


def f64(t):
    """tensor / WeightedTensor -> (values float64, weight bool or None)"""
    if hasattr(t, "weight") and hasattr(t, "value"):
        w = None if t.weight is None else t.weight.detach().cpu().numpy().astype(bool)
        return t.value.detach().cpu().numpy().astype(np.float64), w
    return t.detach().cpu().numpy().astype(np.float64), None


def pop_mean(S_pop):
    return f64(S_pop)[0]


def ind_mean(S_ind):
    return f64(S_ind)[0].mean(axis=0)


def ind_std_burn_in(S_ind):
    v = f64(S_ind)[0]
    return v.std(axis=0, ddof=1)  # documented rule `Std`: the (unbiased) sample std of the current values


def ind_std_sa(S_ind, S_ind_sqr, mu_old):
    v, v2 = f64(S_ind)[0], f64(S_ind_sqr)[0]
    var = v2.mean(axis=0) - 2 * mu_old * v.mean(axis=0) + mu_old ** 2
    return np.sqrt(var)


def noise_std(y, mask, S_yxm, S_mxm, per_feature):
    """RMS residual over OBSERVED entries only.  y, mask: (n,T,F) table arrays; S_*: statistics in force."""
    yxm = f64(S_yxm)[0]
    mxm = f64(S_mxm)[0]
    m = mask.astype(bool)
    w = mask.astype(np.float64)  # 0/1 for a mask; relative weights of the observations otherwise (weighted RMS residual)
    num = np.where(m, w * (y ** 2 - 2 * yxm + mxm), 0.0)
    if per_feature:
        return np.sqrt(num.sum(axis=(0, 1)) / w.sum(axis=(0, 1)))
    return np.sqrt(num.sum() / w.sum())


def responsibilities(nll_regul_ind_sum_ind):
    z = -f64(nll_regul_ind_sum_ind)[0]
    z = np.maximum(z, -100.0)
    z = z - z.max(axis=1, keepdims=True)
    e = np.exp(z)
    return e / e.sum(axis=1, keepdims=True)


def close(a, b, rtol, atol):
    a, b = np.asarray(a, dtype=np.float64), np.asarray(b, dtype=np.float64)
    if a.shape != b.shape:
        try:
            a, b = np.broadcast_arrays(a.reshape(-1) if a.size == b.size else a, b.reshape(-1) if a.size == b.size else b)
        except ValueError:
            return False
    nan = np.isnan(a) & np.isnan(b)
    with np.errstate(invalid="ignore"):
        ok = np.abs(a - b) <= atol + rtol * np.maximum(np.abs(a), np.abs(b))
    ok = ok | nan | ((a == b))
    return bool(ok.all())
