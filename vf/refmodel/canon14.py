"""Reference for C14: the canonical form of a table of visits / events / covariates.

Written from the property statement and the user documentation (docs/models.md, reader docstrings), in plain
python (+ numpy only for the float32 cast).  No pandas, no torch, no leaspy.

A *table* is a python structure (the generator builds the DataFrame from the very same structure):

    {"layout": "visit" | "event" | "joint" | "covariate",
     "features": [names],            # longitudinal outcome columns, in column order
     "covs": [names],                # covariate columns, in column order
     "drop_full_nan": bool,          # reader option (default True): rows whose non-index cells are all missing are dropped
     "rows": [ {"id": ..., "time": float|int|None, "vals": [float|int|bool|None, ...],
                "ev_time": float|None, "ev_flag": int|float|None, "covs": [int|float, ...]}, ... ]}   # in table row order

Canonical form (statement): one entry per individual in order of first appearance; visits strictly increasing in
age (ages rounded to 6 digits, the documented precision of the readers); values aligned with ages, missing
entries = None; event = (time rounded to 6 digits, flag: 0 censored, k>=1 event of kind k); covariates = integers.
"""
from __future__ import annotations

import math

import numpy as np

TIME_DIGITS = 6


def missing(x) -> bool:
    return x is None or (isinstance(x, float) and math.isnan(x))


def round6(t) -> float:
    return round(float(t), TIME_DIGITS)


def f32(x) -> float:
    return float(np.float32(x))


def canonical(table: dict) -> dict:
    layout = table["layout"]
    has_visits = layout != "event"
    has_events = layout in ("event", "joint")
    has_covs = layout == "covariate"
    drop = table.get("drop_full_nan", True)

    def cells(r):
        c = []
        if has_visits:
            c += list(r["vals"])
        if has_events:
            c += [r["ev_time"], r["ev_flag"]]
        if has_covs:
            c += list(r["covs"])
        return c

    rows_all = table["rows"]
    rows = [r for r in rows_all if not (drop and all(missing(x) for x in cells(r)))]

    def first_appearance(rs):
        seen, out = set(), []
        for r in rs:
            if r["id"] not in seen:
                seen.add(r["id"])
                out.append(r["id"])
        return out

    ids = first_appearance(rows)
    ids_raw = [i for i in first_appearance(rows_all) if i in set(ids)]
    ind = {}
    for i in ids:
        rs = [r for r in rows if r["id"] == i]
        e = {}
        if has_visits:
            rs = sorted(rs, key=lambda r: round6(r["time"]))
            e["ages"] = [round6(r["time"]) for r in rs]
            e["vals"] = [[None if missing(v) else float(v) for v in r["vals"]] for r in rs]
        if has_events:
            times = {round6(r["ev_time"]) for r in rs}
            flags = {int(r["ev_flag"]) for r in rs}
            assert len(times) == 1 and len(flags) == 1, "generator bug: table is not valid (several events for one subject)"
            e["ev_time"] = times.pop()
            e["ev_flag"] = flags.pop()
        if has_covs:
            cv = {tuple(int(c) for c in r["covs"]) for r in rs}
            assert len(cv) == 1, "generator bug: table is not valid (covariates vary within subject)"
            e["covs"] = list(cv.pop())
        ind[i] = e
    out = {"ids": ids, "ind": ind, "order_ambiguous": ids != ids_raw, "n_dropped_rows": len(rows_all) - len(rows)}
    if has_events:
        out["nb_events"] = max([e["ev_flag"] for e in ind.values()], default=0)
    return out


def in_judged_domain(table: dict, canon: dict, min_gap=1e-3, max_abs=1e6) -> bool:
    """Stated bound of the check: ages of one subject pairwise >= 1e-3 apart, |values| <= 1e6."""
    if table["layout"] == "event":
        return True
    for e in canon["ind"].values():
        a = e["ages"]
        if any(b - c < min_gap * (1 - 1e-9) for b, c in zip(a[1:], a[:-1])):
            return False
        for row in e["vals"]:
            if any(v is not None and not (abs(v) <= max_abs) for v in row):
                return False
    return True


def counts(table: dict, canon: dict) -> dict:
    """Recount of visits / observations from the canonical form."""
    d = len(table["features"])
    ids = canon["ids"]
    nv = [len(canon["ind"][i]["ages"]) for i in ids]
    per_ind_ft = [[sum(1 for row in canon["ind"][i]["vals"] if row[k] is not None) for k in range(d)] for i in ids]
    per_ft = [sum(p[k] for p in per_ind_ft) for k in range(d)]
    return {
        "n_visits_per_individual": nv,
        "n_visits_max": max(nv) if nv else 0,
        "n_visits": sum(nv),
        "n_observations_per_ind_per_ft": per_ind_ft,
        "n_observations_per_ft": per_ft,
        "n_observations": sum(per_ft),
    }


def padded(table: dict, canon: dict):
    """(ages, values, mask) as padded float64/float64/bool arrays of the documented shapes; values NaN where absent."""
    d = len(table["features"])
    ids = canon["ids"]
    c = counts(table, canon)
    n, m = len(ids), c["n_visits_max"]
    ages = np.full((n, m), np.nan)
    vals = np.full((n, m, d), np.nan)
    mask = np.zeros((n, m, d), dtype=bool)
    for a, i in enumerate(ids):
        e = canon["ind"][i]
        for j, (t, row) in enumerate(zip(e["ages"], e["vals"])):
            ages[a, j] = t
            for k, v in enumerate(row):
                if v is not None:
                    vals[a, j, k] = v
                    mask[a, j, k] = True
    return ages, vals, mask
