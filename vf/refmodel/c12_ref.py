"""Reference pieces for C12 (numpy float64, written from the documentation / the property statement).

* ``json_diff``      : "saving the reloaded model reproduces the file" judged on parsed JSON.
* ``closed_form``    : documented individual trajectory of the logistic / linear kinds from *saved* parameters.
* ``normal_mode``    : mode of an element-wise Normal(loc, scale) prior = loc broadcast to the batch shape.
"""
from __future__ import annotations

import math

import numpy as np

SINGLE_RTOL = 1.2e-7  # one unit in the last place of a float32 (2**-23)


def _is_num(x):
    return isinstance(x, (int, float)) and not isinstance(x, bool)


def numbers_equal_single(a, b, rtol=SINGLE_RTOL):
    if isinstance(a, float) and isinstance(b, float) and math.isnan(a) and math.isnan(b):
        return True
    if a == b:
        return True
    if math.isinf(a) or math.isinf(b):
        return False
    return abs(a - b) <= rtol * max(abs(a), abs(b)) + 1e-38


def json_diff(a, b, path=()):
    """Yield (path, kind, a, b) for every difference. kinds: keys | structure | value | number-type."""
    if isinstance(a, dict) and isinstance(b, dict):
        if set(a) != set(b):  # key order is not part of the parsed-JSON comparison (bytes are judged by the idempotence monitor)
            yield path, "keys", sorted(set(a) - set(b)), sorted(set(b) - set(a))
        for k in a:
            if k in b:
                yield from json_diff(a[k], b[k], path + (k,))
        return
    if isinstance(a, list) and isinstance(b, list):
        if len(a) != len(b):
            yield path, "structure", f"list[{len(a)}]", f"list[{len(b)}]"
            return
        for i, (x, y) in enumerate(zip(a, b)):
            yield from json_diff(x, y, path + (i,))
        return
    if isinstance(a, bool) or isinstance(b, bool) or a is None or b is None or isinstance(a, str) or isinstance(b, str):
        if type(a) is not type(b):
            yield path, "structure", repr(a)[:60], repr(b)[:60]
        elif a != b:
            yield path, "value", a, b
        return
    if _is_num(a) and _is_num(b):
        if isinstance(a, int) and isinstance(b, int):
            if a != b:
                yield path, "value", a, b
        elif type(a) is not type(b):
            yield path, "number-type", a, b
        elif not numbers_equal_single(a, b):
            yield path, "value", a, b
        return
    # scalar vs list, list vs dict, ...
    yield path, "structure", _shape_of(a), _shape_of(b)


def _shape_of(x):
    if isinstance(x, list):
        return f"list[{len(x)}]"
    if isinstance(x, dict):
        return "dict"
    return type(x).__name__


def normal_mode(loc, scale):
    loc, scale = np.asarray(loc, dtype=np.float64), np.asarray(scale, dtype=np.float64)
    return np.broadcast_arrays(loc, scale)[0]


def closed_form(kind, params, mixing, ips, times):
    """Documented trajectory of one individual.

    kind: 'logistic' | 'linear'.  params: saved parameters (lists / floats).  mixing: (n_sources, dim) array or None.
    ips: {'xi','tau','sources'?}.  Returns (n_times, dim) float64.

    alpha = exp(xi); rt = alpha (t - tau); w = sources @ A
    linear   : y_k = g_k + v0_k rt + w_k
    logistic : y_k = 1 / (1 + g_k exp(-(g_k+1)^2/g_k (v0_k rt + w_k)))
    with v0 = exp(log_v0_mean) and g = exp(log_g_mean) (logistic) / g_mean (linear): population variables at prior mode.
    """
    t = np.asarray(times, dtype=np.float64).reshape(-1, 1)
    rt = math.exp(float(ips["xi"])) * (t - float(ips["tau"]))
    v0 = np.exp(np.asarray(params["log_v0_mean"], dtype=np.float64).reshape(1, -1))
    dim = v0.shape[1]
    w = np.zeros((1, dim))
    if mixing is not None and "sources" in ips:
        w = (np.asarray(ips["sources"], dtype=np.float64).reshape(1, -1) @ np.asarray(mixing, dtype=np.float64).reshape(-1, dim))
    if kind == "linear":
        g = np.asarray(params["g_mean"], dtype=np.float64).reshape(1, -1)
        return g + v0 * rt + w
    g = np.exp(np.asarray(params["log_g_mean"], dtype=np.float64).reshape(1, -1))
    with np.errstate(over="ignore"):
        return 1.0 / (1.0 + g * np.exp(-((g + 1.0) ** 2 / g) * (v0 * rt + w)))
