"""Reference Metropolis-Hastings transition (C03): recompute, from the recorded draws and from-scratch
evaluations of the state's own variable definitions, what one sample() call must have done."""
from __future__ import annotations

import torch

from vf import stateharness as sh


def _own_regularity_nodes(dag, model_pop, model_ind):
    """Each latent variable's own prior term: nll_regul_<pop> (total) and nll_regul_<ind>_ind (per individual)."""
    return [f"nll_regul_{p}" for p in model_pop], [f"nll_regul_{v}_ind" for v in model_ind]


def _val(x):
    return x.weighted_value if isinstance(x, sh.WeightedTensor) else x


def _delta(x0, x1):
    """Change of a term; a term that did not move contributes exactly 0 (even when it is inf / NaN on both sides)."""
    unchanged = (x0 == x1) | (torch.isnan(x0) & torch.isnan(x1))
    return torch.where(unchanged, torch.zeros_like(x1), x1 - x0)


def verify_call(probe, state, tinv, before, events, pop_names, ind_names, report, stats, is_mixture=False, margin=1e-4):
    """Check one observed sample() call.  `report(key, what, **obs)`; `stats[name] += n`."""
    s = probe.s
    name = s.name
    dag = state.dag

    def st(k, n=1):
        stats[k] = stats.get(k, 0) + n

    ev = [e for e in events if e[0] in ("shuffle", "randn", "rand", "proposal", "decision")]
    pop_terms, ind_terms = _own_regularity_nodes(dag, pop_names, ind_names)
    # "everything that depends on the block": own-prior terms that are descendants of the sampled variable
    # (independent closure over the declared direct dependencies, not State's children lists)
    from vf.refmodel import dagref

    up = dagref.closure(list(dag.variables), {n: set(dag.direct_ancestors[n]) for n in dag.variables})
    pop_terms = [t for t in pop_terms if name in up[t]]
    ind_terms = [t for t in ind_terms if name in up[t]]
    ind_sum = ["nll_regul_ind_sum"] if name in up["nll_regul_ind_sum"] else []

    def regul_and_attach(indep, per_individual):
        need = (["nll_attach_ind"] + ind_terms) if per_individual else (["nll_attach"] + pop_terms + ind_sum)
        vals = sh.scratch_eval(dag, indep, need)
        if any(isinstance(v, (sh.Unset, sh.Raised)) for v in vals.values()):
            return None
        a = _val(vals[need[0]])
        return a, [_val(vals[k]) for k in need[1:]]

    if probe.is_ind:
        # grammar: randn(n,*shape) proposal rand(n) decision
        kinds = [e[0] for e in ev]
        if kinds != ["randn", "proposal", "rand", "decision"]:
            report("sampler/ind/draw-grammar", f"individual sampler consumed draws in order {kinds}, expected randn, rand (one each)", kinds=kinds)
            return
        z, change, u, (_, alpha, acc, proposed) = ev[0][2], ev[1][2], ev[2][2], ev[3]
        n = s.n_patients
        prev = before[name]
        if tuple(z.shape) != (n, *s.shape) or tuple(u.shape) != (n,):
            report("sampler/ind/draw-shape", f"draw shapes {tuple(z.shape)}, {tuple(u.shape)} do not match one proposal and one decision per individual")
            return
        std_b = s.std.reshape((n,) + (1,) * (z.ndim - 1))
        st("decisions", n)
        # NB: std may have been adapted at the end of this very call; use the recorded std_before if an update happened
        upd = [e for e in events if e[0] == "std_update"]
        std_used = upd[-1][3] if upd else s.std
        std_b = std_used.reshape((n,) + (1,) * (z.ndim - 1))
        if not torch.equal(change, std_b * z):
            report("sampler/ind/proposal-not-std-times-normal", "proposal change differs from per-individual std * fresh standard normal draw",
                   got=sh.brief(change), want=sh.brief(std_b * z))
            return
        if proposed is None or not sh.same(proposed, prev + change, rtol=0.0):
            report("sampler/ind/proposal-not-additive", "proposed value differs from previous value + change", got=sh.brief(proposed), want=sh.brief(prev + change))
            return
        # decision = [u < alpha] with the recorded alpha (exact), alpha = exp(-D) recomputed from scratch
        if not torch.equal(acc, u < alpha):
            report("sampler/ind/decision-not-u-below-alpha", "acceptance differs from [fresh uniform < alpha]", acc=acc.tolist(), u=u.tolist(), alpha=alpha.tolist())
            return
        if is_mixture:
            # mixture prior: the regularity of an individual in a state is the responsibility-weighted per-cluster regularity OF THAT STATE,
            # responsibilities = softmax over clusters of -nll_regul_ind_sum_ind (clamped at -100) evaluated on the same state
            def mix_terms(indep):
                vals = sh.scratch_eval(dag, indep, ["nll_attach_ind", f"nll_regul_{name}_ind", "nll_regul_ind_sum_ind"])
                if any(isinstance(v, (sh.Unset, sh.Raised)) for v in vals.values()):
                    return None
                a = _val(vals["nll_attach_ind"])
                r = _val(vals[f"nll_regul_{name}_ind"])
                tot = vals["nll_regul_ind_sum_ind"]
                tot = tot.value if isinstance(tot, sh.WeightedTensor) else tot
                if r.ndim == 2:
                    probs = torch.softmax(torch.clamp(-tot, -100.0), dim=1)
                    r = (probs * r).sum(dim=1)
                return a, r

            ind1 = dict(before)
            ind1[name] = prev + change
            m0, m1 = mix_terms(dict(before)), mix_terms(ind1)
            if m0 is None or m1 is None:
                st("alpha_not_recomputed_definition_raised", n)
            else:
                (a0, r0_), (a1, r1_) = m0, m1
                alpha_ref = torch.exp(-1 * ((r1_ - r0_) * tinv + (a1 - a0)))
                st("alpha_recomputed_mixture", n)
                _judge_alpha(alpha, alpha_ref, u, acc, report, st, "ind", margin)
        else:
            ind0 = dict(before)
            ind1 = dict(before)
            ind1[name] = prev + change
            r0, r1 = regul_and_attach(ind0, True), regul_and_attach(ind1, True)
            if r0 is None or r1 is None:
                st("alpha_not_recomputed_definition_raised", n)
            else:
                (a0, t0), (a1, t1) = r0, r1
                d_reg = sum((x1 - x0) for x0, x1 in zip(t0, t1))
                alpha_ref = torch.exp(-1 * (d_reg * tinv + (a1 - a0)))
                _judge_alpha(alpha, alpha_ref, u, acc, report, st, "ind", margin)
        final = state._values[name]
        m = acc.reshape((n,) + (1,) * (prev.ndim - 1))
        want = torch.where(m, prev + change, prev)
        if not sh.same(final, want, rtol=0.0):
            report("sampler/ind/final-value", "final value is not (accepted ? proposed : previous) per individual", got=sh.brief(final), want=sh.brief(want))
        st("accepted", int(acc.sum()))
        st("rejected", int((~acc).sum()))
        return

    # ---- population samplers ---------------------------------------------------------
    upd = [e for e in events if e[0] == "std_update"]
    std_used = upd[-1][3] if upd else s.std
    i = 0
    order = None
    if ev and ev[0][0] == "shuffle":
        order = [tuple(x) for x in ev[0][1]]
        i = 1
    blocks = ev[i:]
    if len(blocks) % 4 != 0 or [e[0] for e in blocks] != ["randn", "proposal", "rand", "decision"] * (len(blocks) // 4):
        report("sampler/pop/draw-grammar", "population sampler draws are not (randn, rand) per block decision", kinds=[e[0] for e in ev])
        return
    expected_blocks = {(): 1}.get(tuple(s.shape_adapted_std), None)
    n_blocks = len(blocks) // 4
    import numpy as np

    want_idx = [tuple(ix) for ix in np.ndindex(tuple(s.shape_adapted_std))]
    got_idx = [blocks[4 * b + 1][1] for b in range(n_blocks)]
    if sorted(got_idx) != sorted(want_idx):
        report("sampler/pop/blocks", f"blocks visited {got_idx} are not each block of the variable exactly once ({want_idx})")
        return
    if order is not None and got_idx != order:
        report("sampler/pop/blocks-order", "blocks not visited in the shuffled order", got=got_idx, order=order)
        return
    cur = dict(before)
    for b in range(n_blocks):
        z, (_, idx, change), u, (_, alpha, acc, proposed) = blocks[4 * b][2], blocks[4 * b + 1], blocks[4 * b + 2][2], blocks[4 * b + 3]
        st("decisions")
        prev = cur[name]
        block_shape = tuple(s.shape[len(idx):])
        if tuple(z.shape) != block_shape or tuple(u.shape) != ():
            report("sampler/pop/draw-shape", f"draw shapes {tuple(z.shape)}/{tuple(u.shape)} do not match block {idx} of shape {block_shape}")
            return
        if not torch.equal(change, std_used[idx] * z):
            report("sampler/pop/proposal-not-std-times-normal", f"proposal change for block {idx} differs from std[block] * fresh standard normal draw",
                   got=sh.brief(change), want=sh.brief(std_used[idx] * z))
            return
        want_prop = prev + change if idx == () else prev.index_put(tuple(torch.tensor(j) for j in idx), change, accumulate=True)
        if proposed is None or not sh.same(proposed, want_prop, rtol=0.0):
            report("sampler/pop/proposal-outside-block", f"proposed value differs from previous value perturbed on block {idx} only",
                   got=sh.brief(proposed), want=sh.brief(want_prop))
            return
        if bool(acc) != bool(u < alpha):
            report("sampler/pop/decision-not-u-below-alpha", "acceptance differs from [fresh uniform < alpha]", acc=bool(acc), u=float(u), alpha=float(alpha))
            return
        nxt = dict(cur)
        nxt[name] = want_prop
        r0, r1 = regul_and_attach(cur, False), regul_and_attach(nxt, False)
        if r0 is None or r1 is None:
            st("alpha_not_recomputed_definition_raised")
        else:
            (a0, t0), (a1, t1) = r0, r1
            d_reg = sum((x1 - x0) for x0, x1 in zip(t0, t1))
            alpha_ref = torch.exp(-1 * (d_reg * tinv + (a1 - a0)))
            _judge_alpha(alpha.reshape(()), alpha_ref.reshape(()), u, acc, report, st, "pop", margin)
        if bool(acc):
            cur = nxt
            st("accepted")
        else:
            st("rejected")
    final = state._values[name]
    if not sh.same(final, cur[name], rtol=0.0):
        report("sampler/pop/final-value", "final value is not previous value + accepted block changes", got=sh.brief(final), want=sh.brief(cur[name]))


def _judge_alpha(alpha, alpha_ref, u, acc, report, st, who, margin):
    """alpha (observed, float32) vs exp(-D) recomputed from scratch.  Ties (|u - alpha_ref| within the float32
    uncertainty) are counted, not judged."""
    a, r = alpha.double(), alpha_ref.double()
    st("alpha_plus_inf_decisions", int(torch.isposinf(a).sum()))
    st("alpha_nan_decisions", int(torch.isnan(a).sum()))
    both_nan = torch.isnan(a) & torch.isnan(r)
    fin = torch.isfinite(a) & torch.isfinite(r)
    rel = torch.zeros_like(a)
    rel[fin] = (a[fin] - r[fin]).abs() / torch.clamp(torch.maximum(a[fin].abs(), r[fin].abs()), min=1e-30)
    same_inf = (~fin) & ~both_nan & (a == r)
    bad = (fin & (rel > margin)) | ((~fin) & ~both_nan & ~same_inf)
    st("alpha_recomputed", int(a.numel()))
    if bad.any():
        # is the *decision* affected? only then is it judged as a wrong transition; a pure numeric gap above margin is also reported
        report(f"sampler/{who}/alpha-not-exp-minus-D",
               "acceptance ratio differs from exp(-(d attachment + temperature_inv * d regularity of everything depending on the block))",
               alpha=a.flatten()[:6].tolist(), alpha_ref=r.flatten()[:6].tolist(), u=u.flatten()[:6].tolist())
        return
    tie = (u.double() - r).abs() <= margin * torch.clamp(r.abs(), min=1e-30)
    st("ties_not_judged", int(tie.sum()))
    dec_ref = u.double() < r
    wrong = (dec_ref != acc.reshape(dec_ref.shape)) & ~tie & ~both_nan
    if wrong.any():
        report(f"sampler/{who}/decision-differs-from-reference", "decision differs from [u < exp(-D_ref)] outside the tie margin",
               acc=acc.flatten()[:6].tolist(), u=u.flatten()[:6].tolist(), alpha_ref=r.flatten()[:6].tolist())
