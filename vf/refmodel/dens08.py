"""Textbook negative log-densities (numpy float64) — the executable specification for C08.

Written from the formulas of the documentation (docs/models.md, "Survival Submodel") and standard
probability textbooks, NOT from leaspy's code:

* Normal(loc, scale):      -log f(x) = 1/2 ((x-loc)/scale)^2 + log(scale) + 1/2 log(2 pi)
* Bernoulli(p), x in {0,1}: -log f(x) = -[x log p + (1-x) log(1-p)]
* right-censored Weibull on the reparametrised time  s = e^{xi} (t - tau)  with scale nu, shape rho and the
  proportional-hazard factor e^{u} (u = survival shift = zeta . sources; u = 0 without sources):
      cumulative hazard  H(t) = (s/nu)^rho e^{u}                     -log S(t) = H(t)          (S = 1 for t <= tau)
      hazard             h(t) = dH/dt = (rho e^{xi}/nu) (s/nu)^{rho-1} e^{u}      (0 for t < tau: no mass there)
  censored individual : -log L = -log S(t)                (survival term only)
  observed event      : -log L = -log S(t) - log h(t)     (adds the log-hazard)
  An observed event at t < tau has density 0, i.e. -log L = +inf in exact arithmetic: the reference returns
  +inf there and the *monitor* demands a finite prohibitive penalty instead (see `PENALTY_MIN`).

Everything broadcasts with numpy rules; inputs are converted to float64 first.
"""
from __future__ import annotations

import numpy as np

HALF_LOG_2PI = 0.5 * np.log(2.0 * np.pi)
PENALTY_MIN = 1e300  # "prohibitive finite penalty": anything finite >= this (constants.INFINITY is 1e307)


def f64(a):
    return np.asarray(a, dtype=np.float64)


def normal_nll(x, loc, scale):
    x, loc, scale = f64(x), f64(loc), f64(scale)
    with np.errstate(all="ignore"):
        z = (x - loc) / scale
        return 0.5 * z * z + np.log(scale) + HALF_LOG_2PI


def normal_nll_dx(x, loc, scale):
    """d/dx of normal_nll."""
    x, loc, scale = f64(x), f64(loc), f64(scale)
    with np.errstate(all="ignore"):
        return (x - loc) / (scale * scale)


def bernoulli_nll(x, p):
    """x must be 0 or 1 (anything else -> NaN = outside the support, not judged)."""
    x, p = f64(x), f64(p)
    x, p = np.broadcast_arrays(x, p)
    with np.errstate(all="ignore"):
        out = np.where(x == 1.0, -np.log(p), np.where(x == 0.0, -np.log1p(-p), np.nan))
    return out


def weibull_reparam_scale(nu, rho, xi, shifts=None):
    """Scale of the Weibull law of (t - tau) for one individual:  (t-tau)/scale = s/nu * e^{u/rho}."""
    nu, rho, xi = f64(nu), f64(rho), f64(xi)
    u = 0.0 if shifts is None else f64(shifts)
    with np.errstate(all="ignore"):
        return nu * np.exp(-xi - u / rho)


def weibull_terms(t, observed, nu, rho, xi, tau, shifts=None):
    """Returns dict of broadcast float64 arrays:
    neg_log_S   : cumulative hazard H(t) >= 0   (0 for t <= tau)
    log_h       : log-hazard (w.r.t. the real time t) for t > tau, -inf for t <= tau
    nll         : neg_log_S - observed * log_h   (+inf for an observed event at t <= tau)
    after       : t > tau        at_tau : t == tau       before : t < tau
    log_pow     : log of the power factor ((t-tau)/scale_i)^(rho-1) of the hazard (numeric annotation only: below -708 that factor
                  is smaller than the smallest normal float64, so an implementation forming the hazard before taking its log loses it)
    observed    : boolean, broadcast
    """
    t, nu, rho, xi, tau = f64(t), f64(nu), f64(rho), f64(xi), f64(tau)
    u = f64(0.0) if shifts is None else f64(shifts)
    obs = np.asarray(observed).astype(bool)
    t, obs, nu, rho, xi, tau, u = np.broadcast_arrays(t, obs, nu, rho, xi, tau, u)
    d = t - tau
    after, at_tau, before = d > 0, d == 0, d < 0
    with np.errstate(all="ignore"):
        log_s_over_nu = np.log(np.where(after, d, 1.0)) + xi - np.log(nu)  # log(e^xi (t-tau) / nu)
        H = np.where(after, np.exp(rho * log_s_over_nu + u), 0.0)
        log_h = np.where(after, np.log(rho) + xi - np.log(nu) + (rho - 1.0) * log_s_over_nu + u, -np.inf)
        nll = np.where(obs, H - log_h, H)
        log_pow = np.where(after, (rho - 1.0) * (log_s_over_nu + u / rho), 0.0)
    return dict(neg_log_S=H, log_h=log_h, nll=nll, after=after, at_tau=at_tau, before=before, observed=obs, log_pow=log_pow)
