"""Plain-dict reference model of an individual-parameter container (property C16).

Written from the class documentation and the property statement, not from the implementation:

* a container = ordered list of string identifiers + for each identifier a dict {parameter name: value},
  a value being a real scalar or a flat (1-D) sequence of real scalars; all individuals share names and shapes
  (scalar ``()``, length-1 ``(1,)``, length-n ``(n,)``); numpy arrays are stored as lists ("conversion of numpy
  arrays to lists").
* table form: one row per individual, index ``ID`` (strings, same order), one column per scalar element, a
  size-1 parameter in a column ``name`` or ``name_0``, a length-n one in ``name_0 .. name_{n-1}``.
* tensor form: (list of identifiers, {name: float32 tensor of shape (n_individuals, size)}) -- always 2-D.

Only numpy is used (float64); torch objects are only *read* through ``.tolist()`` / attributes.
"""
from __future__ import annotations

import math

import numpy as np

REAL_SCALARS = (int, float, np.integer, np.floating)


class Snap:
    """Plain copy of a container: ids (list), params {id: {name: scalar | list}}, shapes {name: tuple} | None."""

    __slots__ = ("ids", "params", "shapes")

    def __init__(self, ids, params, shapes):
        self.ids, self.params, self.shapes = ids, params, shapes

    def brief(self):
        return {"ids": self.ids[:6], "shapes": {k: list(v) if isinstance(v, (tuple, list)) else repr(v) for k, v in (self.shapes or {}).items()},
                "first": {k: _brief_val(v) for k, v in (self.params.get(self.ids[0], {}) if self.ids and isinstance(self.params, dict) else {}).items()}}


def _r(x, n=80):
    """repr, truncated (identifiers may be thousands of characters long)."""
    if isinstance(x, (list, tuple)):
        return "[" + ", ".join(_r(y, n) for y in list(x)[:6]) + (", ..." if len(x) > 6 else "") + "]"
    t = repr(x)
    return t if len(t) <= n else t[: n - 12] + f"...<{len(t)} chars>"


def _brief_val(v):
    if isinstance(v, list):
        return [repr(x) for x in v[:6]]
    return repr(v)


def is_real(x) -> bool:
    return isinstance(x, REAL_SCALARS) and not isinstance(x, (bool, np.bool_))


def shape_of(v):
    """Shape of a stored value as the documentation defines it; None when the value is not a scalar / flat list."""
    if isinstance(v, list):
        return (len(v),) if all(is_real(x) for x in v) and len(v) > 0 else None
    return () if is_real(v) else None


def flat(v):
    return list(v) if isinstance(v, list) else [v]


def snap(ip) -> Snap:
    """Copy the three documented attributes of a real container into plain python objects."""
    ids = list(ip._indices)
    params = {}
    for k, d in ip._individual_parameters.items():
        params[k] = {p: (list(v) if isinstance(v, list) else v) for p, v in d.items()} if isinstance(d, dict) else d
    shapes = None if ip._parameters_shape is None else dict(ip._parameters_shape)
    return Snap(ids, params, shapes)


def model_from_entries(entries) -> Snap:
    """The container the documentation promises after adding ``entries`` = [(id, {name: value}), ...] in order."""
    ids, params, shapes = [], {}, None
    for idx, d in entries:
        dd = {p: (v.tolist() if isinstance(v, np.ndarray) else (list(v) if isinstance(v, list) else v)) for p, v in d.items()}
        ids.append(idx)
        params[idx] = dd
        if shapes is None:
            shapes = {p: shape_of(v) for p, v in dd.items()}
    return Snap(ids, params, shapes)


# ---------------------------------------------------------------------------------------------------------------
def wellformed_problems(s: Snap):
    """Invariant of the container itself (what every from_* / load must return)."""
    out = []
    bad = [i for i in s.ids if not isinstance(i, str)]
    if bad:
        out.append(("ids-not-str", f"identifiers of types {sorted({type(i).__name__ for i in bad})}: {_r(bad)}", {}))
    if len(set(map(repr, s.ids))) != len(s.ids):
        out.append(("ids-duplicated", f"{_r(s.ids)}", {}))
    if not isinstance(s.params, dict) or list(s.params.keys()) != s.ids:
        out.append(("ids-order-of-dict-differs", f"list {_r(s.ids)} vs dict keys {_r(list(s.params))}", {}))
        return out
    if not s.ids:
        return out
    if not isinstance(s.shapes, dict):
        out.append(("shape-record-missing", f"_parameters_shape = {_r(s.shapes)} with {len(s.ids)} individuals", {}))
        return out
    for p, sh in s.shapes.items():
        if not isinstance(sh, tuple):
            out.append(("shape-record-not-tuple", f"shape of {_r(p)} recorded as {_r(sh)} ({type(sh).__name__})", {}))
            break
    for i in s.ids:
        d = s.params[i]
        if not isinstance(d, dict) or set(d) != set(s.shapes):
            out.append(("names-inconsistent", f"individual {_r(i)} has names {sorted(d) if isinstance(d, dict) else d!r}, shapes record {sorted(s.shapes)}", {}))
            break
        for p, v in d.items():
            if shape_of(v) is None:
                out.append(("value-not-real", f"{_r(i)}.{p} = {_brief_val(v)}", {}))
                return out
            rec = s.shapes[p]
            if not isinstance(rec, (tuple, list)) or tuple(rec) != shape_of(v):
                out.append(("shape-record-inconsistent", f"{_r(i)}.{p} has shape {shape_of(v)} but record says {s.shapes[p]!r}", {}))
                return out
    return out


def ulps(a: float, b: float) -> float:
    if a == b:
        return 0.0
    if not (math.isfinite(a) and math.isfinite(b)):
        return math.inf
    sp = np.spacing(max(abs(a), abs(b)))
    return abs(a - b) / float(sp)


def rel_err(got, want) -> float:
    try:
        g, w = float(got), float(want)
    except Exception:
        return math.inf
    if g == w:
        return 0.0
    if not (math.isfinite(g) and math.isfinite(w)):
        return math.inf
    return abs(g - w) / max(abs(g), abs(w))


def value_same(got, want, f32: bool):
    """(same?, ulp distance in float64).  ``want`` is the value that went in (its own precision is what can be demanded)."""
    if not is_real(got):
        return False, math.inf
    g, w = float(got), float(want)
    if math.isnan(w) or math.isnan(g):
        return (math.isnan(w) and math.isnan(g)), math.inf
    if f32 or isinstance(want, np.float32):
        with np.errstate(all="ignore"):
            return bool(np.float32(g) == np.float32(w)), ulps(g, w)
    return g == w, ulps(g, w)


def compare(got: Snap, want: Snap, *, f32=False, scalar_to_vec=False, check_order_of_names=False):
    """Problems [(symptom, detail, extra)] of ``got`` as a faithful copy of ``want``.

    f32            values may have gone through single precision (tensor form involved)
    scalar_to_vec  a scalar ``()`` may come back as a length-1 vector (table / tensor forms have no 0-d cell);
                   vectors must come back as vectors of the same length, scalars never become longer.
    """
    out = list(wellformed_problems(got))
    if any(sym.startswith("ids-not-str") for sym, _, _ in out):
        return out
    if got.ids != want.ids:
        if sorted(map(repr, got.ids)) == sorted(map(repr, want.ids)):
            out.append(("ids-reordered", f"{_r(want.ids)} -> {_r(got.ids)}", {}))
        elif [str(i) for i in got.ids] == want.ids:
            out.append(("ids-not-str", f"{_r(want.ids)} -> {_r(got.ids)}", {}))
        else:
            out.append(("ids-changed", f"{_r(want.ids)} -> {_r(got.ids)}", {}))
        return out
    if out:
        return out
    if not want.ids:
        return out
    if set(got.shapes) != set(want.shapes):
        out.append(("names-changed", f"{sorted(want.shapes)} -> {sorted(got.shapes)}", {}))
        return out
    if check_order_of_names and list(got.shapes) != list(want.shapes):
        out.append(("names-reordered", f"{list(want.shapes)} -> {list(got.shapes)}", {}))
    for p, wsh in want.shapes.items():
        gsh = got.shapes[p]
        ok = tuple(gsh) == tuple(wsh) or (scalar_to_vec and wsh == () and tuple(gsh) == (1,))
        if not ok:
            out.append(("shape-changed", f"{_r(p)}: {wsh} -> {gsh}", {"from": list(wsh), "to": list(gsh)}))
            return out
    worst, worst_rel, n_bad, first = 0.0, 0.0, 0, None
    signlost = 0
    for i in want.ids:
        for p, wv in want.params[i].items():
            gv = got.params[i][p]
            gl, wl = flat(gv), flat(wv)
            if len(gl) != len(wl):
                out.append(("shape-changed", f"{_r(i)}.{p}: {len(wl)} -> {len(gl)} elements", {}))
                return out
            for g, w in zip(gl, wl):
                same, u = value_same(g, w, f32)
                if not same:
                    n_bad += 1
                    worst = max(worst, u)
                    worst_rel = max(worst_rel, rel_err(g, w))
                    if first is None:
                        first = f"{_r(i)}.{p}: {_r(w)} -> {_r(g)}"
                elif float(w) == 0.0 and math.copysign(1.0, float(w)) != math.copysign(1.0, float(g)):
                    signlost += 1
    if n_bad:
        out.append(("values-changed", f"{n_bad} element(s), first {first}, worst {worst:.3g} ulp(float64)", {"max_ulps": worst, "max_rel": worst_rel, "n_bad": n_bad}))
    if signlost and not out:
        out.append(("info:sign-of-zero-lost", f"{signlost} zero(s) changed sign", {}))
    return out


def judged(problems):
    """Split problems into (judged, informational)."""
    return [p for p in problems if not p[0].startswith("info:")], [p for p in problems if p[0].startswith("info:")]


# ---------------------------------------------------------------------------------------------------------------
def table_problems(s: Snap, index_name, index_values, columns, rows):
    """Is (index, columns, rows) the documented table form of ``s``?  rows = list of lists of cell values."""
    out = []
    if index_name != "ID":
        out.append(("table-index-not-named-ID", f"index name {_r(index_name)}", {}))
    if list(index_values) != s.ids or any(not isinstance(i, str) for i in index_values):
        out.append(("table-ids-changed", f"{_r(s.ids)} -> {_r(list(index_values))}", {}))
        return out
    expected_cols = []  # list of acceptable name sets per column position
    for p, sh in (s.shapes or {}).items():
        n = 1 if tuple(sh) == () else sh[0]
        if n == 1:
            expected_cols.append({p, f"{p}_0"})
        else:
            expected_cols += [{f"{p}_{k}"} for k in range(n)]
    if len(columns) != len(expected_cols) or any(c not in e for c, e in zip(columns, expected_cols)):
        out.append(("table-columns-not-documented-scheme", f"columns {_r(list(columns)[:8])} for shapes {_r(s.shapes)}", {}))
        return out
    for i, row in zip(s.ids, rows):
        want = [x for p in s.shapes for x in flat(s.params[i][p])]
        for c, g, w in zip(columns, row, want):
            same, _ = value_same(g, w, False)
            if not same:
                out.append(("table-values-changed", f"row {_r(i)} column {_r(c)}: {_r(w)} -> {_r(g)}", {}))
                return out
    return out


def tensor_form_problems(s: Snap, ids, tensors):
    """Is (ids, {name: tensor}) the documented tensor form of ``s``?  Tensors are read via shape / dtype / tolist."""
    out = []
    if list(ids) != s.ids or any(not isinstance(i, str) for i in ids):
        out.append(("tensor-ids-changed", f"{_r(s.ids)} -> {_r(list(ids))}", {}))
        return out
    if set(tensors) != set(s.shapes or {}):
        out.append(("tensor-names-changed", f"{sorted(s.shapes or {})} -> {sorted(tensors)}", {}))
        return out
    for p, t in tensors.items():
        sh = s.shapes[p]
        size = 1 if tuple(sh) == () else sh[0]
        if tuple(t.shape) != (len(s.ids), size):
            out.append(("tensor-not-2d", f"{_r(p)}: tensor shape {tuple(t.shape)} for {len(s.ids)} individuals of shape {sh}", {}))
            return out
        if str(t.dtype) != "torch.float32":
            out.append(("tensor-not-float32", f"{_r(p)}: dtype {t.dtype}", {}))
            return out
        rows = t.tolist()
        for i, row in zip(s.ids, rows):
            for g, w in zip(row, flat(s.params[i][p])):
                same, _ = value_same(g, w, True)
                if not same:
                    out.append(("tensor-values-changed", f"{_r(i)}.{p}: {_r(w)} -> {_r(g)}", {}))
                    return out
    return out


def addition_verdict(before: Snap, index, params):
    """None when the documentation says the addition is acceptable, else the reason it must be rejected."""
    if not isinstance(index, str):
        return "non-str-id"
    if index in before.ids:
        return "duplicate-id"
    if not isinstance(params, dict):
        return "not-a-dict"
    shapes = {}
    for p, v in params.items():
        if isinstance(v, np.ndarray):
            v = v.tolist()
        if isinstance(v, list):
            if len(v) == 0 or not is_real(v[0]):
                return "unsupported-type"
            if not all(is_real(x) for x in v):
                return "list-tail-unsupported"
        elif not is_real(v):
            return "unsupported-type"
        shapes[p] = shape_of(v)
    if before.shapes is not None and shapes != before.shapes:
        return "inconsistent-shape"
    return None
